package indep

import (
	"bytes"
	"fmt"
)

// ---------------------------------------------------------------- datatype message (IV.A.2.d)

// datatype decodes a datatype message and checks the class-specific layout.
func (f *File) datatype(d []byte, owner string) (*Dtype, map[string]bool) {
	return f.datatypeOpt(d, owner, false, false)
}

// saneCompound: all members decoded, lie inside the compound, do not overlap, and have plausible names.
func saneCompound(t *Dtype, n int) bool {
	if t == nil || len(t.Members) != n {
		return false
	}
	end := 0
	for _, m := range t.Members {
		if m.Type == nil || m.Type.Class > 11 || m.Type.Size <= 0 || m.Offset < end || m.Offset+m.Type.Size > t.Size || m.Name == "" {
			return false
		}
		for _, c := range []byte(m.Name) {
			if c < 0x20 {
				return false
			}
		}
		end = m.Offset + m.Type.Size
	}
	return true
}

func anyFalse(r map[string]bool) bool {
	for _, v := range r {
		if !v {
			return true
		}
	}
	return false
}

// datatypeOpt: wideOffsets = 4-byte member offsets in version 3 compounds; inner = called for the retry itself.
func (f *File) datatypeOpt(d []byte, owner string, wideOffsets, inner bool) (*Dtype, map[string]bool) {
	r := map[string]bool{}
	if !inner {
		wideOffsets = false
	}
	if len(d) < 8 {
		r["DTYPE.header"] = false
		return nil, r
	}
	t := &Dtype{Class: int(d[0] & 0x0f), Version: int(d[0] >> 4), Bits: uint32(d[1]) | uint32(d[2])<<8 | uint32(d[3])<<16,
		Size: int(uint32(d[4]) | uint32(d[5])<<8 | uint32(d[6])<<16 | uint32(d[7])<<24)}
	r["DTYPE.version"] = t.Version >= 1 && t.Version <= 5
	r["DTYPE.size.nonzero"] = t.Size > 0
	p := 8
	need := func(n int) bool {
		if p+n > len(d) {
			r["DTYPE.properties.present"] = false
			return false
		}
		return true
	}
	switch t.Class {
	case 0, 4: // fixed point, bitfield: bit offset (2), precision (2)
		if need(4) {
			off, prec := int(d[p])|int(d[p+1])<<8, int(d[p+2])|int(d[p+3])<<8
			r["DTYPE.fixed.precision"] = prec > 0 && off+prec <= 8*t.Size
			r["DTYPE.fixed.reserved0"] = t.Bits&^0x0f == 0
			p += 4
		}
	case 1: // floating point: bit offset, precision, exponent location/size, mantissa location/size, bias (4)
		if need(12) {
			off, prec := int(d[p])|int(d[p+1])<<8, int(d[p+2])|int(d[p+3])<<8
			eloc, esz, mloc, msz := int(d[p+4]), int(d[p+5]), int(d[p+6]), int(d[p+7])
			bias := uint32(d[p+8]) | uint32(d[p+9])<<8 | uint32(d[p+10])<<16 | uint32(d[p+11])<<24
			r["DTYPE.float.precision"] = prec > 0 && off+prec <= 8*t.Size
			sign := int(t.Bits>>8) & 0xff
			// IEEE layouts: sign at the top bit, exponent below it, mantissa at 0
			ieee := (t.Size == 4 && esz == 8 && msz == 23 && eloc == 23 && mloc == 0 && bias == 127 && sign == 31) ||
				(t.Size == 8 && esz == 11 && msz == 52 && eloc == 52 && mloc == 0 && bias == 1023 && sign == 63) ||
				(t.Size == 2 && esz == 5 && msz == 10 && eloc == 10 && mloc == 0 && bias == 15 && sign == 15) ||
				(t.Size == 2 && esz == 8 && msz == 7 && eloc == 7 && mloc == 0 && bias == 127 && sign == 15) || // bfloat16
				(t.Size != 2 && t.Size != 4 && t.Size != 8) ||
				off != 0 || prec != 8*t.Size || // a narrower float inside the element (N-bit packing): any layout
				t.Bits&0x41 == 0x41 // VAX byte order: not an IEEE machine
			r["DTYPE.float.fields"] = esz+msz+1 <= 8*t.Size && eloc+esz <= 8*t.Size && mloc+msz <= 8*t.Size && esz > 0 && msz > 0
			r["DTYPE.float.ieee"] = ieee
			p += 12
		}
	case 2:
		if need(2) {
			p += 2
		}
	case 3: // string: no properties; padding in bits 0-3, character set in bits 4-7
		r["DTYPE.string.padding"] = t.Bits&0x0f <= 2
		r["DTYPE.string.charset"] = (t.Bits>>4)&0x0f <= 1
	case 5: // opaque: ASCII tag, length in the class bits, padded to 8
		n := int(t.Bits & 0xff)
		r["DTYPE.opaque.tag.align8"] = n%8 == 0
		if need(n) {
			p += n
		}
	case 6: // compound
		n := int(t.Bits & 0xffff)
		if n == 0 && t.Version == 3 && len(d) >= p+4 {
			// no members in the class bits: the library under test stores the member count as a 4-byte field in
			// front of the members (and 4-byte member offsets).  Followed, and flagged.
			cnt := int(d[p]) | int(d[p+1])<<8 | int(d[p+2])<<16 | int(d[p+3])<<24
			if cnt > 0 && cnt < 4096 {
				q := p + 4
				var ms []Member
				ok := true
				for i := 0; i < cnt && ok; i++ {
					e := bytes.IndexByte(d[q:], 0)
					if e <= 0 || q+e+1+4 > len(d) {
						ok = false
						break
					}
					name := string(d[q : q+e])
					q += e + 1
					off := int(d[q]) | int(d[q+1])<<8 | int(d[q+2])<<16 | int(d[q+3])<<24
					q += 4
					mt, _ := f.datatype(d[q:], owner)
					if mt == nil {
						ok = false
						break
					}
					q += mt.Len
					ms = append(ms, Member{name, off, mt})
				}
				t.Members = ms
				if ok && saneCompound(t, cnt) {
					r["DTYPE.compound.member.count.in.classbits"] = false
					p = q
					break
				}
				t.Members = nil
			}
		}
		if t.Version >= 3 && !inner {
			// version 3 stores member offsets in as few bytes as the compound size needs.  Try that first; if the
			// members do not decode, try 4-byte offsets (what the library under test writes) and flag it.
			save := *t
			t2, r2 := f.datatypeOpt(d, owner, false, true)
			if !saneCompound(t2, n) {
				t3, r3 := f.datatypeOpt(d, owner, true, true)
				if saneCompound(t3, n) {
					r3["DTYPE.compound.v3.offset.width"] = false
					return t3, r3
				}
			}
			*t = save
			return t2, r2
		}
		for i := 0; i < n; i++ {
			e := bytes.IndexByte(d[p:], 0)
			if e < 0 {
				r["DTYPE.compound.member.name"] = false
				return t, r
			}
			name := string(d[p : p+e])
			var off int
			if t.Version < 3 {
				p += pad8(e + 1)
				if (t.Version == 1 && !need(4+28)) || !need(4) {
					return t, r
				}
				off = int(d[p]) | int(d[p+1])<<8 | int(d[p+2])<<16 | int(d[p+3])<<24
				p += 4
				if t.Version == 1 {
					p += 28 // dimensionality, reserved, permutation, reserved, 4 dimension sizes
				}
			} else {
				p += e + 1
				w := 1
				for v := t.Size; v > 0xff; v >>= 8 {
					w++
				}
				if wideOffsets {
					w = 4
				}
				if !need(w) {
					return t, r
				}
				for k := 0; k < w; k++ {
					off |= int(d[p+k]) << (8 * uint(k))
				}
				p += w
			}
			mt, mr := f.datatype(d[p:], owner)
			for k, v := range mr {
				if !v {
					r[k] = false
				}
			}
			if mt == nil {
				r["DTYPE.compound.member.type"] = false
				return t, r
			}
			p += mt.Len
			t.Members = append(t.Members, Member{name, off, mt})
			if off+mt.Size > t.Size {
				r["DTYPE.compound.member.inside"] = false
			}
		}
	case 7: // reference: no properties
	case 8: // enumeration: base type, names, values
		n := int(t.Bits & 0xffff)
		bt, br := f.datatype(d[p:], owner)
		for k, v := range br {
			if !v {
				r[k] = false
			}
		}
		if bt == nil {
			return t, r
		}
		t.Base = bt
		p += bt.Len
		for i := 0; i < n; i++ {
			if p > len(d) {
				r["DTYPE.enum.name"] = false
				return t, r
			}
			e := bytes.IndexByte(d[p:], 0)
			if e < 0 {
				r["DTYPE.enum.name"] = false
				return t, r
			}
			t.EnumNames = append(t.EnumNames, string(d[p:p+e]))
			if t.Version < 3 {
				p += pad8(e + 1)
			} else {
				p += e + 1
			}
		}
		// the names are distinct and not empty
		seen := map[string]bool{}
		for _, nm := range t.EnumNames {
			if nm == "" || seen[nm] {
				r["DTYPE.enum.names.distinct"] = false
			}
			seen[nm] = true
		}
		if _, bad := r["DTYPE.enum.names.distinct"]; !bad {
			r["DTYPE.enum.names.distinct"] = true
		}
		r["DTYPE.enum.size.is.base"] = bt.Size == t.Size
		if need(n * bt.Size) {
			for i := 0; i < n; i++ {
				var v uint64
				for k := 0; k < bt.Size && k < 8; k++ {
					v |= uint64(d[p+k]) << (8 * uint(k))
				}
				if bt.Class == 0 && bt.Bits&0x08 != 0 && bt.Size < 8 && v&(1<<(8*uint(bt.Size)-1)) != 0 {
					v |= ^uint64(0) << (8 * uint(bt.Size))
				}
				t.EnumValues = append(t.EnumValues, int64(v))
				p += bt.Size
			}
		} else {
			r["DTYPE.enum.values.present"] = false
		}
	case 9: // variable length: base type
		r["DTYPE.vlen.type"] = t.Bits&0x0f <= 1
		bt, br := f.datatype(d[p:], owner)
		for k, v := range br {
			if !v {
				r[k] = false
			}
		}
		if bt == nil {
			r["DTYPE.vlen.base"] = false
			return t, r
		}
		t.Base = bt
		p += bt.Len
	case 10: // array: rank, [reserved], dimension sizes, [permutation], base type
		if !need(1) {
			return t, r
		}
		rank := int(d[p])
		p++
		if t.Version < 3 {
			p += 3
		}
		if !need(4 * rank) {
			return t, r
		}
		for i := 0; i < rank; i++ {
			t.Dims = append(t.Dims, int(d[p])|int(d[p+1])<<8|int(d[p+2])<<16|int(d[p+3])<<24)
			p += 4
		}
		if t.Version < 3 {
			p += 4 * rank
		}
		bt, br := f.datatype(d[p:], owner)
		for k, v := range br {
			if !v {
				r[k] = false
			}
		}
		if bt == nil {
			r["DTYPE.array.base"] = false
			return t, r
		}
		t.Base = bt
		p += bt.Len
	case 11: // complex number: base type
		bt, _ := f.datatype(d[p:], owner)
		if bt != nil {
			t.Base = bt
			p += bt.Len
		}
	default:
		r["DTYPE.class.known"] = false
	}
	if p > len(d) {
		p = len(d)
	}
	t.Len = p
	t.Props = d[8:p]
	return t, r
}

// ---------------------------------------------------------------- dataspace message (IV.A.2.b)

func (f *File) dataspace(d []byte) (rank int, dims, max []uint64, r map[string]bool, ok bool) {
	r = map[string]bool{}
	if len(d) < 4 {
		r["DSPACE.header"] = false
		return
	}
	ver := int(d[0])
	rank = int(d[1])
	flags := int(d[2])
	r["DSPACE.version"] = ver == 1 || ver == 2
	r["DSPACE.rank"] = rank <= 32
	p := 8
	if ver == 2 {
		p = 4
		r["DSPACE.type"] = d[3] <= 2
	} else {
		r["DSPACE.reserved0"] = len(d) >= 8 && d[3] == 0 && d[4] == 0 && d[5] == 0 && d[6] == 0 && d[7] == 0
	}
	n := rank
	if flags&1 != 0 {
		n *= 2
	}
	if len(d) < p+n*f.LenSz {
		r["DSPACE.dims.present"] = false
		return
	}
	// message data in version 1 object headers is padded to a multiple of 8 bytes, whatever the dataspace version
	r["DSPACE.length.exact"] = len(d) == p+n*f.LenSz || len(d) == pad8(p+n*f.LenSz)
	rd := func(q int) uint64 {
		var v uint64
		for i := 0; i < f.LenSz; i++ {
			v |= uint64(d[q+i]) << (8 * uint(i))
		}
		return widen(v, f.LenSz)
	}
	for i := 0; i < rank; i++ {
		dims = append(dims, rd(p+i*f.LenSz))
	}
	if flags&1 != 0 {
		for i := 0; i < rank; i++ {
			m := rd(p + (rank+i)*f.LenSz)
			max = append(max, m)
			if m != undef && m < dims[i] {
				r["DSPACE.max.ge.dims"] = false
			}
		}
	}
	ok = true
	return
}

// ---------------------------------------------------------------- attribute message (IV.A.2.m)

func (f *File) attribute(d []byte, owner string) (Attr, bool) {
	var a Attr
	if len(d) < 6 {
		f.errf("%s: attribute message too short", owner)
		return a, false
	}
	ver := int(d[0])
	flags := int(d[1])
	nameSz, dtSz, dsSz := int(d[2])|int(d[3])<<8, int(d[4])|int(d[5])<<8, int(d[6])|int(d[7])<<8
	p := 8
	r := map[string]bool{"ATTR.version": ver >= 1 && ver <= 3}
	if ver == 3 {
		p = 9
	}
	if ver >= 2 && flags&3 != 0 {
		f.unsup("%s: attribute with shared datatype or dataspace", owner)
		return a, false
	}
	step := func(n int) int {
		if ver == 1 {
			return pad8(n)
		}
		return n
	}
	if nameSz == 0 || p+step(nameSz)+step(dtSz)+step(dsSz) > len(d) {
		f.errf("%s: attribute fields leave the message", owner)
		f.ext("attribute", 0, 0, owner, map[string]bool{"ATTR.sizes.fit": false})
		return a, false
	}
	nm := d[p : p+nameSz]
	r["ATTR.name.terminated"] = nm[len(nm)-1] == 0
	if i := bytes.IndexByte(nm, 0); i >= 0 {
		nm = nm[:i]
	}
	a.Name = string(nm)
	p += step(nameSz)
	t, tr := f.datatype(d[p:p+dtSz], owner+"@"+a.Name)
	for k, v := range tr {
		r[k] = v
	}
	if t != nil {
		r["ATTR.dtype.size.exact"] = t.Len == dtSz || (ver == 1 && pad8(t.Len) == pad8(dtSz))
	}
	a.Type = t
	p += step(dtSz)
	rank, dims, _, sr, ok := f.dataspace(d[p : p+dsSz])
	for k, v := range sr {
		r[k] = v
	}
	p += step(dsSz)
	if !ok || t == nil {
		f.ext("attribute", 0, 0, owner+"@"+a.Name, r)
		return a, false
	}
	a.Rank, a.Dims = rank, dims
	n := uint64(1)
	for _, x := range dims {
		n *= x
	}
	want := int(n) * t.Size
	if dsSz >= 4 && d[p-step(dsSz)] == 2 && d[p-step(dsSz)+3] == 2 {
		want = 0 // null dataspace
	}
	r["ATTR.data.size"] = len(d)-p >= want && len(d)-p < want+8 // version 1 headers pad message data to 8 bytes
	if len(d)-p >= want {
		a.Data = d[p : p+want]
	}
	f.ext("attribute", 0, 0, owner+"@"+a.Name, r)
	return a, true
}

// nestedComposite reports a compound/array/vlen type that contains another compound or array.
func nestedComposite(t *Dtype) bool {
	comp := func(x *Dtype) bool { return x != nil && (x.Class == 6 || x.Class == 10) }
	if t.Base != nil && (comp(t.Base) || nestedComposite(t.Base)) {
		return t.Class == 6 || t.Class == 10 || t.Class == 9 || nestedComposite(t.Base)
	}
	for _, m := range t.Members {
		if comp(m.Type) || (m.Type != nil && nestedComposite(m.Type)) {
			return true
		}
	}
	return false
}

// ---------------------------------------------------------------- datasets: layout (IV.A.2.i), chunk index

func (f *File) dataset(o *Obj, dspace, dtype, layout *msg, pipeline []msg, record bool) {
	rank, dims, max, sr, ok := f.dataspace(dspace.Data)
	t, tr := f.datatype(dtype.Data, o.Path)
	if t != nil && !nestedComposite(t) {
		// the message holds the datatype and nothing else (version 1 headers pad message data to 8 bytes).  Not evaluated for
		// composites nested in composites (array of compound, compound with array members): three reference files of that
		// shape carry more bytes than this decoder accounts for, so the rule is not trusted there.
		tr["DTYPE.msg.length"] = len(dtype.Data) >= t.Len && len(dtype.Data) < t.Len+8
	}
	if record {
		f.ext("msg-dataspace", 0, 0, o.Path, sr)
		f.ext("msg-datatype", 0, 0, o.Path, tr)
	}
	if !ok || t == nil {
		o.DataErr = "dataspace or datatype not decodable"
		return
	}
	o.Rank, o.Dims, o.MaxDims, o.Type = rank, dims, max, t
	n := uint64(1)
	for _, x := range dims {
		n *= x
	}
	total := n * uint64(t.Size)
	for _, m := range pipeline {
		o.Filters = append(o.Filters, f.pipeline(m.Data, o.Path, record)...)
	}
	if layout == nil {
		o.DataErr = "no layout message"
		return
	}
	d := layout.Data
	if len(d) < 2 {
		o.DataErr = "layout message too short"
		return
	}
	ver := int(d[0])
	r := map[string]bool{"LAYOUT.version": ver >= 1 && ver <= 4}
	defer func() {
		if record {
			f.ext("msg-layout", 0, 0, o.Path, r)
		}
	}()
	if ver != 3 {
		f.unsup("%s: data layout message version %d", o.Path, ver)
		o.DataErr = "layout version"
		return
	}
	o.Layout = int(d[1])
	rdO := func(q int) uint64 {
		var v uint64
		for i := 0; i < f.OffSz && q+i < len(d); i++ {
			v |= uint64(d[q+i]) << (8 * uint(i))
		}
		return widen(v, f.OffSz)
	}
	switch o.Layout {
	case 0:
		sz := int(d[2]) | int(d[3])<<8
		r["LAYOUT3.compact.size"] = 4+sz <= len(d) && uint64(sz) == total
		if 4+sz <= len(d) {
			o.Data = d[4 : 4+sz]
		}
	case 1:
		if len(d) < 2+f.OffSz+f.LenSz {
			r["LAYOUT3.contiguous.fields"] = false
			return
		}
		addr := rdO(2)
		var size uint64
		for i := 0; i < f.LenSz; i++ {
			size |= uint64(d[2+f.OffSz+i]) << (8 * uint(i))
		}
		r["LAYOUT3.contiguous.size"] = size == total || addr == undef
		r["LAYOUT3.length.exact"] = len(d) >= 2+f.OffSz+f.LenSz && len(d) < 2+f.OffSz+f.LenSz+8
		if addr == undef {
			if total == 0 {
				o.Data = []byte{}
			} else {
				o.DataErr = "no storage allocated"
			}
			return
		}
		a := int(addr + f.Base)
		if size > uint64(len(f.B)) || addr > uint64(len(f.B)) || !f.in(a, int(size)) {
			r["LAYOUT3.contiguous.infile"] = false
			f.errf("%s: contiguous data at %d (%d bytes) outside the file", o.Path, addr, size)
			o.DataErr = "data outside the file"
			return
		}
		if record && size > 0 {
			f.ext("data-contiguous", a, a+int(size), o.Path, map[string]bool{})
		}
		if size >= total {
			o.Data = f.B[a : a+int(total)]
		}
	case 2:
		nd := int(d[2])
		if len(d) < 3+f.OffSz+4*nd {
			r["LAYOUT3.chunked.fields"] = false
			return
		}
		bt := rdO(3)
		var cd []uint64
		for i := 0; i < nd; i++ {
			q := 3 + f.OffSz + 4*i
			cd = append(cd, uint64(d[q])|uint64(d[q+1])<<8|uint64(d[q+2])<<16|uint64(d[q+3])<<24)
		}
		// the dimensionality is one more than the dataspace rank, the last entry is the element size
		r["LAYOUT3.chunk.ndims"] = nd == rank+1
		r["LAYOUT3.chunk.elemsize"] = nd >= 1 && cd[nd-1] == uint64(t.Size)
		r["LAYOUT3.length.exact"] = len(d) >= 3+f.OffSz+4*nd && len(d) < 3+f.OffSz+4*nd+8
		if nd == rank+1 {
			o.Chunk = cd[:rank]
		} else if nd == rank {
			o.Chunk = cd
		} else {
			o.DataErr = "chunk dimensionality"
			return
		}
		for _, c := range o.Chunk {
			if c == 0 {
				r["LAYOUT3.chunk.nonzero"] = false
				o.DataErr = "zero chunk dimension"
				return
			}
		}
		f.chunked(o, bt, nd, total, record)
	default:
		f.unsup("%s: layout class %d", o.Path, o.Layout)
	}
}

// pipeline decodes a filter pipeline message and returns the filter ids.
func (f *File) pipeline(d []byte, owner string, record bool) []int {
	var ids []int
	if len(d) < 2 {
		return ids
	}
	ver, n := int(d[0]), int(d[1])
	r := map[string]bool{"PIPELINE.version": ver == 1 || ver == 2}
	p := 2
	if ver == 1 {
		p = 8
	}
	okAll := true
	for i := 0; i < n; i++ {
		if p+2 > len(d) {
			okAll = false
			break
		}
		id := int(d[p]) | int(d[p+1])<<8
		p += 2
		nameLen := 0
		if ver == 1 || id >= 256 {
			if p+2 > len(d) {
				okAll = false
				break
			}
			nameLen = int(d[p]) | int(d[p+1])<<8
			p += 2
		}
		if p+4 > len(d) {
			okAll = false
			break
		}
		ncd := int(d[p+2]) | int(d[p+3])<<8
		p += 4
		if ver == 1 {
			p += pad8(nameLen)
		} else {
			p += nameLen
		}
		p += 4 * ncd
		if ver == 1 && ncd%2 == 1 {
			p += 4
		}
		if p > len(d) {
			okAll = false
			break
		}
		ids = append(ids, id)
	}
	r["PIPELINE.filters.fit"] = okAll
	r["PIPELINE.length.exact"] = okAll && p == len(d)
	if record {
		f.ext("msg-pipeline", 0, 0, owner, r)
	}
	return ids
}

// chunked walks a version 1 B-tree of raw data chunks and assembles the dataset bytes (unfiltered only).
func (f *File) chunked(o *Obj, btAddr uint64, nd int, total uint64, record bool) {
	if btAddr == undef || btAddr == 0 {
		if btAddr == 0 && record {
			// address 0 is the superblock: "no index yet" is the undefined address in the format
			f.ext("msg-layout", 0, 0, o.Path, map[string]bool{"LAYOUT3.chunk.index.undefined-when-absent": false})
		}
		// no chunk has been written: every element has the fill value (IV.A.2.i: storage is allocated when data is written)
		if len(o.Filters) == 0 && total <= 1<<28 {
			o.Data = make([]byte, total)
		} else {
			o.DataErr = "no chunk index"
		}
		return
	}
	elem := uint64(o.Type.Size)
	var out []byte
	assemble := len(o.Filters) == 0 && total <= 1<<28
	if assemble {
		out = make([]byte, total)
	}
	type chunk struct {
		size   int
		mask   uint32
		coords []uint64
		addr   uint64
	}
	var chunks []chunk
	visited := map[uint64]bool{}
	keySize := 8 + 8*nd
	var walk func(addr uint64, depth int)
	walk = func(addr uint64, depth int) {
		if visited[addr] || depth > 32 {
			f.errf("%s: chunk B-tree node %d revisited", o.Path, addr)
			return
		}
		visited[addr] = true
		a := int(addr + f.Base)
		if !f.in(a, 8+2*f.OffSz) || string(f.B[a:a+4]) != "TREE" {
			f.errf("%s: no chunk B-tree node at %d", o.Path, addr)
			return
		}
		typ, lvl, used := int(f.B[a+4]), int(f.B[a+5]), int(f.u(a+6, 2))
		k := 32 // default K for chunk trees (the istore_k of the superblock / its default)
		full := 8 + 2*f.OffSz + (2*k+1)*keySize + 2*k*f.OffSz
		r := map[string]bool{"TREE.sig": true, "TREE.type.chunk": typ == 1, "TREE.entries.fit": used <= 2*k, "TREE.node.infile": f.in(a, full)}
		nodeEnd := a + 8 + 2*f.OffSz + used*(keySize+f.OffSz) + keySize
		delete(r, "TREE.node.infile")
		if record {
			// the node is stored at its capacity (2K entries); what the entries in use occupy is the extent,
			// the rest of the capacity must be free space of this node (checked after the walk)
			f.Extents = append(f.Extents, Extent{Kind: "btree1-chunk", Start: a, End: min(nodeEnd, len(f.B)), Owner: o.Path, Rules: r, Full: a + full})
		}
		if typ != 1 || !f.in(a, nodeEnd-a) {
			return
		}
		p := a + 8 + 2*f.OffSz
		var prev []uint64
		sorted := true
		for i := 0; i < used; i++ {
			size := int(f.u(p, 4))
			mask := uint32(f.u(p+4, 4))
			coords := make([]uint64, nd)
			for j := 0; j < nd; j++ {
				coords[j] = f.u(p+8+8*j, 8)
			}
			child := f.u(p+keySize, f.OffSz)
			p += keySize + f.OffSz
			if prev != nil && !lessCoords(prev, coords) {
				sorted = false
			}
			prev = coords
			if lvl > 0 {
				walk(child, depth+1)
			} else {
				chunks = append(chunks, chunk{size, mask, coords, child})
			}
		}
		r["TREE.keys.sorted"] = sorted
	}
	walk(btAddr, 0)
	cbytes := elem
	for _, c := range o.Chunk {
		cbytes *= c
	}
	for _, c := range chunks {
		a := int(c.addr + f.Base)
		r := map[string]bool{"CHUNK.infile": f.in(a, c.size)}
		if len(o.Filters) == 0 && (o.Type.Class == 0 || o.Type.Class == 1 || o.Type.Class == 3) {
			r["CHUNK.size.unfiltered"] = uint64(c.size) == cbytes
		}
		// chunk offsets are element offsets, multiples of the chunk dimensions, inside the dataspace
		okOff := len(c.coords) == nd
		inside := true
		for j := 0; okOff && j < len(o.Chunk); j++ {
			if c.coords[j]%o.Chunk[j] != 0 {
				okOff = false
			}
			if c.coords[j] >= o.Dims[j] {
				inside = false
			}
		}
		if okOff && nd == len(o.Chunk)+1 && c.coords[nd-1] != 0 {
			okOff = false
		}
		r["CHUNK.offset.aligned"] = okOff
		r["CHUNK.offset.inside.dataspace"] = inside
		okOff = okOff && inside
		if record {
			f.ext("data-chunk", a, min(a+c.size, len(f.B)), o.Path, r)
		}
		if assemble && f.in(a, c.size) && uint64(c.size) == cbytes && okOff {
			f.scatter(out, f.B[a:a+c.size], o, c.coords)
		}
	}
	if assemble {
		o.Data = out
	} else if len(o.Filters) > 0 {
		o.DataErr = "filtered"
	}
}

func lessCoords(a, b []uint64) bool {
	for i := range a {
		if a[i] != b[i] {
			return a[i] < b[i]
		}
	}
	return false
}

// scatter copies one chunk into the row-major dataset image.
func (f *File) scatter(out, chunk []byte, o *Obj, origin []uint64) {
	rank := len(o.Chunk)
	elem := uint64(o.Type.Size)
	if rank == 0 {
		copy(out, chunk)
		return
	}
	idx := make([]uint64, rank)
	for {
		// position of idx inside the chunk and inside the dataset
		inside := true
		var cpos, dpos uint64
		for j := 0; j < rank; j++ {
			g := origin[j] + idx[j]
			if g >= o.Dims[j] {
				inside = false
				break
			}
			cpos = cpos*o.Chunk[j] + idx[j]
			dpos = dpos*o.Dims[j] + g
		}
		if inside {
			copy(out[dpos*elem:(dpos+1)*elem], chunk[cpos*elem:(cpos+1)*elem])
		}
		j := rank - 1
		for ; j >= 0; j-- {
			idx[j]++
			if idx[j] < o.Chunk[j] {
				break
			}
			idx[j] = 0
		}
		if j < 0 {
			return
		}
	}
}

var _ = fmt.Sprint

// Package indep holds decoders written from the HDF5 file format specification, independent of
// the library under test.
package indep

import (
	"encoding/binary"
	"fmt"
)

// GObj is one object of a global heap collection.
type GObj struct {
	Index    int
	RefCount int
	Size     int // declared object size
	DataOff  int // file offset of the data
	HdrOff   int // file offset of the 16-byte object header
}

// GColl is a decoded global heap collection (format spec III.E, version 1).
type GColl struct {
	Addr      int
	Size      int    // declared collection size
	Objs      []GObj // objects with index != 0, in file order
	HasFree   bool   // an index-0 object (free space) was found
	FreeField int    // its size field
	FreeOff   int    // its offset
	Tail      int    // bytes between the end of the last parsed object and the end of the collection
	Errs      []string
}

// ParseGCOL decodes the collection at addr (length size 8 bytes).
func ParseGCOL(file []byte, addr int) (*GColl, error) {
	if addr < 0 || addr+16 > len(file) {
		return nil, fmt.Errorf("collection header at %d outside the file (%d bytes)", addr, len(file))
	}
	if string(file[addr:addr+4]) != "GCOL" {
		return nil, fmt.Errorf("no GCOL signature at %d", addr)
	}
	c := &GColl{Addr: addr}
	if file[addr+4] != 1 {
		c.Errs = append(c.Errs, fmt.Sprintf("version %d", file[addr+4]))
	}
	c.Size = int(binary.LittleEndian.Uint64(file[addr+8:]))
	end := addr + c.Size
	if c.Size < 16 || end > len(file) {
		c.Errs = append(c.Errs, fmt.Sprintf("declared size %d leaves the file (%d bytes)", c.Size, len(file)))
		if end > len(file) || c.Size < 16 {
			end = len(file)
		}
	}
	if c.Size%8 != 0 {
		c.Errs = append(c.Errs, "collection size not a multiple of 8")
	}
	off := addr + 16
	for off+16 <= end {
		idx := int(binary.LittleEndian.Uint16(file[off:]))
		ref := int(binary.LittleEndian.Uint16(file[off+2:]))
		size := int(binary.LittleEndian.Uint64(file[off+8:]))
		if idx == 0 {
			c.HasFree, c.FreeField, c.FreeOff = true, size, off
			break // the free-space object is the last one
		}
		if size < 0 || off+16+size > end {
			c.Errs = append(c.Errs, fmt.Sprintf("object %d (size %d) extends beyond the collection", idx, size))
			break
		}
		c.Objs = append(c.Objs, GObj{Index: idx, RefCount: ref, Size: size, DataOff: off + 16, HdrOff: off})
		off += 16 + (size+7)/8*8
	}
	if c.HasFree {
		c.Tail = end - c.FreeOff
	} else {
		c.Tail = end - off
	}
	return c, nil
}

// Find returns the object with the given index.
func (c *GColl) Find(idx int) *GObj {
	for i := range c.Objs {
		if c.Objs[i].Index == idx {
			return &c.Objs[i]
		}
	}
	return nil
}

package indep

import (
	"bytes"
	"fmt"
	"sort"

	"h5v/lookup3"
)

// ---------------------------------------------------------------- local heap (III.D)

type localHeap struct {
	ok        bool
	dataStart int
	dataSize  int
}

func (f *File) localHeap(addr uint64, owner string, record bool) localHeap {
	a := int(addr + f.Base)
	hs := 8 + 2*f.LenSz + f.OffSz
	if !f.in(a, hs) || string(f.B[a:a+4]) != "HEAP" {
		f.errf("%s: no local heap at %d", owner, addr)
		return localHeap{}
	}
	size := int(f.u(a+8, f.LenSz))
	free := f.u(a+8+f.LenSz, f.LenSz)
	seg := int(f.u(a+8+2*f.LenSz, f.OffSz) + f.Base)
	r := map[string]bool{"HEAP.sig": true, "HEAP.version0": f.B[a+4] == 0, "HEAP.reserved0": f.B[a+5] == 0 && f.B[a+6] == 0 && f.B[a+7] == 0,
		"HEAP.segment.infile": f.in(seg, size), "HEAP.size.align8": size%8 == 0}
	// free list: offset of the first free block, or the undefined value / 1 ("none") as written by the reference library
	undefL := uint64(1)<<(8*uint(f.LenSz)) - 1
	if f.LenSz == 8 {
		undefL = undef
	}
	r["HEAP.freelist"] = free == undefL || free == 1 || (free < uint64(size) && free%8 == 0)
	if record {
		f.ext("heap-header", a, a+hs, owner, r)
		if f.in(seg, size) {
			f.ext("heap-data", seg, seg+size, owner, map[string]bool{})
		}
	}
	if !f.in(seg, size) {
		f.errf("%s: local heap data segment at %d (%d bytes) outside the file", owner, seg, size)
		return localHeap{}
	}
	return localHeap{true, seg, size}
}

func (f *File) heapString(h localHeap, off uint64) (string, bool) {
	if !h.ok || off >= uint64(h.dataSize) {
		return "", false
	}
	s := f.B[h.dataStart+int(off) : h.dataStart+h.dataSize]
	i := bytes.IndexByte(s, 0)
	if i < 0 {
		return "", false
	}
	return string(s[:i]), true
}

// ---------------------------------------------------------------- symbol-table groups (III.A.1 B-tree v1, III.B SNOD)

func (f *File) symbolTable(o *Obj, btree, heap uint64, depth int, record bool) {
	h := f.localHeap(heap, o.Path, record)
	visited := map[uint64]bool{}
	var walk func(addr uint64, level int)
	prevLast := ""
	walk = func(addr uint64, level int) {
		if visited[addr] || level > 32 {
			f.errf("%s: group B-tree node %d revisited", o.Path, addr)
			return
		}
		visited[addr] = true
		a := int(addr + f.Base)
		if !f.in(a, 8+2*f.OffSz) || string(f.B[a:a+4]) != "TREE" {
			f.errf("%s: no B-tree node at %d", o.Path, addr)
			return
		}
		typ, lvl, used := int(f.B[a+4]), int(f.B[a+5]), int(f.u(a+6, 2))
		r := map[string]bool{"TREE.sig": true, "TREE.type.group": typ == 0}
		// size on disk: header + 2K+1 keys + 2K children, K = 16 unless the superblock says otherwise
		k := 16
		if f.SbVersion <= 1 {
			if v := int(f.u(18, 2)); v > 0 {
				k = v
			}
		}
		full := 8 + 2*f.OffSz + (2*k+1)*f.LenSz + 2*k*f.OffSz
		r["TREE.entries.fit"] = used <= 2*k
		usedEnd := a + 8 + 2*f.OffSz + used*(f.LenSz+f.OffSz) + f.LenSz
		if record {
			// stored at its capacity (2K entries): the entries in use are the extent, the rest must be reserved for this node
			f.Extents = append(f.Extents, Extent{Kind: "btree1-group", Start: a, End: min(usedEnd, len(f.B)), Owner: o.Path, Rules: r, Full: a + full})
		}
		if typ != 0 || used > 2*k || !f.in(a, usedEnd-a) {
			if typ != 0 {
				f.errf("%s: B-tree node %d has type %d, expected a group node", o.Path, addr, typ)
			}
			return
		}
		p := a + 8 + 2*f.OffSz
		for i := 0; i < used; i++ {
			child := f.u(p+f.LenSz, f.OffSz)
			p += f.LenSz + f.OffSz
			if lvl > 0 {
				walk(child, level+1)
			} else {
				prevLast = f.snod(o, child, h, depth, record, prevLast)
			}
		}
	}
	walk(btree, 0)
}

func (f *File) snod(o *Obj, addr uint64, h localHeap, depth int, record bool, prevLast string) string {
	a := int(addr + f.Base)
	if !f.in(a, 8) || string(f.B[a:a+4]) != "SNOD" {
		f.errf("%s: no symbol table node at %d", o.Path, addr)
		return prevLast
	}
	n := int(f.u(a+6, 2))
	es := 2*f.OffSz + 8 + 16
	k := 4
	if f.SbVersion <= 1 {
		if v := int(f.u(16, 2)); v > 0 {
			k = v
		}
	}
	full := 8 + 2*k*es
	r := map[string]bool{"SNOD.sig": true, "SNOD.version1": f.B[a+4] == 1, "SNOD.reserved0": f.B[a+5] == 0,
		"SNOD.entries.fit": n <= 2*k, "SNOD.node.infile": f.in(a, full)}
	names := []string{}
	sorted := true
	last := prevLast
	for i := 0; i < n && f.in(a+8+i*es, es); i++ {
		p := a + 8 + i*es
		nameOff, objAddr := f.u(p, f.OffSz), f.u(p+f.OffSz, f.OffSz)
		cache := f.u(p+2*f.OffSz, 4)
		name, ok := f.heapString(h, nameOff)
		if !ok {
			r["SNOD.name.inheap"] = false
			f.errf("%s: symbol table entry %d has no name in the local heap (offset %d)", o.Path, i, nameOff)
			continue
		}
		if last != "" && name <= last {
			sorted = false
		}
		last = name
		names = append(names, name)
		child := joinPath(o.Path, name)
		o.Members = append(o.Members, name)
		switch cache {
		case 2: // symbolic link: the scratch pad holds the heap offset of the target
			tgt, _ := f.heapString(h, f.u(p+2*f.OffSz+8, 4))
			f.Objs = append(f.Objs, &Obj{Path: child, Kind: "softlink", Target: tgt, Layout: -1})
		case 1:
			f.object(child, objAddr, f.u(p+2*f.OffSz+8, f.OffSz), f.u(p+2*f.OffSz+8+f.OffSz, f.OffSz), depth+1)
		default:
			f.object(child, objAddr, 0, 0, depth+1)
		}
	}
	r["SNOD.sorted"] = sorted
	if record {
		f.ext("snod", a, min(a+full, len(f.B)), o.Path, r)
	}
	return last
}

func joinPath(parent, name string) string {
	if parent == "/" {
		return "/" + name
	}
	return parent + "/" + name
}

// ---------------------------------------------------------------- link messages (IV.A.2.g)

func (f *File) linkMessage(o *Obj, d []byte, depth int) {
	if len(d) < 2 || d[0] != 1 {
		f.errf("%s: link message version %d", o.Path, func() int {
			if len(d) > 0 {
				return int(d[0])
			}
			return -1
		}())
		return
	}
	fl := int(d[1])
	p := 2
	typ := 0
	if fl&0x08 != 0 {
		if p >= len(d) {
			return
		}
		typ = int(d[p])
		p++
	}
	if fl&0x04 != 0 {
		p += 8
	}
	if fl&0x10 != 0 {
		p++
	}
	lw := 1 << uint(fl&3)
	if p+lw > len(d) {
		f.errf("%s: link message truncated", o.Path)
		return
	}
	var nl int
	for i := 0; i < lw; i++ {
		nl |= int(d[p+i]) << (8 * uint(i))
	}
	p += lw
	if nl < 0 || p+nl > len(d) {
		f.errf("%s: link name leaves the message", o.Path)
		return
	}
	name := string(d[p : p+nl])
	p += nl
	child := joinPath(o.Path, name)
	o.Members = append(o.Members, name)
	switch typ {
	case 0:
		if p+f.OffSz > len(d) {
			f.errf("%s: hard link %q without address", o.Path, name)
			return
		}
		var a uint64
		for i := 0; i < f.OffSz; i++ {
			a |= uint64(d[p+i]) << (8 * uint(i))
		}
		f.object(child, a, 0, 0, depth+1)
	case 1:
		tgt := ""
		if p+2 <= len(d) {
			n := int(d[p]) | int(d[p+1])<<8
			if p+2+n <= len(d) {
				tgt = string(d[p+2 : p+2+n])
			}
		}
		f.Objs = append(f.Objs, &Obj{Path: child, Kind: "softlink", Target: tgt, Layout: -1})
	default:
		f.Objs = append(f.Objs, &Obj{Path: child, Kind: "extlink", Layout: -1})
	}
}

// ---------------------------------------------------------------- fractal heap (III.G) and B-tree v2 (III.A.2)

type fheap struct {
	ok                               bool
	idLen, maxHeapBits, heapOffBytes int
	startBlock, maxDirect            int
	width                            int
	rootAddr                         uint64
	rootRows                         int
	flags                            int
	ioFilterLen                      int
	blockLenBytes                    int
	dirHdr                           int // size of a direct block's header
}

func (f *File) fractalHeap(addr uint64, owner string, record bool) fheap {
	a := int(addr + f.Base)
	if !f.in(a, 22) || string(f.B[a:a+4]) != "FRHP" {
		f.errf("%s: no fractal heap header at %d", owner, addr)
		return fheap{}
	}
	h := fheap{}
	h.idLen = int(f.u(a+5, 2))
	h.ioFilterLen = int(f.u(a+7, 2))
	h.flags = int(f.B[a+9])
	p := a + 10 + 4 // max managed object size
	p += f.LenSz    // next huge id
	p += f.OffSz    // huge btree
	p += f.LenSz    // free space
	p += f.OffSz    // free space manager
	p += 8 * f.LenSz
	if !f.in(p, 2+f.LenSz*2+2+2+f.OffSz+2+4) {
		f.errf("%s: fractal heap header truncated", owner)
		return fheap{}
	}
	h.width = int(f.u(p, 2))
	h.startBlock = int(f.u(p+2, f.LenSz))
	h.maxDirect = int(f.u(p+2+f.LenSz, f.LenSz))
	h.maxHeapBits = int(f.u(p+2+2*f.LenSz, 2))
	q := p + 2 + 2*f.LenSz + 2 + 2
	h.rootAddr = f.u(q, f.OffSz)
	h.rootRows = int(f.u(q+f.OffSz, 2))
	end := q + f.OffSz + 2
	if h.ioFilterLen > 0 {
		end += f.LenSz + 4 + h.ioFilterLen
	}
	h.heapOffBytes = (h.maxHeapBits + 7) / 8
	h.dirHdr = 5 + f.OffSz + h.heapOffBytes
	if h.flags&0x02 != 0 {
		h.dirHdr += 4
	}
	r := map[string]bool{"FRHP.sig": true, "FRHP.version0": f.B[a+4] == 0}
	if f.in(a, end+4-a) {
		r["FRHP.cksum.lookup3"] = uint32(f.u(end, 4)) == lookup3.HashLittle(f.B[a:end], 0)
	} else {
		r["FRHP.header.infile"] = false
	}
	if record {
		f.ext("fheap-header", a, min(end+4, len(f.B)), owner, r)
	}
	// bytes needed to encode a block length up to maxDirect
	n := 0
	for v := h.maxDirect; v > 0; v >>= 8 {
		n++
	}
	h.blockLenBytes = n
	h.ok = h.width > 0 && h.startBlock > 0
	if h.ioFilterLen > 0 {
		f.unsup("%s: filtered fractal heap", owner)
		h.ok = false
	}
	return h
}

// heapBlocks records the direct (and first-level indirect) blocks of a heap and returns a resolver
// from heap offsets to file offsets.
func (f *File) heapBlocks(h fheap, owner string, record bool) func(off uint64, n int, alt bool) ([]byte, bool) {
	type dblock struct {
		heapOff, size, fileOff int
	}
	var blocks []dblock
	hdr := 5 + f.OffSz + h.heapOffBytes
	if h.flags&0x02 != 0 {
		hdr += 4
	}
	direct := func(addr uint64, size, heapOff int) {
		a := int(addr + f.Base)
		if !f.in(a, hdr) || string(f.B[a:a+4]) != "FHDB" {
			f.errf("%s: no fractal heap direct block at %d", owner, addr)
			return
		}
		r := map[string]bool{"FHDB.sig": true, "FHDB.version0": f.B[a+4] == 0, "FHDB.block.infile": f.in(a, size),
			"FHDB.offset": int(f.u(a+5+f.OffSz, h.heapOffBytes)) == heapOff}
		if h.flags&0x02 != 0 && f.in(a, size) {
			// checksum over the whole block with the checksum field taken as zero
			cp := append([]byte{}, f.B[a:a+size]...)
			ck := 5 + f.OffSz + h.heapOffBytes
			stored := uint32(f.u(a+ck, 4))
			copy(cp[ck:ck+4], []byte{0, 0, 0, 0})
			r["FHDB.cksum.lookup3"] = stored == lookup3.HashLittle(cp, 0)
		}
		if record {
			f.ext("fheap-direct", a, min(a+size, len(f.B)), owner, r)
		}
		blocks = append(blocks, dblock{heapOff, size, a})
	}
	if h.rootAddr == undef {
		return func(uint64, int, bool) ([]byte, bool) { return nil, false }
	}
	if h.rootRows == 0 {
		direct(h.rootAddr, h.startBlock, 0)
	} else {
		a := int(h.rootAddr + f.Base)
		ihdr := 5 + f.OffSz + h.heapOffBytes
		if !f.in(a, ihdr) || string(f.B[a:a+4]) != "FHIB" {
			f.errf("%s: no fractal heap indirect block at %d", owner, h.rootAddr)
		} else {
			// rows of direct blocks: sizes start, start, 2*start, 4*start ... up to maxDirect
			p := a + ihdr
			heapOff := 0
			nrows := h.rootRows
			maxDirectRows := 2
			for s := h.startBlock; s < h.maxDirect; s *= 2 {
				maxDirectRows++
			}
			for row := 0; row < nrows && row < maxDirectRows; row++ {
				size := h.startBlock
				if row > 1 {
					size = h.startBlock << uint(row-1)
				}
				for c := 0; c < h.width; c++ {
					if !f.in(p, f.OffSz) {
						break
					}
					ca := f.u(p, f.OffSz)
					p += f.OffSz
					if ca != undef {
						direct(ca, size, heapOff)
					}
					heapOff += size
				}
			}
			if nrows > maxDirectRows {
				f.unsup("%s: fractal heap with nested indirect blocks", owner)
			}
			r := map[string]bool{"FHIB.sig": true, "FHIB.version0": f.B[a+4] == 0}
			if f.in(a, p+4-a) {
				r["FHIB.cksum.lookup3"] = uint32(f.u(p, 4)) == lookup3.HashLittle(f.B[a:p], 0)
			}
			if record {
				f.ext("fheap-indirect", a, min(p+4, len(f.B)), owner, r)
			}
		}
	}
	// alt: the convention of the library under test - heap offsets do not count the block header
	return func(off uint64, n int, alt bool) ([]byte, bool) {
		for _, b := range blocks {
			if int(off) >= b.heapOff && int(off)+n <= b.heapOff+b.size {
				s := b.fileOff + int(off) - b.heapOff
				if alt {
					s += hdr
				}
				if f.in(s, n) {
					return f.B[s : s+n], true
				}
			}
		}
		return nil, false
	}
}

// managedID decodes a managed-object heap ID (version 0, type 0): offset and length.
func (h fheap) managedID(id []byte) (off uint64, n int, ok bool) {
	if len(id) < 1+h.heapOffBytes+h.blockLenBytes || id[0]&0xf0 != 0 {
		return 0, 0, false
	}
	_ = tinyID
	p := 1
	for i := 0; i < h.heapOffBytes; i++ {
		off |= uint64(id[p+i]) << (8 * uint(i))
	}
	p += h.heapOffBytes
	for i := 0; i < h.blockLenBytes; i++ {
		n |= int(id[p+i]) << (8 * uint(i))
	}
	return off, n, true
}

// plausibleLink: a version 1 link message with no reserved flag bits, whose name is printable and whose
// fields end exactly at the end of the data.
func plausibleLink(d []byte, offSz int) bool {
	if len(d) < 4 || d[0] != 1 || d[1]&0xe0 != 0 {
		return false
	}
	fl := int(d[1])
	p := 2
	typ := 0
	if fl&0x08 != 0 {
		typ = int(d[p])
		p++
	}
	if fl&0x04 != 0 {
		p += 8
	}
	if fl&0x10 != 0 {
		p++
	}
	lw := 1 << uint(fl&3)
	if p+lw > len(d) {
		return false
	}
	nl := 0
	for i := 0; i < lw && i < 4; i++ {
		nl |= int(d[p+i]) << (8 * uint(i))
	}
	p += lw
	if nl <= 0 || p+nl > len(d) {
		return false
	}
	for _, c := range d[p : p+nl] {
		if c < 0x20 {
			return false
		}
	}
	p += nl
	switch typ {
	case 0:
		return p+offSz == len(d)
	case 1:
		return p+2 <= len(d) && p+2+(int(d[p])|int(d[p+1])<<8) == len(d)
	}
	return p <= len(d)
}

// tinyID returns the object stored inside a "tiny" heap ID (type 2, normal form: length-1 in the low 4 bits).
func tinyID(id []byte) ([]byte, bool) {
	if len(id) < 2 || (id[0]>>4)&3 != 2 || id[0]>>6 != 0 || len(id) > 18 {
		return nil, false
	}
	n := int(id[0]&0x0f) + 1
	if 1+n > len(id) {
		return nil, false
	}
	return id[1 : 1+n], true
}

// btree2Records returns the raw records of a version 2 B-tree in order.
func (f *File) btree2Records(addr uint64, owner string, record bool) (typ int, recs [][]byte) {
	a := int(addr + f.Base)
	if !f.in(a, 22+f.OffSz+f.LenSz) || string(f.B[a:a+4]) != "BTHD" {
		f.errf("%s: no B-tree v2 header at %d", owner, addr)
		return -1, nil
	}
	typ = int(f.B[a+5])
	nodeSize := int(f.u(a+6, 4))
	recSize := int(f.u(a+10, 2))
	depth := int(f.u(a+12, 2))
	root := f.u(a+16, f.OffSz)
	nroot := int(f.u(a+16+f.OffSz, 2))
	total := f.u(a+18+f.OffSz, f.LenSz)
	end := a + 18 + f.OffSz + f.LenSz
	r := map[string]bool{"BTHD.sig": true, "BTHD.version0": f.B[a+4] == 0}
	if f.in(a, end+4-a) {
		r["BTHD.cksum.lookup3"] = uint32(f.u(end, 4)) == lookup3.HashLittle(f.B[a:end], 0)
	}
	if record {
		f.ext("btree2-header", a, min(end+4, len(f.B)), owner, r)
	}
	if root == undef || nroot == 0 || recSize == 0 {
		return typ, nil
	}
	// number of bytes for "number of records" fields in internal nodes depends on the node capacity
	var node func(addr uint64, n, lvl int)
	maxLeaf := (nodeSize - 10) / recSize
	bytesFor := func(v int) int {
		n := 0
		for ; v > 0; v >>= 8 {
			n++
		}
		if n == 0 {
			n = 1
		}
		return n
	}
	node = func(addr uint64, n, lvl int) {
		b := int(addr + f.Base)
		sig := "BTLF"
		if lvl > 0 {
			sig = "BTIN"
		}
		if !f.in(b, 6) || string(f.B[b:b+4]) != sig {
			f.errf("%s: no %s node at %d", owner, sig, addr)
			return
		}
		rr := map[string]bool{sig + ".sig": true, sig + ".version0": f.B[b+4] == 0, sig + ".type": int(f.B[b+5]) == typ,
			sig + ".node.infile": f.in(b, nodeSize)}
		p := b + 6
		if !f.in(p, n*recSize) {
			f.errf("%s: %s node at %d: %d records leave the file", owner, sig, addr, n)
			return
		}
		var mine [][]byte
		for i := 0; i < n; i++ {
			mine = append(mine, f.B[p:p+recSize])
			p += recSize
		}
		if lvl == 0 {
			recs = append(recs, mine...)
		} else {
			// children: n+1 pointers, each: address, record count (and total count above level 1)
			cw := bytesFor(maxLeaf)
			if lvl > 1 {
				f.unsup("%s: B-tree v2 deeper than 2", owner)
				return
			}
			type ch struct {
				a uint64
				n int
			}
			var kids []ch
			for i := 0; i <= n; i++ {
				if !f.in(p, f.OffSz+cw) {
					return
				}
				kids = append(kids, ch{f.u(p, f.OffSz), int(f.u(p+f.OffSz, cw))})
				p += f.OffSz + cw
			}
			for i, k := range kids {
				node(k.a, k.n, lvl-1)
				if i < len(mine) {
					recs = append(recs, mine[i])
				}
			}
		}
		if f.in(b, p+4-b) {
			rr[sig+".cksum.lookup3"] = uint32(f.u(p, 4)) == lookup3.HashLittle(f.B[b:p], 0)
		}
		if record {
			f.ext("btree2-node", b, min(b+nodeSize, len(f.B)), owner, rr)
		}
	}
	node(root, nroot, depth)
	if uint64(len(recs)) != total {
		f.errf("%s: B-tree v2 at %d announces %d records, %d found", owner, addr, total, len(recs))
	}
	return typ, recs
}

// denseLinks reads the links of a group stored in a fractal heap indexed by name (link info message).
func (f *File) denseLinks(o *Obj, d []byte, depth int, record bool) {
	if len(d) < 2 || d[0] != 0 {
		return
	}
	p := 2
	if d[1]&1 != 0 {
		p += 8
	}
	if p+2*f.OffSz > len(d) {
		return
	}
	rd := func(q int) uint64 {
		var v uint64
		for i := 0; i < f.OffSz; i++ {
			v |= uint64(d[q+i]) << (8 * uint(i))
		}
		return widen(v, f.OffSz)
	}
	heapAddr, btAddr := rd(p), rd(p+f.OffSz)
	if heapAddr == undef || btAddr == undef {
		return
	}
	h := f.fractalHeap(heapAddr, o.Path, record)
	if !h.ok {
		return
	}
	get := f.heapBlocks(h, o.Path, record)
	typ, recs := f.btree2Records(btAddr, o.Path, record)
	if typ != 5 {
		f.errf("%s: link name index has B-tree type %d, expected 5", o.Path, typ)
	}
	prev := uint32(0)
	sorted := true
	idl := h.idLen
	if len(recs) > 0 && len(recs[0]) < 4+h.idLen {
		idl = len(recs[0]) - 4
	}
	// In the format a managed object can never start inside a block header (heap offsets count it).  An ID that
	// points there shows the convention of the library under test: offsets counted from the end of the header.
	alt := false
	for _, rec := range recs {
		if len(rec) >= 4+idl && idl > 0 {
			if off, _, ok := h.managedID(rec[4 : 4+idl]); ok && int(off) < h.dirHdr {
				alt = true
			}
		}
	}
	if alt && record {
		f.ext("fheap-object", 0, 0, o.Path, map[string]bool{"FHDB.object.offset.counts.header": false})
	}
	for i, rec := range recs {
		if len(rec) < 5 {
			continue
		}
		if len(rec) < 4+h.idLen {
			// the record is too short for the ID length the heap announces (type 5 records carry 7-byte IDs):
			// flagged, and the bytes that are there are used
			idl = len(rec) - 4
			if i == 0 && record {
				f.ext("btree2-record", 0, 0, o.Path, map[string]bool{"BT2.linkrecord.heapid.length": false})
			}
		}
		hash := uint32(rec[0]) | uint32(rec[1])<<8 | uint32(rec[2])<<16 | uint32(rec[3])<<24
		if i > 0 && hash < prev {
			sorted = false
		}
		prev = hash
		var data []byte
		if td, ok := tinyID(rec[4 : 4+idl]); ok {
			data = td
		} else {
			off, n, ok := h.managedID(rec[4 : 4+idl])
			if !ok {
				f.unsup("%s: link heap ID of type %d", o.Path, rec[4]>>4&3)
				continue
			}
			data, ok = get(off, n, alt)
			if !ok {
				f.errf("%s: link heap object at heap offset %d (%d bytes) not in any block", o.Path, off, n)
				continue
			}
		}
		before := len(o.Members)
		f.linkMessage(o, data, depth)
		if len(o.Members) > before {
			name := o.Members[len(o.Members)-1]
			if lookup3.HashLittle([]byte(name), 0) != hash {
				f.ext("btree2-record", 0, 0, o.Path, map[string]bool{"BT2.linkname.hash.lookup3": false})
			}
		}
	}
	if !sorted {
		f.ext("btree2-record", 0, 0, o.Path, map[string]bool{"BT2.records.sorted": false})
	}
}

// denseAttrs reads attributes stored in a fractal heap indexed by name (attribute info message).
func (f *File) denseAttrs(o *Obj, d []byte, record bool) {
	if len(d) < 2 || d[0] != 0 {
		return
	}
	p := 2
	if d[1]&1 != 0 {
		p += 2
	}
	if p+2*f.OffSz > len(d) {
		return
	}
	rd := func(q int) uint64 {
		var v uint64
		for i := 0; i < f.OffSz; i++ {
			v |= uint64(d[q+i]) << (8 * uint(i))
		}
		return widen(v, f.OffSz)
	}
	heapAddr, btAddr := rd(p), rd(p+f.OffSz)
	if heapAddr == undef || btAddr == undef {
		return
	}
	h := f.fractalHeap(heapAddr, o.Path, record)
	if !h.ok {
		return
	}
	get := f.heapBlocks(h, o.Path, record)
	typ, recs := f.btree2Records(btAddr, o.Path, record)
	if typ != 8 && typ != 5 {
		f.errf("%s: attribute name index has B-tree type %d, expected 8", o.Path, typ)
		return
	}
	if typ == 5 {
		// the library under test indexes attribute names with link-name records (type 5: hash, 7-byte heap ID);
		// followed so that the heap behind it is still checked, and flagged
		if record {
			f.ext("btree2-record", 0, 0, o.Path, map[string]bool{"BT2.attrindex.type8": false})
		}
		var conv [][]byte
		for _, rec := range recs {
			if len(rec) >= 11 {
				c := make([]byte, 17)
				copy(c[0:7], rec[4:11])
				copy(c[13:17], rec[0:4])
				conv = append(conv, c)
			}
		}
		recs = conv
	}
	// type 8 record: heap ID (8), message flags (1), creation order (4), hash (4)
	type rec8 struct {
		hash uint32
		name string
	}
	var seen []rec8
	offsetConvention := true
	defer func() {
		if !offsetConvention && record {
			f.ext("fheap-object", 0, 0, o.Path, map[string]bool{"FHDB.object.offset.counts.header": false})
		}
	}()
	for _, rec := range recs {
		if len(rec) < 17 {
			continue
		}
		hash := uint32(rec[13]) | uint32(rec[14])<<8 | uint32(rec[15])<<16 | uint32(rec[16])<<24
		idl := 8
		if h.idLen < 8 && h.idLen > 0 {
			idl = h.idLen
		}
		off, n, ok := h.managedID(rec[0:idl])
		if !ok {
			f.unsup("%s: attribute heap ID of type %d", o.Path, rec[0]>>4&3)
			continue
		}
		data, ok := get(off, n, false)
		if !ok {
			f.errf("%s: attribute heap object at heap offset %d (%d bytes) not in any block", o.Path, off, n)
			continue
		}
		nerr, next := len(f.Errs), len(f.Extents)
		at, ok := f.attribute(data, o.Path)
		if !ok {
			// not an attribute message at the position the format gives: try the position the library under test uses
			if d2, ok2 := get(off, n, true); ok2 {
				e1, x1 := f.Errs[nerr:], f.Extents[next:]
				f.Errs, f.Extents = f.Errs[:nerr], f.Extents[:next]
				if at2, ok3 := f.attribute(d2, o.Path); ok3 {
					at, ok = at2, true
					offsetConvention = false
				} else {
					f.Errs, f.Extents = append(f.Errs[:nerr], e1...), append(f.Extents[:next], x1...)
				}
			}
		}
		if ok {
			at.Dense = true
			o.Attrs = append(o.Attrs, at)
			seen = append(seen, rec8{hash, at.Name})
		}
	}
	okHash, okSorted := true, sort.SliceIsSorted(seen, func(i, j int) bool { return seen[i].hash < seen[j].hash })
	for _, s := range seen {
		if lookup3.HashLittle([]byte(s.name), 0) != s.hash {
			okHash = false
		}
	}
	if len(seen) > 0 && record {
		f.ext("btree2-record", 0, 0, o.Path, map[string]bool{"BT2.attrname.hash.lookup3": okHash, "BT2.records.sorted": okSorted})
	}
	_ = fmt.Sprint
}

package indep

// An independent decoder of the HDF5 file format, written from the format specification
// (HDF5 File Format Specification Version 3.0) and not from the library under test.  It walks a
// file from the superblock, records the byte extent of every structure it visits together with the
// format rules that structure satisfies or breaks, and recovers the logical content (groups,
// members, datasets with type, shape and raw element bytes, attributes).
//
// Scope: superblock versions 0-3; object headers version 1 (with continuation blocks) and version 2
// (with OCHK continuation chunks); symbol-table groups (B-tree version 1 group nodes, SNOD, local
// heap) and link-message groups; dense link / attribute storage (fractal heap with a direct root
// block or one level of indirect blocks, B-tree version 2 name index); contiguous, compact and
// chunked (B-tree version 1 chunk index) dataset storage without filters; global heap collections.
// Anything else is reported as unsupported and not judged.

import (
	"fmt"
	"sort"

	"h5v/lookup3"
)

const undef = ^uint64(0)

// Extent is the byte range of one on-disk structure.
type Extent struct {
	Kind  string          `json:"kind"`
	Start int             `json:"start"`
	End   int             `json:"end"`
	Owner string          `json:"owner"`
	Rules map[string]bool `json:"rules"` // rule id -> holds
	Full  int             `json:"full"`  // end of the space the format reserves for the structure (0 = End)
}

// Dtype is a decoded datatype message.
type Dtype struct {
	Class, Version int
	Size           int
	Bits           uint32
	Props          []byte
	Members        []Member // compound
	Base           *Dtype   // array, vlen, enum
	EnumNames      []string // enumeration: member names in stored order
	EnumValues     []int64  // enumeration: member values (sign-extended per the base type)
	Dims           []int    // array
	Len            int      // encoded length of the whole message
}

// Member is one member of a compound datatype.
type Member struct {
	Name   string
	Offset int
	Type   *Dtype
}

// Attr is a decoded attribute.
type Attr struct {
	Name  string
	Type  *Dtype
	Dims  []uint64
	Rank  int
	Data  []byte
	Dense bool
}

// Obj is one object reachable from the root group.
type Obj struct {
	Path    string
	Kind    string // group | dataset | datatype | softlink | extlink | unknown
	Addr    uint64
	Target  string // soft link target
	Type    *Dtype
	Dims    []uint64
	MaxDims []uint64
	Rank    int
	Layout  int // 0 compact 1 contiguous 2 chunked -1 none
	Chunk   []uint64
	Filters []int
	Data    []byte // raw element bytes in row-major order (nil if not recovered)
	DataErr string
	Attrs   []Attr
	Members []string
	HdrVer  int
	NLinks  int
}

// File is the result of decoding.
type File struct {
	B            []byte
	SbVersion    int
	OffSz, LenSz int
	Base, EOA    uint64
	Root         uint64
	Extents      []Extent
	Objs         []*Obj
	Errs         []string // structural errors: the walk could not follow something
	Unsupported  []string
	seen         map[uint64]bool // object headers already expanded (hard links)
	inProgress   map[uint64]bool
}

func (f *File) u(off, n int) uint64 {
	var v uint64
	for i := 0; i < n && off+i < len(f.B); i++ {
		v |= uint64(f.B[off+i]) << (8 * uint(i))
	}
	// files with 2- or 4-byte offsets/lengths: the all-ones value of that width is the undefined address /
	// the unlimited size, widened here so that callers compare with one constant
	if n < 8 && n >= 2 && (n == f.OffSz || n == f.LenSz) && v == uint64(1)<<(8*uint(n))-1 {
		return undef
	}
	return v
}

// widen maps the all-ones value of an n-byte address or length field to the 64-bit undefined / unlimited value.
func widen(v uint64, n int) uint64 {
	if n >= 2 && n < 8 && v == uint64(1)<<(8*uint(n))-1 {
		return undef
	}
	return v
}

func (f *File) in(off, n int) bool { return off >= 0 && n >= 0 && off+n <= len(f.B) }

func (f *File) errf(format string, a ...interface{}) {
	if len(f.Errs) < 200 {
		f.Errs = append(f.Errs, fmt.Sprintf(format, a...))
	}
}

func (f *File) unsup(format string, a ...interface{}) {
	if len(f.Unsupported) < 200 {
		f.Unsupported = append(f.Unsupported, fmt.Sprintf(format, a...))
	}
}

func (f *File) ext(kind string, start, end int, owner string, rules map[string]bool) {
	f.Extents = append(f.Extents, Extent{Kind: kind, Start: start, End: end, Owner: owner, Rules: rules})
}

func validSize(n int) bool { return n == 2 || n == 4 || n == 8 }

// Decode walks the file image b.
func Decode(b []byte) (f *File) {
	f = &File{B: b, seen: map[uint64]bool{}, inProgress: map[uint64]bool{}}
	defer func() {
		if p := recover(); p != nil {
			f.errf("decoder gave up: %v", p)
		}
	}()
	if len(b) < 48 || string(b[:8]) != "\x89HDF\r\n\x1a\n" {
		f.errf("no HDF5 signature at offset 0")
		return f
	}
	f.SbVersion = int(b[8])
	r := map[string]bool{"SB.sig": true}
	switch f.SbVersion {
	case 0, 1:
		// III.A level 0A: versions 0 and 1
		f.OffSz, f.LenSz = int(b[13]), int(b[14])
		r["SB.sizes"] = validSize(f.OffSz) && validSize(f.LenSz)
		if !r["SB.sizes"] {
			f.errf("superblock: invalid sizes %d/%d", f.OffSz, f.LenSz)
			return f
		}
		r["SB.freespace.version0"] = b[9] == 0
		r["SB.rootsym.version0"] = b[10] == 0
		r["SB.reserved0"] = b[11] == 0 && b[15] == 0
		r["SB.shmsg.version0"] = b[12] == 0
		p := 24
		if f.SbVersion == 1 {
			p = 28
		}
		f.Base = f.u(p, f.OffSz)
		f.EOA = f.u(p+2*f.OffSz, f.OffSz)
		drv := f.u(p+3*f.OffSz, f.OffSz)
		_ = drv
		ste := p + 4*f.OffSz // root group symbol table entry
		f.Root = f.u(ste+f.OffSz, f.OffSz)
		end := ste + 2*f.OffSz + 8 + 16
		r["SB.leafk"] = f.u(16, 2) > 0
		r["SB.internalk"] = f.u(18, 2) > 0
		f.ext("superblock", 0, end, "/", r)
		cache := f.u(ste+2*f.OffSz, 4)
		var bt, hp uint64
		if cache == 1 {
			bt, hp = f.u(ste+2*f.OffSz+8, f.OffSz), f.u(ste+2*f.OffSz+8+f.OffSz, f.OffSz)
		}
		f.walkRoot(bt, hp)
	case 2, 3:
		f.OffSz, f.LenSz = int(b[9]), int(b[10])
		r["SB.sizes"] = validSize(f.OffSz) && validSize(f.LenSz)
		if !r["SB.sizes"] {
			f.errf("superblock: invalid sizes %d/%d", f.OffSz, f.LenSz)
			return f
		}
		p := 12
		f.Base = f.u(p, f.OffSz)
		f.EOA = f.u(p+2*f.OffSz, f.OffSz)
		f.Root = f.u(p+3*f.OffSz, f.OffSz)
		end := p + 4*f.OffSz + 4
		r["SB.flags"] = b[11]&^0x07 == 0
		if f.in(0, end) {
			r["SB.cksum.lookup3"] = uint32(f.u(end-4, 4)) == lookup3.HashLittle(b[:end-4], 0)
		}
		f.ext("superblock", 0, end, "/", r)
		f.walkRoot(0, 0)
	default:
		f.errf("superblock version %d", f.SbVersion)
	}
	f.capacity()
	sort.SliceStable(f.Objs, func(i, j int) bool { return f.Objs[i].Path < f.Objs[j].Path })
	return f
}

// capacity checks the structures that the format stores at a fixed capacity (B-tree nodes): the part
// of the capacity that holds no entries must lie inside the file and belong to nothing else.
func (f *File) capacity() {
	for i := range f.Extents {
		e := &f.Extents[i]
		if e.Full <= e.End {
			continue
		}
		free := e.Full <= len(f.B)
		for j := range f.Extents {
			o := &f.Extents[j]
			if j != i && o.End > o.Start && o.Start < e.Full && o.End > e.End {
				free = false
				break
			}
		}
		e.Rules["TREE.node.capacity.reserved"] = free
	}
}

func (f *File) walkRoot(cachedBT, cachedHeap uint64) {
	if f.Root == undef || f.Root+f.Base >= uint64(len(f.B)) {
		f.errf("root group address %d outside the file", f.Root)
		return
	}
	f.object("/", f.Root, cachedBT, cachedHeap, 0)
}

// ---------------------------------------------------------------- object headers

type msg struct {
	Type  int
	Flags int
	Data  []byte
	Off   int // file offset of the message data
}

func pad8(n int) int { return (n + 7) &^ 7 }

// headerV1 reads a version 1 object header and its continuation blocks.
func (f *File) headerV1(addr int, owner string) ([]msg, int, bool) {
	if !f.in(addr, 16) {
		f.errf("%s: version 1 header at %d outside the file", owner, addr)
		return nil, 0, false
	}
	nmsgs := int(f.u(addr+2, 2))
	nlinks := int(f.u(addr+4, 4))
	hsize := int(f.u(addr+8, 4))
	r := map[string]bool{"OHDR1.version": f.B[addr] == 1, "OHDR1.reserved0": f.B[addr+1] == 0,
		"OHDR1.size.align8": hsize%8 == 0}
	var msgs []msg
	type blk struct{ start, size int }
	blocks := []blk{{addr + 16, hsize}}
	first := true
	for bi := 0; bi < len(blocks) && bi < 64; bi++ {
		b := blocks[bi]
		if !f.in(b.start, b.size) {
			f.errf("%s: header block at %d of %d bytes outside the file", owner, b.start, b.size)
			r["OHDR1.block.infile"] = false
			break
		}
		br := r
		if !first {
			br = map[string]bool{}
		}
		p := b.start
		end := b.start + b.size
		aligned := true
		for p+8 <= end && len(msgs) < nmsgs {
			t, sz, fl := int(f.u(p, 2)), int(f.u(p+2, 2)), int(f.B[p+4])
			if sz%8 != 0 {
				aligned = false
			}
			if p+8+sz > end {
				br["OHDR1.msg.inblock"] = false
				f.errf("%s: message type %d at %d (%d bytes) leaves its header block", owner, t, p, sz)
				break
			}
			m := msg{Type: t, Flags: fl, Data: f.B[p+8 : p+8+sz], Off: p + 8}
			msgs = append(msgs, m)
			if t == 0x10 && sz >= f.OffSz+f.LenSz {
				blocks = append(blocks, blk{int(f.u(p+8, f.OffSz) + f.Base), int(f.u(p+8+f.OffSz, f.LenSz))})
			}
			p += 8 + sz
		}
		br["OHDR1.msg.align8"] = aligned
		if first {
			r["OHDR1.nmsgs.fit"] = true
			f.ext("ohdr1", addr, end, owner, r)
			first = false
		} else {
			f.ext("ohdr1-cont", b.start, end, owner, br)
		}
	}
	if len(msgs) != nmsgs {
		// the message count covers all blocks; fewer found means the size fields do not add up
		f.Extents[len(f.Extents)-1].Rules["OHDR1.nmsgs.match"] = false
	}
	return msgs, nlinks, true
}

// headerV2 reads a version 2 object header and its continuation chunks.
func (f *File) headerV2(addr int, owner string) ([]msg, bool) {
	if !f.in(addr, 8) {
		f.errf("%s: version 2 header at %d outside the file", owner, addr)
		return nil, false
	}
	flags := int(f.B[addr+5])
	r := map[string]bool{"OHDR2.sig": true, "OHDR2.version": f.B[addr+4] == 2, "OHDR2.flags.reserved0": flags&0xc0 == 0}
	p := addr + 6
	if flags&0x20 != 0 {
		p += 16
	}
	if flags&0x10 != 0 {
		p += 4
	}
	szw := 1 << uint(flags&3)
	csize := int(f.u(p, szw))
	p += szw
	type blk struct {
		start, end, from int
		first            bool
	}
	blocks := []blk{{p, p + csize, addr, true}}
	var msgs []msg
	mh := 4
	if flags&0x04 != 0 {
		mh = 6
	}
	for bi := 0; bi < len(blocks) && bi < 64; bi++ {
		b := blocks[bi]
		br := r
		if !b.first {
			br = map[string]bool{"OCHK.sig": f.in(b.from, 4) && string(f.B[b.from:b.from+4]) == "OCHK"}
		}
		// the chunk is followed by a 4-byte checksum over everything from the signature on
		if !f.in(b.start, b.end-b.start) {
			br["OHDR2.chunk.infile"] = false
			f.errf("%s: header chunk at %d..%d outside the file", owner, b.from, b.end)
			if b.first {
				f.ext("ohdr2", addr, min(b.end, len(f.B)), owner, br)
			}
			continue
		}
		if !f.in(b.from, b.end+4-b.from) {
			br["OHDR2.cksum.lookup3"] = false // the file ends where the checksum should be
		} else {
			br["OHDR2.cksum.lookup3"] = uint32(f.u(b.end, 4)) == lookup3.HashLittle(f.B[b.from:b.end], 0)
		}
		q := b.start
		for q+mh <= b.end {
			t, sz, fl := int(f.B[q]), int(f.u(q+1, 2)), int(f.B[q+3])
			if q+mh+sz > b.end {
				br["OHDR2.msg.inchunk"] = false
				f.errf("%s: message type %d at %d (%d bytes) leaves its header chunk", owner, t, q, sz)
				break
			}
			m := msg{Type: t, Flags: fl, Data: f.B[q+mh : q+mh+sz], Off: q + mh}
			msgs = append(msgs, m)
			if t == 0x10 && sz >= f.OffSz+f.LenSz {
				ca, cl := int(f.u(q+mh, f.OffSz)+f.Base), int(f.u(q+mh+f.OffSz, f.LenSz))
				// a continuation chunk: signature (4), messages, checksum (4)
				blocks = append(blocks, blk{ca + 4, ca + cl - 4, ca, false})
			}
			q += mh + sz
		}
		endx := b.end + 4
		if ok, has := br["OHDR2.cksum.lookup3"]; has && !ok {
			endx = b.end // no checksum was written: the bytes after the chunk belong to whatever follows
		}
		if endx > len(f.B) {
			endx = len(f.B)
		}
		if b.first {
			f.ext("ohdr2", addr, endx, owner, br)
		} else {
			f.ext("ohdr2-cont", b.from, endx, owner, br)
		}
	}
	return msgs, true
}

// object decodes the object whose header is at addr (relative to the base address).
func (f *File) object(path string, addr uint64, cachedBT, cachedHeap uint64, depth int) *Obj {
	o := &Obj{Path: path, Kind: "unknown", Addr: addr, Layout: -1}
	f.Objs = append(f.Objs, o)
	if depth > 64 {
		f.errf("%s: nesting deeper than 64", path)
		return o
	}
	a := int(addr + f.Base)
	if !f.in(a, 8) {
		f.errf("%s: object header address %d outside the file", path, addr)
		return o
	}
	var msgs []msg
	ok := false
	if string(f.B[a:a+4]) == "OHDR" {
		o.HdrVer = 2
		if f.seen[addr] {
			// a second hard link to an object already recorded: read again for content, extents are not duplicated
			n := len(f.Extents)
			msgs, ok = f.headerV2(a, path)
			f.Extents = f.Extents[:n]
		} else {
			msgs, ok = f.headerV2(a, path)
		}
	} else if f.B[a] == 1 {
		o.HdrVer = 1
		n := len(f.Extents)
		msgs, o.NLinks, ok = f.headerV1(a, path)
		if f.seen[addr] {
			f.Extents = f.Extents[:n]
		}
	} else {
		f.errf("%s: no object header at %d", path, addr)
		return o
	}
	if !ok {
		return o
	}
	first := !f.seen[addr]
	f.seen[addr] = true
	var stab, linfo, layout, dspace, dtype, ainfo *msg
	var links, attrs, pipeline []msg
	wrongAinfoType, shared := false, false
	for i := range msgs {
		m := &msgs[i]
		switch m.Type {
		case 0x01:
			dspace = m
		case 0x02:
			linfo = m
		case 0x03:
			dtype = m
		case 0x06:
			links = append(links, *m)
		case 0x08:
			layout = m
		case 0x0b:
			pipeline = append(pipeline, *m)
		case 0x0c:
			attrs = append(attrs, *m)
		case 0x11:
			stab = m
		case 0x15:
			ainfo = m
		case 0x0f:
			// 0x000F is the shared message table; the library under test writes its attribute info message
			// under this number.  Followed (so that the dense storage behind it is still checked), and flagged.
			if ainfo == nil && len(m.Data) >= 2+2*f.OffSz && m.Data[0] == 0 && m.Data[1]&^3 == 0 {
				ainfo = m
				wrongAinfoType = true
			}
		}
		if m.Flags&0x02 != 0 && (m.Type == 0x01 || m.Type == 0x03 || m.Type == 0x0b) {
			shared = true
		}
	}
	if wrongAinfoType && first {
		f.ext("msg-attrinfo", 0, 0, path, map[string]bool{"OHDR.msgtype.attrinfo.0x15": false})
	}
	if shared {
		f.unsup("%s: shared header message", path)
		o.Kind = "unknown"
		return o
	}
	// attributes
	for _, m := range attrs {
		if at, ok := f.attribute(m.Data, path); ok {
			o.Attrs = append(o.Attrs, at)
		}
	}
	if ainfo != nil {
		f.denseAttrs(o, ainfo.Data, first)
	}
	sort.SliceStable(o.Attrs, func(i, j int) bool { return o.Attrs[i].Name < o.Attrs[j].Name })
	switch {
	case dspace != nil && dtype != nil:
		o.Kind = "dataset"
		f.dataset(o, dspace, dtype, layout, pipeline, first)
	case dtype != nil:
		o.Kind = "datatype"
		o.Type, _ = f.datatype(dtype.Data, path)
	case stab != nil || linfo != nil || len(links) > 0 || (cachedBT != 0 && cachedHeap != 0):
		o.Kind = "group"
		if f.inProgress[addr] {
			return o // a group that contains itself: not expanded again
		}
		f.inProgress[addr] = true
		defer delete(f.inProgress, addr)
		if stab != nil && len(stab.Data) >= 2*f.OffSz {
			f.symbolTable(o, f.u(stab.Off, f.OffSz), f.u(stab.Off+f.OffSz, f.OffSz), depth, first)
		} else if len(links) == 0 && linfo == nil && cachedBT != 0 {
			f.symbolTable(o, cachedBT, cachedHeap, depth, first)
		}
		for _, m := range links {
			f.linkMessage(o, m.Data, depth)
		}
		if linfo != nil {
			f.denseLinks(o, linfo.Data, depth, first)
		}
		sort.Strings(o.Members)
	case len(msgs) == 1 && msgs[0].Type == 0x06:
		o.Kind = "group"
	default:
		// an object header with neither dataset nor group messages: an empty new-style group has a link info message;
		// anything else is left unknown
		if len(links) > 0 {
			o.Kind = "group"
		}
	}
	return o
}

func min(a, b int) int {
	if a < b {
		return a
	}
	return b
}

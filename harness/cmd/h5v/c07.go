package main

// C07 driver: robustness of the reader against arbitrary input.
//
//   -mode worker : isolated child.  Reads one file path per line from stdin, opens the file and
//                  reads everything reachable (Open, Walk, dataset info, Read, ReadStrings,
//                  ReadCompound, attributes, ReadValue), and answers with outcome, wall time,
//                  bytes allocated and - for a panic - the library frame that raised it.  It runs
//                  under RLIMIT_AS and a small maximum stack, so that exhaustion kills it quickly
//                  instead of the machine.
//   -mode run    : parent.  For every base file of the cases: enumerate the mutations (every
//                  candidate field set to boundary values, every pointer-sized window redirected
//                  to every structure of the file, seeded random multi-byte mutations, the
//                  self-referential shapes derived from ReaderWalk.tla), hand each mutant to a
//                  worker, watch for death and timeouts (SIGQUIT first, to learn where it spins),
//                  and aggregate outcomes per (base, class, outcome, site).
//   -mode mkfiles: write the library-made base files.

import (
	"bufio"
	"bytes"
	"encoding/binary"
	"encoding/json"
	"flag"
	"fmt"
	"io"
	"math/rand"
	"os"
	"os/exec"
	"path/filepath"
	"regexp"
	"runtime"
	"runtime/debug"
	"runtime/metrics"
	"sort"
	"strings"
	"sync"
	"sync/atomic"
	"syscall"
	"time"

	hdf5 "github.com/scigolib/hdf5"

	"h5v/lib"
)

// ---------------------------------------------------------------- worker

// siteOf returns the first library frame of a stack dump (function name without package path).
func siteOf(stack string) string {
	for _, line := range strings.Split(stack, "\n") {
		if strings.Contains(line, "verifapi") || strings.Contains(line, "Verif") {
			continue
		}
		if i := strings.Index(line, "github.com/scigolib/hdf5"); i >= 0 {
			fn := line[i+len("github.com/scigolib/hdf5"):]
			if j := strings.LastIndex(fn, "("); j > 0 {
				fn = fn[:j]
			}
			fn = strings.TrimPrefix(fn, "/internal/")
			fn = strings.TrimPrefix(fn, ".")
			return fn
		}
	}
	return "?"
}

// recursionSite returns the library function that occurs most often in a stack dump (the frame
// that recurses when the stack limit is hit).
func recursionSite(stack string) string {
	cnt := map[string]int{}
	for _, line := range strings.Split(stack, "\n") {
		if strings.HasPrefix(line, "\t") || strings.Contains(line, "verifapi") {
			continue
		}
		if i := strings.Index(line, "github.com/scigolib/hdf5"); i == 0 {
			fn := line[len("github.com/scigolib/hdf5"):]
			if j := strings.LastIndex(fn, "("); j > 0 {
				fn = fn[:j]
			}
			fn = strings.TrimPrefix(strings.TrimPrefix(fn, "/internal/"), ".")
			cnt[fn]++
		}
	}
	best, n := "?", 0
	for k, v := range cnt {
		if v > n || (v == n && k < best) {
			best, n = k, v
		}
	}
	return best
}

var reNum = regexp.MustCompile(`[0-9]+`)

type walkRes struct {
	res  string // ok | err | panic
	site string
	msg  string
}

func c07Guard(r *walkRes, fn func() error) {
	defer func() {
		if p := recover(); p != nil {
			if r.res != "panic" {
				r.res = "panic"
				r.site = siteOf(string(debug.Stack()))
				r.msg = reNum.ReplaceAllString(fmt.Sprint(p), "N")
				if len(r.msg) > 120 {
					r.msg = r.msg[:120]
				}
			}
		}
	}()
	if err := fn(); err != nil && r.res == "ok" {
		r.res = "err"
	}
}

// c07Walk opens path and exercises every read API on everything reachable.
func c07Walk(path string) walkRes {
	r := walkRes{res: "ok"}
	var f *hdf5.File
	c07Guard(&r, func() error {
		var err error
		f, err = hdf5.Open(path)
		return err
	})
	if f == nil {
		return r
	}
	defer func() { c07Guard(&r, func() error { return f.Close() }) }()
	var dss []*hdf5.Dataset
	var grs []*hdf5.Group
	c07Guard(&r, func() error {
		f.Walk(func(_ string, o hdf5.Object) {
			switch t := o.(type) {
			case *hdf5.Group:
				grs = append(grs, t)
			case *hdf5.Dataset:
				dss = append(dss, t)
			}
		})
		return nil
	})
	attrs := func(get func() ([]*attrPtr, error)) {
		c07Guard(&r, func() error {
			as, err := get()
			if err != nil {
				return err
			}
			for _, a := range as {
				a := a
				c07Guard(&r, func() error { _, err := a.ReadValue(); return err })
			}
			return nil
		})
	}
	for _, g := range grs {
		g := g
		attrs(func() ([]*attrPtr, error) { return g.Attributes() })
	}
	for _, d := range dss {
		d := d
		c07Guard(&r, func() error { _, err := d.VerifInfo(); return err })
		c07Guard(&r, func() error { _, err := d.Info(); return err })
		c07Guard(&r, func() error { _, err := d.Read(); return err })
		c07Guard(&r, func() error { _, err := d.ReadStrings(); return err })
		c07Guard(&r, func() error { _, err := d.ReadCompound(); return err })
		// partial reads and the chunk iterator: separate code paths through layout, chunk index and filters
		var dims []uint64
		c07Guard(&r, func() error {
			info, err := d.VerifInfo()
			if err == nil && info != nil && info.Dataspace != nil && len(info.Dataspace.Dimensions) <= 8 {
				dims = info.Dataspace.Dimensions
			}
			return err
		})
		if len(dims) > 0 {
			start, count, stride, block := make([]uint64, len(dims)), make([]uint64, len(dims)), make([]uint64, len(dims)), make([]uint64, len(dims))
			for k, n := range dims {
				count[k], stride[k], block[k] = 2, 2, 1
				if n < 3 {
					count[k], stride[k] = 1, 1
				}
			}
			c07Guard(&r, func() error { _, err := d.ReadSlice(start, count); return err })
			c07Guard(&r, func() error {
				_, err := d.ReadHyperslab(&hdf5.HyperslabSelection{Start: start, Count: count, Stride: stride, Block: block})
				return err
			})
		}
		c07Guard(&r, func() error {
			it, err := d.ChunkIterator()
			if err != nil {
				return err
			}
			for n := 0; n < 64 && it.Next(); n++ {
				if _, err := it.Chunk(); err != nil {
					return err
				}
			}
			return it.Err()
		})
		attrs(func() ([]*attrPtr, error) { return d.Attributes() })
	}
	return r
}

func c07Worker(asLimit uint64) {
	if asLimit > 0 {
		_ = syscall.Setrlimit(syscall.RLIMIT_AS, &syscall.Rlimit{Cur: asLimit, Max: asLimit})
	}
	debug.SetMaxStack(48 << 20)
	in := bufio.NewReaderSize(os.Stdin, 1<<16)
	out := bufio.NewWriter(os.Stdout)
	var m0, m1 runtime.MemStats
	n := 0
	runtime.MemProfileRate = 1 << 20 // every allocation of a megabyte or more is recorded with its stack
	// peak heap: sampled every 200 microseconds from the runtime's own accounting (live objects plus
	// garbage not yet collected; the collector keeps the latter below the former plus a few MiB)
	var peak atomic.Uint64
	sample := func() {
		s := []metrics.Sample{{Name: "/memory/classes/heap/objects:bytes"}}
		metrics.Read(s)
		v := s[0].Value.Uint64()
		for {
			old := peak.Load()
			if v <= old || peak.CompareAndSwap(old, v) {
				return
			}
		}
	}
	go func() {
		for {
			sample()
			time.Sleep(200 * time.Microsecond)
		}
	}()
	prof := map[[32]uintptr][2]int64{}
	for {
		line, err := in.ReadString('\n')
		if err != nil {
			return
		}
		parts := strings.Split(strings.TrimSpace(line), "\t")
		path := parts[0]
		if path == "" {
			continue
		}
		var limit uint64
		if len(parts) > 1 {
			fmt.Sscan(parts[1], &limit)
		}
		fmt.Fprintf(out, "S\n")
		out.Flush()
		runtime.ReadMemStats(&m0)
		peak.Store(0)
		sample()
		base := peak.Load()
		t0 := time.Now()
		r := c07Walk(path)
		us := time.Since(t0).Microseconds()
		sample()
		runtime.ReadMemStats(&m1)
		grown := uint64(0)
		if p := peak.Load(); p > base {
			grown = p - base
		}
		_ = prof
		b, _ := json.Marshal(map[string]interface{}{"res": r.res, "us": us, "alloc": grown, "total": m1.TotalAlloc - m0.TotalAlloc, "site": r.site, "msg": r.msg})
		out.Write(b)
		out.WriteByte('\n')
		out.Flush()
		if n++; n%256 == 0 || grown > 16<<20 {
			runtime.GC()
		}
	}
}

// allocSite names the library frame that made the largest allocations since the last call
// (largest average object size among the stacks that allocated at all in between).
func allocSite(prev map[[32]uintptr][2]int64) string {
	runtime.GC()
	runtime.GC() // the profile is published two cycles late
	recs := make([]runtime.MemProfileRecord, 4096)
	n, ok := runtime.MemProfile(recs, true)
	if !ok {
		recs = make([]runtime.MemProfileRecord, n+1024)
		n, _ = runtime.MemProfile(recs, true)
	}
	best, bestAvg := "?", int64(0)
	for _, r := range recs[:n] {
		p := prev[r.Stack0]
		db, do := r.AllocBytes-p[0], r.AllocObjects-p[1]
		prev[r.Stack0] = [2]int64{r.AllocBytes, r.AllocObjects}
		if do <= 0 || db/do <= bestAvg {
			continue
		}
		frames := runtime.CallersFrames(r.Stack())
		for {
			f, more := frames.Next()
			if strings.Contains(f.Function, "github.com/scigolib/hdf5") && !strings.Contains(f.Function, "verifapi") {
				fn := strings.TrimPrefix(f.Function, "github.com/scigolib/hdf5")
				best, bestAvg = strings.TrimPrefix(strings.TrimPrefix(fn, "/internal/"), "."), db/do
				break
			}
			if !more {
				break
			}
		}
	}
	return best
}

// ---------------------------------------------------------------- parent

type c07Reply struct {
	Res   string `json:"res"` // ok err panic | fatal hang (set by the parent)
	Us    int64  `json:"us"`
	Alloc uint64 `json:"alloc"`
	Site  string `json:"site"`
	Msg   string `json:"msg"`
}

type c07Proc struct {
	cmd    *exec.Cmd
	stdin  io.WriteCloser
	out    *bufio.Reader
	errBuf *lockedBuf
}

type lockedBuf struct {
	mu sync.Mutex
	b  bytes.Buffer
}

func (l *lockedBuf) Write(p []byte) (int, error) {
	l.mu.Lock()
	defer l.mu.Unlock()
	if l.b.Len() < 1<<20 {
		l.b.Write(p)
	}
	return len(p), nil
}
func (l *lockedBuf) String() string { l.mu.Lock(); defer l.mu.Unlock(); return l.b.String() }

func c07Start(asLimit uint64) (*c07Proc, error) {
	cmd := exec.Command(os.Args[0], "c07", "-mode", "worker", "-as", fmt.Sprint(asLimit), "-out", "-")
	cmd.Env = append(os.Environ(), "GOTRACEBACK=all", "GOMAXPROCS=2")
	stdin, err := cmd.StdinPipe()
	if err != nil {
		return nil, err
	}
	stdout, err := cmd.StdoutPipe()
	if err != nil {
		return nil, err
	}
	eb := &lockedBuf{}
	cmd.Stderr = eb
	if err := cmd.Start(); err != nil {
		return nil, err
	}
	return &c07Proc{cmd: cmd, stdin: stdin, out: bufio.NewReaderSize(stdout, 1<<16), errBuf: eb}, nil
}

func (p *c07Proc) kill() {
	_ = p.cmd.Process.Kill()
	_ = p.cmd.Wait()
}

var reFatal = regexp.MustCompile(`(?m)^(fatal error: .*|runtime: (?:out of memory|goroutine stack exceeds).*|panic: .*)$`)

// ask sends one path and waits for the answer; a dead or silent worker becomes fatal / hang.
func (p *c07Proc) ask(path string, limit int64, timeout time.Duration) (c07Reply, bool) {
	type ans struct {
		r  c07Reply
		ok bool
	}
	ch := make(chan ans, 1)
	go func() {
		if _, err := io.WriteString(p.stdin, fmt.Sprintf("%s\t%d\n", path, limit)); err != nil {
			ch <- ans{ok: false}
			return
		}
		for {
			line, err := p.out.ReadString('\n')
			if err != nil {
				ch <- ans{ok: false}
				return
			}
			if strings.HasPrefix(line, "S") {
				continue
			}
			var r c07Reply
			if json.Unmarshal([]byte(line), &r) != nil {
				ch <- ans{ok: false}
				return
			}
			ch <- ans{r: r, ok: true}
			return
		}
	}()
	t0 := time.Now()
	select {
	case a := <-ch:
		if a.ok {
			return a.r, true
		}
		// the worker died: the runtime's last words say why (Wait also drains stderr)
		_ = p.cmd.Wait()
		txt := p.errBuf.String()
		why := "died"
		if m := reFatal.FindString(txt); m != "" {
			why = m
		}
		if strings.Contains(why, "out of memory") || strings.Contains(why, "cannot allocate") {
			why = "out of memory"
		}
		if len(why) > 100 {
			why = why[:100]
		}
		site := siteOf(txt)
		if strings.Contains(why, "stack exceeds") || strings.Contains(why, "stack overflow") {
			site = recursionSite(txt)
			why = "stack overflow"
		}
		return c07Reply{Res: "fatal", Us: time.Since(t0).Microseconds(), Site: site, Msg: why}, false
	case <-time.After(timeout):
		// ask where it is, then kill it
		_ = p.cmd.Process.Signal(syscall.SIGQUIT)
		time.Sleep(300 * time.Millisecond)
		txt := p.errBuf.String()
		p.kill()
		return c07Reply{Res: "hang", Us: time.Since(t0).Microseconds(), Site: siteOf(txt), Msg: "no answer"}, false
	}
}

// ---- mutation enumeration

type c07Mut struct {
	Class string `json:"class"`
	Off   int    `json:"off"`
	W     int    `json:"w"`
	Val   uint64 `json:"val"`
	Ctx   string `json:"ctx"`           // nearest preceding structure signature and the offset inside it
	Rnd   []int  `json:"rnd,omitempty"` // random class: offset/value pairs
}

var c07Sigs = []string{"OHDR", "OCHK", "TREE", "SNOD", "HEAP", "GCOL", "BTHD", "BTLF", "BTIN", "FRHP", "FHDB", "FHIB", "FSHD", "FSSE", "FAHD", "EAHD"}

type c07Struct struct {
	Off  int
	Kind string
}

// c07Scan finds the structures of a file by signature (4-byte aligned hits are not required:
// the format aligns nothing in version 2 files).
func c07Scan(b []byte) []c07Struct {
	var out []c07Struct
	for i := 0; i+4 <= len(b); i++ {
		if b[i] < 'B' || b[i] > 'T' {
			continue
		}
		s := string(b[i : i+4])
		for _, k := range c07Sigs {
			if s == k {
				out = append(out, c07Struct{i, k})
				break
			}
		}
	}
	return out
}

func c07Ctx(structs []c07Struct, off int) string {
	i := sort.Search(len(structs), func(i int) bool { return structs[i].Off > off }) - 1
	if i < 0 {
		return fmt.Sprintf("SB+%d", off)
	}
	return fmt.Sprintf("%s+%d", structs[i].Kind, off-structs[i].Off)
}

func c07Apply(base []byte, m *c07Mut, dst []byte) []byte {
	dst = append(dst[:0], base...)
	if len(m.Rnd) > 0 {
		for i := 0; i+1 < len(m.Rnd); i += 2 {
			dst[m.Rnd[i]] = byte(m.Rnd[i+1])
		}
		return dst
	}
	for i := 0; i < m.W && m.Off+i < len(dst); i++ {
		dst[m.Off+i] = byte(m.Val >> (8 * i))
	}
	return dst
}

func c07Get(b []byte, off, w int) uint64 {
	var v uint64
	for i := 0; i < w && off+i < len(b); i++ {
		v |= uint64(b[off+i]) << (8 * i)
	}
	return v
}

// c07Offsets: which bytes are candidate fields.  Small files: all; larger files: the metadata the
// signature scan finds (a window after each structure start), the superblock and a stride.
var c07Win = 384

func c07Offsets(b []byte, structs []c07Struct, full int, stride int) []int {
	if len(b) <= full {
		out := make([]int, len(b))
		for i := range out {
			out[i] = i
		}
		return out
	}
	mark := map[int]bool{}
	for i := 0; i < 2048 && i < len(b); i++ {
		mark[i] = true
	}
	for _, s := range structs {
		for i := s.Off; i < s.Off+c07Win && i < len(b); i++ {
			mark[i] = true
		}
	}
	for i := 0; i < len(b); i += stride {
		mark[i] = true
	}
	out := make([]int, 0, len(mark))
	for i := range mark {
		out = append(out, i)
	}
	sort.Ints(out)
	return out
}

func c07Enumerate(b []byte, classes map[string]bool, full, stride, nrand int, rng *rand.Rand, each func(m *c07Mut)) {
	structs := c07Scan(b)
	size := uint64(len(b))
	offs := c07Offsets(b, structs, full, stride)
	if classes["field"] {
		for _, off := range offs {
			for _, w := range []int{1, 2, 4, 8} {
				if off+w > len(b) {
					continue
				}
				cur := c07Get(b, off, w)
				max := uint64(1)<<(8*uint(w)) - 1
				if w == 8 {
					max = ^uint64(0)
				}
				vals := []uint64{0, 1, max, max - 1, max >> 1, (max >> 1) + 1, cur + 1, cur - 1}
				if w >= 4 {
					vals = append(vals, size, size-1, size+1, uint64(off), 1<<31, 1<<32-1, 1<<24, cur<<8, cur*2)
				}
				if w == 2 {
					vals = append(vals, 256, 255, 32768)
				}
				seen := map[uint64]bool{cur: true}
				for _, v := range vals {
					v &= max
					if seen[v] {
						continue
					}
					seen[v] = true
					each(&c07Mut{Class: "field", Off: off, W: w, Val: v, Ctx: c07Ctx(structs, off)})
				}
			}
		}
	}
	if classes["pointer"] {
		// every window that holds the address of a structure (or could: 8-byte windows in metadata)
		// redirected to every structure of the file, itself included: self-reference, back edges,
		// shared children
		addrs := map[uint64]bool{}
		for _, s := range structs {
			addrs[uint64(s.Off)] = true
		}
		for _, off := range offs {
			for _, w := range []int{8, 4} {
				if off+w > len(b) {
					continue
				}
				cur := c07Get(b, off, w)
				if !addrs[cur] && !(cur > 0 && cur < size && w == 8 && looksLikeV1Header(b, cur)) {
					continue
				}
				own := uint64(0)
				if i := sort.Search(len(structs), func(i int) bool { return structs[i].Off > off }) - 1; i >= 0 {
					own = uint64(structs[i].Off)
				}
				targets := []uint64{own, uint64(off)}
				for _, s := range structs {
					targets = append(targets, uint64(s.Off))
				}
				seen := map[uint64]bool{cur: true}
				for _, t := range targets {
					if seen[t] {
						continue
					}
					seen[t] = true
					each(&c07Mut{Class: "pointer", Off: off, W: w, Val: t, Ctx: c07Ctx(structs, off)})
				}
			}
		}
	}
	if classes["pointer"] {
		// version 1 continuation messages (type 0x0010, size 16; their blocks carry no signature): the
		// continuation is pointed at the message itself, at the header that holds it and at address 0 -
		// the self-referential continuation of ReaderWalk's counterexample
		for i := 0; i+24 <= len(b); i++ {
			if b[i] != 0x10 || b[i+1] != 0 || b[i+2] != 0x10 || b[i+3] != 0 || b[i+5] != 0 || b[i+6] != 0 || b[i+7] != 0 {
				continue
			}
			cur := c07Get(b, i+8, 8)
			if cur == 0 || cur >= size {
				continue
			}
			for _, tgt := range [][2]uint64{{uint64(i), 24}, {uint64(i), 4096}, {cur, c07Get(b, i+16, 8) + 8}} {
				m := &c07Mut{Class: "pointer", Off: i + 8, W: 16, Val: tgt[0], Ctx: "V1CONT+8"}
				for k := 0; k < 8; k++ {
					m.Rnd = append(m.Rnd, i+8+k, int(byte(tgt[0]>>(8*uint(k)))), i+16+k, int(byte(tgt[1]>>(8*uint(k)))))
				}
				each(m)
			}
		}
	}
	if classes["random"] {
		for i := 0; i < nrand; i++ {
			k := 1 + rng.Intn(8)
			m := &c07Mut{Class: "random", Ctx: "random"}
			// half of the mutations fall into the metadata windows
			for j := 0; j < k; j++ {
				var off int
				if rng.Intn(2) == 0 && len(offs) > 0 {
					off = offs[rng.Intn(len(offs))]
				} else {
					off = rng.Intn(len(b))
				}
				m.Rnd = append(m.Rnd, off, rng.Intn(256))
			}
			m.Off = m.Rnd[0]
			each(m)
		}
	}
}

func looksLikeV1Header(b []byte, at uint64) bool {
	return at+16 <= uint64(len(b)) && b[at] == 1 && b[at+1] == 0 && binary.LittleEndian.Uint16(b[at+2:]) < 64
}

// ---- buckets

type c07Bucket struct {
	Base     string    `json:"base"`
	Size     int       `json:"size"`
	Class    string    `json:"class"`
	Outcome  string    `json:"outcome"`
	Site     string    `json:"site"`
	Msg      string    `json:"msg"`
	Count    int       `json:"count"`
	MaxUs    int64     `json:"maxus"`
	MaxAlloc int64     `json:"maxalloc"`
	Ex       []*c07Mut `json:"ex"`
}

type c07Case struct {
	File    string   `json:"file"`
	Name    string   `json:"name"`
	Classes []string `json:"classes"`
	Full    int      `json:"full"`
	Stride  int      `json:"stride"`
	NRand   int      `json:"nrand"`
	Win     int      `json:"win"`
	// explicit mutations (replay, model-derived shapes)
	Muts []*c07Mut `json:"muts,omitempty"`
}

func runC07(args []string) {
	fs := flag.NewFlagSet("c07", flag.ExitOnError)
	mode := fs.String("mode", "run", "")
	in := fs.String("in", "", "")
	out := fs.String("out", "", "")
	dir := fs.String("dir", os.TempDir(), "")
	seed := fs.Int64("seed", 1, "")
	workers := fs.Int("workers", runtime.NumCPU(), "")
	as := fs.Uint64("as", 3<<30, "address space limit of a worker")
	timeoutMs := fs.Int("timeout", 10000, "per input")
	allocBase := fs.Int64("allocbase", 64<<20, "")
	allocPer := fs.Int64("allocper", 64, "")
	_ = fs.Parse(args)
	switch *mode {
	case "worker":
		c07Worker(*as)
		return
	case "profile":
		// one input in a fresh process: which library frame made the largest allocation
		runtime.MemProfileRate = 1 << 16
		debug.SetMaxStack(48 << 20)
		_ = c07Walk(*in)
		fmt.Println(allocSite(map[[32]uintptr][2]int64{}))
		return
	case "mkfiles":
		files, err := c07MakeFiles(*dir)
		lib.Must(err, "mkfiles")
		b, _ := json.Marshal(files)
		fmt.Println(string(b))
		return
	}
	raw, err := lib.ReadCases(*in)
	lib.Must(err, "read cases")
	var evs []lib.Ev
	total := 0
	for ci, rc := range raw {
		var c c07Case
		lib.Must(json.Unmarshal(rc, &c), "parse case")
		base, err := os.ReadFile(c.File)
		lib.Must(err, "read base")
		classes := map[string]bool{}
		for _, k := range c.Classes {
			classes[k] = true
		}
		rng := lib.Rng(*seed, ci, c.Name)
		if c.Win > 0 {
			c07Win = c.Win
		}
		// collect the mutants, then fan out
		var muts []*c07Mut
		muts = append(muts, &c07Mut{Class: "intact", Ctx: "intact"})
		muts = append(muts, c.Muts...)
		c07Enumerate(base, classes, c.Full, max(c.Stride, 1), c.NRand, rng, func(m *c07Mut) { muts = append(muts, m) })
		buckets := map[string]*c07Bucket{}
		var mu sync.Mutex
		next := 0
		var wg sync.WaitGroup
		for w := 0; w < *workers; w++ {
			wg.Add(1)
			go func(w int) {
				defer wg.Done()
				path := filepath.Join(*dir, fmt.Sprintf("c07-w%d.h5", w))
				var p *c07Proc
				var buf []byte
				defer func() {
					if p != nil {
						p.kill()
					}
					os.Remove(path)
				}()
				for {
					mu.Lock()
					i := next
					next++
					mu.Unlock()
					if i >= len(muts) {
						return
					}
					m := muts[i]
					buf = c07Apply(base, m, buf)
					if err := os.WriteFile(path, buf, 0o644); err != nil {
						lib.Must(err, "write mutant")
					}
					if p == nil {
						var err error
						p, err = c07Start(*as)
						lib.Must(err, "start worker")
					}
					limit := *allocBase + *allocPer*int64(len(base))
					r, alive := p.ask(path, limit, time.Duration(*timeoutMs)*time.Millisecond)
					if !alive {
						p.kill()
						p = nil
					}
					outcome := r.Res
					if (outcome == "ok" || outcome == "err") && int64(r.Alloc) > limit {
						outcome = "excess-alloc"
						// attribute it in a fresh process (the heap profile of a long-lived worker is stale)
						pc := exec.Command(os.Args[0], "c07", "-mode", "profile", "-in", path, "-out", "-")
						pc.Env = append(os.Environ(), "GOMAXPROCS=2")
						if ob, err := pc.Output(); err == nil {
							r.Site = strings.TrimSpace(string(ob))
						} else {
							r.Site = "?"
						}
					}
					site := r.Site
					if outcome == "ok" || outcome == "err" {
						site = ""
					}
					if outcome == "hang" {
						site = r.Site
					}
					key := m.Class + "|" + outcome + "|" + site
					mu.Lock()
					b := buckets[key]
					if b == nil {
						b = &c07Bucket{Base: c.Name, Size: len(base), Class: m.Class, Outcome: outcome, Site: site, Msg: r.Msg}
						buckets[key] = b
					}
					b.Count++
					if r.Us > b.MaxUs {
						b.MaxUs = r.Us
					}
					al := int64(r.Alloc)
					if al > 1<<31-1 || al < 0 {
						al = 1<<31 - 1
					}
					if al > b.MaxAlloc {
						b.MaxAlloc = al
					}
					if len(b.Ex) < 3 {
						b.Ex = append(b.Ex, m)
					}
					mu.Unlock()
				}
			}(w)
		}
		wg.Wait()
		total += len(muts)
		evs = append(evs, lib.Ev{"op": "reset", "base": c.Name, "size": len(base), "mutants": len(muts)})
		keys := make([]string, 0, len(buckets))
		for k := range buckets {
			keys = append(keys, k)
		}
		sort.Strings(keys)
		for _, k := range keys {
			b := buckets[k]
			evs = append(evs, lib.Ev{"op": "robust", "base": b.Base, "size": b.Size, "class": b.Class, "outcome": b.Outcome, "site": b.Site, "msg": b.Msg,
				"count": b.Count, "maxus": b.MaxUs, "maxalloc": b.MaxAlloc, "ex": b.Ex})
		}
	}
	f, err := os.Create(*out)
	lib.Must(err, "create trace")
	w := bufio.NewWriter(f)
	enc := json.NewEncoder(w)
	cid := -1
	for _, e := range evs {
		if e["op"] == "reset" {
			cid++
		}
		e["case"] = cid
		lib.Must(enc.Encode(e), "encode")
	}
	lib.Must(w.Flush(), "flush")
	f.Close()
	fmt.Printf("c07: bases=%d mutants=%d events=%d\n", len(raw), total, len(evs))
}

// c07MakeFiles writes library-made base files that cover the structures the writer produces:
// symbol-table and link-message groups, compact and dense attributes, contiguous and chunked
// (filtered) datasets, compound and variable-length types, soft and hard links.
func c07MakeFiles(dir string) ([]string, error) {
	var files []string
	for _, sb := range []int{0, 2} {
		p := filepath.Join(dir, fmt.Sprintf("c07_sb%d.h5", sb))
		fw, err := hdf5.CreateForWrite(p, hdf5.CreateTruncate, fileOpts(sb, "")...)
		if err != nil {
			return nil, err
		}
		g, err := fw.CreateGroup("/g")
		if err != nil {
			return nil, err
		}
		_ = g.WriteAttribute("title", "group attribute")
		if _, err := fw.CreateGroup("/g/sub"); err != nil {
			return nil, err
		}
		d, err := fw.CreateDataset("/g/d", hdf5.Int32, []uint64{6})
		if err != nil {
			return nil, err
		}
		_ = d.Write([]int32{1, 2, 3, 4, 5, 6})
		for i := 0; i < 10; i++ { // crosses into dense attribute storage
			_ = d.WriteAttribute(fmt.Sprintf("a%02d", i), int32(i))
		}
		c, err := fw.CreateDataset("/c", hdf5.Float64, []uint64{4, 3}, hdf5.WithChunkDims([]uint64{2, 2}))
		if err != nil {
			return nil, err
		}
		v := make([]float64, 12)
		for i := range v {
			v[i] = float64(i) * 1.5
		}
		_ = c.Write(v)
		_ = c.WriteAttribute("scale", float64(2.5))
		s, err := fw.CreateDataset("/s", hdf5.String, []uint64{2}, hdf5.WithStringSize(8))
		if err != nil {
			return nil, err
		}
		_ = s.Write([]string{"alpha", "beta"})
		if vl, err := fw.CreateDataset("/vl", hdf5.VLenString, []uint64{2}); err == nil {
			_ = vl.Write([]string{"variable", "length"})
		}
		_ = fw.CreateHardLink("/g/alias", "/c")
		_ = fw.CreateSoftLink("/g/soft", "/s")
		if err := fw.Close(); err != nil {
			return nil, err
		}
		files = append(files, p)
	}
	return files, nil
}

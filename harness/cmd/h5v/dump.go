package main

// Projection of a whole file through the library's own reader (Open / Walk / Read* / Attributes):
// the `observe` event of the logical traces (C01 C03 C04 C10 C13 C16 C19).

import (
	"fmt"
	"math"
	"sort"
	"strings"

	hdf5 "github.com/scigolib/hdf5"

	"h5v/lib"
)

// dataDesc describes a sequence of element values canonically: count, digest, and - when all
// values are small integers and there are few of them - the values themselves so that the
// trace specification can reason about individual elements (resize, hyperslabs).
type dataDesc struct {
	N    int    `json:"n"`
	Dig  string `json:"dig"`
	Vals []int  `json:"vals"`
}

func descF64(v []float64) dataDesc {
	d := dataDesc{N: len(v), Vals: []int{}}
	parts := make([]string, len(v))
	small := len(v) <= 256
	for i, x := range v {
		parts[i] = fmt.Sprintf("%016x", math.Float64bits(x))
		if small && (x != math.Trunc(x) || math.Abs(x) > 1e6 || (x == 0 && math.Signbit(x))) {
			small = false
		}
	}
	d.Dig = lib.Hex([]byte(strings.Join(parts, "")))
	if small {
		for _, x := range v {
			d.Vals = append(d.Vals, int(x))
		}
	}
	return d
}

func descStrings(v []string) dataDesc {
	d := dataDesc{N: len(v), Vals: []int{}}
	var sb strings.Builder
	for _, s := range v {
		fmt.Fprintf(&sb, "%d:%s|", len(s), s)
	}
	d.Dig = lib.Hex([]byte(sb.String()))
	return d
}

var noData = dataDesc{N: -1, Dig: "none", Vals: []int{}}

type readRes struct {
	Res  string   `json:"res"` // ok | err | panic
	Data dataDesc `json:"data"`
}

type dsObs struct {
	Info    string   `json:"info"` // ok | err
	Dims    []int    `json:"dims"`
	Max     []int    `json:"max"` // -1 = unlimited; empty = none recorded
	Cls     int      `json:"cls"`
	Size    int      `json:"size"`
	Sign    int      `json:"sign"`
	Detail  string   `json:"detail"` // enumeration members as "name=value;..."; "?" = this view does not expose them
	Chunked bool     `json:"chunked"`
	Chunk   []int    `json:"chunk"`
	F64     readRes  `json:"f64"`
	Str     readRes  `json:"str"`
	Cmp     readRes  `json:"cmp"`
	Raw     readRes  `json:"raw"` // the stored bytes (independent decoder only; "unsupported" elsewhere)
	Attrs   attrsObs `json:"attrs"`
}

type attrsObs struct {
	Res  string                   `json:"res"`
	List []map[string]interface{} `json:"list"`
}

type treeEnt struct {
	P    string   `json:"p"`
	PC   []string `json:"pc"`
	K    string   `json:"k"` // group | dataset | other
	Addr string   `json:"addr"`
}

func toInts(u []uint64) []int {
	out := make([]int, 0, len(u))
	for _, x := range u {
		if x == hdf5.Unlimited {
			out = append(out, -1)
		} else if x > 1<<30 {
			out = append(out, 1<<30)
		} else {
			out = append(out, int(x))
		}
	}
	return out
}

// dumpFile opens path and projects everything reachable. names maps concrete attribute names
// back to abstract ones (may be nil).
func dumpFile(path string, back map[string]string) lib.Ev {
	ev := lib.Ev{"op": "observe", "open": "ok", "tree": []treeEnt{}, "ds": map[string]dsObs{}, "gattrs": map[string]attrsObs{}}
	var f *hdf5.File
	res, msg := lib.Call(func() error {
		var err error
		f, err = hdf5.Open(path)
		return err
	})
	if res != "ok" {
		ev["open"], ev["msg"] = res, msg
		return ev
	}
	defer f.Close()
	tree := []treeEnt{}
	ds := map[string]dsObs{}
	ga := map[string]attrsObs{}
	res, msg = lib.Call(func() error {
		f.Walk(func(p string, o hdf5.Object) {
			if p != "/" {
				p = strings.TrimSuffix(p, "/")
			}
			switch t := o.(type) {
			case *hdf5.Group:
				tree = append(tree, treeEnt{P: p, PC: comps(p), K: "group", Addr: fmt.Sprintf("%d", t.VerifAddress())})
				ga[p] = projectAttrs(func() ([]*attrPtr, error) { return t.Attributes() }, back)
			case *hdf5.Dataset:
				tree = append(tree, treeEnt{P: p, PC: comps(p), K: "dataset", Addr: fmt.Sprintf("%d", t.Address())})
				ds[p] = projectDataset(t, back)
			default:
				tree = append(tree, treeEnt{P: p, PC: comps(p), K: "other", Addr: "0"})
			}
		})
		return nil
	})
	if res != "ok" {
		ev["open"], ev["msg"] = "walk-"+res, msg
	}
	sort.SliceStable(tree, func(i, j int) bool { return tree[i].P < tree[j].P })
	ev["tree"], ev["ds"], ev["gattrs"] = tree, ds, ga
	return ev
}

func projectAttrs(get func() ([]*attrPtr, error), back map[string]string) attrsObs {
	out := attrsObs{Res: "ok", List: []map[string]interface{}{}}
	res, _ := lib.Call(func() error {
		as, err := get()
		if err != nil {
			out.Res = "err"
			return nil
		}
		for _, a := range as {
			out.List = append(out.List, projectAttr(a, back))
		}
		return nil
	})
	if res != "ok" {
		out.Res = res
	}
	return out
}

func projectDataset(d *hdf5.Dataset, back map[string]string) dsObs {
	o := dsObs{Info: "ok", Dims: []int{}, Max: []int{}, Chunk: []int{}, Cls: -1, Detail: "?", Raw: readRes{Res: "unsupported", Data: noData}}
	res, _ := lib.Call(func() error {
		info, err := d.VerifInfo()
		if err != nil {
			return err
		}
		o.Dims = toInts(info.Dataspace.Dimensions)
		o.Max = toInts(info.Dataspace.MaxDims)
		o.Cls, o.Size = int(info.Datatype.Class), int(info.Datatype.Size)
		if info.Datatype.Class == 0 && info.Datatype.ClassBitField&0x08 != 0 {
			o.Sign = 1
		}
		o.Chunked = info.Layout.Class == 2
		if o.Chunked {
			o.Chunk = toInts(info.Layout.ChunkSize)
		}
		return nil
	})
	if res != "ok" {
		o.Info = res
	}
	o.F64 = readRes{Data: noData}
	o.F64.Res, _ = lib.Call(func() error {
		v, err := d.Read()
		if err != nil {
			return err
		}
		o.F64.Data = descF64(v)
		return nil
	})
	o.Str = readRes{Data: noData}
	o.Str.Res, _ = lib.Call(func() error {
		v, err := d.ReadStrings()
		if err != nil {
			return err
		}
		o.Str.Data = descStrings(v)
		return nil
	})
	o.Cmp = readRes{Data: noData}
	o.Cmp.Res, _ = lib.Call(func() error {
		v, err := d.ReadCompound()
		if err != nil {
			return err
		}
		o.Cmp.Data = descCompound(v)
		return nil
	})
	o.Attrs = projectAttrs(func() ([]*attrPtr, error) { return d.Attributes() }, back)
	return o
}

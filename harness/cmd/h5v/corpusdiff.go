package main

// corpusdiff: the library's reader against the independent decoder on reference files (exploration tool, no verdict).
// For every file both views are rendered in the shape of an "observe" event and compared: the set of paths with
// their kinds, per dataset shape / class / size / values, per object the attribute names and values.

import (
	"encoding/json"
	"fmt"
	"reflect"
	"sort"

	"h5v/lib"
)

func runCorpusDiff(args []string) {
	in, out, _, _, workers := stdFlags("corpusdiff", args)
	raw, err := lib.ReadCases(in)
	lib.Must(err, "read file list")
	tr := lib.NewTrace()
	lib.ForEach(len(raw), workers, func(i int) {
		var c struct {
			File string `json:"file"`
		}
		lib.Must(json.Unmarshal(raw[i], &c), "parse case")
		ev := lib.Ev{"op": "diff", "file": c.File, "diffs": []string{}}
		var libv, indv lib.Ev
		res, msg := lib.Call(func() error {
			libv = dumpFile(c.File, nil)
			indv, _ = indepObserve(c.File, nil)
			return nil
		})
		if res != "ok" {
			ev["diffs"] = []string{"driver " + res + ": " + msg}
			tr.Put(i, []lib.Ev{ev})
			return
		}
		ev["libopen"], ev["indopen"] = libv["open"], indv["open"]
		diffs := []string{}
		if libv["open"] != "ok" || indv["open"] != "ok" {
			if libv["open"] != indv["open"] {
				diffs = append(diffs, fmt.Sprintf("open: library=%v (%v) decoder=%v (%v)", libv["open"], libv["msg"], indv["open"], indv["msg"]))
			}
			ev["diffs"] = diffs
			tr.Put(i, []lib.Ev{ev})
			return
		}
		lt, it := map[string]string{}, map[string]string{}
		for _, e := range libv["tree"].([]treeEnt) {
			lt[e.P] = e.K
		}
		for _, e := range indv["tree"].([]treeEnt) {
			it[e.P] = e.K
		}
		paths := map[string]bool{}
		for p := range lt {
			paths[p] = true
		}
		for p := range it {
			paths[p] = true
		}
		keys := make([]string, 0, len(paths))
		for p := range paths {
			keys = append(keys, p)
		}
		sort.Strings(keys)
		lds, ids := libv["ds"].(map[string]dsObs), indv["ds"].(map[string]dsObs)
		lga, iga := libv["gattrs"].(map[string]attrsObs), indv["gattrs"].(map[string]attrsObs)
		names := func(a attrsObs) []string {
			out := []string{}
			for _, m := range a.List {
				out = append(out, fmt.Sprint(m["name"]))
			}
			sort.Strings(out)
			return out
		}
		for _, p := range keys {
			lk, lok := lt[p]
			ik, iok := it[p]
			switch {
			case !lok:
				diffs = append(diffs, fmt.Sprintf("%s: decoder sees a %s, library nothing", p, ik))
				continue
			case !iok:
				diffs = append(diffs, fmt.Sprintf("%s: library sees a %s, decoder nothing", p, lk))
				continue
			case lk != ik:
				diffs = append(diffs, fmt.Sprintf("%s: kind library=%s decoder=%s", p, lk, ik))
				continue
			}
			var la, ia attrsObs
			if lk == "dataset" {
				l, d := lds[p], ids[p]
				if l.Info == "ok" && d.Info == "ok" {
					if !reflect.DeepEqual(l.Dims, d.Dims) {
						diffs = append(diffs, fmt.Sprintf("%s: dims library=%v decoder=%v", p, l.Dims, d.Dims))
					}
					if l.Cls != d.Cls || l.Size != d.Size {
						diffs = append(diffs, fmt.Sprintf("%s: type library=%d/%d decoder=%d/%d", p, l.Cls, l.Size, d.Cls, d.Size))
					}
					if l.F64.Res == "ok" && d.F64.Res == "ok" && !reflect.DeepEqual(l.F64.Data, d.F64.Data) {
						diffs = append(diffs, fmt.Sprintf("%s: numeric values differ (n=%d/%d)", p, l.F64.Data.N, d.F64.Data.N))
					}
					if l.F64.Res != "ok" && d.F64.Res == "ok" && (d.Cls == 0 || d.Cls == 1) {
						diffs = append(diffs, fmt.Sprintf("%s: library cannot read numeric values (%s), decoder can (n=%d)", p, l.F64.Res, d.F64.Data.N))
					}
					if l.Str.Res == "ok" && d.Str.Res == "ok" && !reflect.DeepEqual(l.Str.Data, d.Str.Data) {
						diffs = append(diffs, fmt.Sprintf("%s: string values differ", p))
					}
				} else if l.Info != d.Info {
					diffs = append(diffs, fmt.Sprintf("%s: dataset info library=%s decoder=%s", p, l.Info, d.Info))
				}
				la, ia = l.Attrs, d.Attrs
			} else if lk == "group" {
				la, ia = lga[p], iga[p]
			} else {
				continue
			}
			if la.Res == "ok" && ia.Res == "ok" {
				ln, inn := names(la), names(ia)
				if !reflect.DeepEqual(ln, inn) {
					diffs = append(diffs, fmt.Sprintf("%s: attribute names library=%v decoder=%v", p, ln, inn))
				}
			} else if la.Res != ia.Res {
				diffs = append(diffs, fmt.Sprintf("%s: attribute list library=%s decoder=%s", p, la.Res, ia.Res))
			}
		}
		if len(diffs) > 12 {
			diffs = append(diffs[:12], fmt.Sprintf("... %d more", len(diffs)-12))
		}
		ev["diffs"] = diffs
		ev["objects"] = len(keys)
		tr.Put(i, []lib.Ev{ev})
	})
	n, err := tr.WriteFile(out)
	lib.Must(err, "write trace")
	fmt.Printf("corpusdiff: files=%d events=%d\n", len(raw), n)
}

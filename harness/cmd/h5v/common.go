package main

import (
	"time"

	hdf5 "github.com/scigolib/hdf5"
	"github.com/scigolib/hdf5/verifapi"

	"h5v/lib"
)

func registerMore() {}

// projectAttr maps an attribute returned by the library's reader to the descriptor keys the
// trace specification compares, using exported fields only.
func projectAttr(a *verifapi.Attribute, back map[string]string) map[string]interface{} {
	m := map[string]interface{}{"name": a.Name}
	if abs, ok := back[a.Name]; ok {
		m["n"] = abs
	} else {
		m["n"] = "?" + a.Name
	}
	d := lib.ValDesc{Dims: []int{}}
	if a.Datatype != nil {
		d.Cls = int(a.Datatype.Class)
		d.Size = int(a.Datatype.Size)
		if a.Datatype.Class == 0 && a.Datatype.ClassBitField&0x08 != 0 {
			d.Sign = 1
		}
	} else {
		d.Cls = -1
	}
	if a.Dataspace != nil {
		for _, x := range a.Dataspace.Dimensions {
			d.Dims = append(d.Dims, int(x))
		}
	}
	if len(d.Dims) == 0 { // scalar dataspace == one element
		d.Dims = []int{1}
	}
	d.Data = lib.Hex(a.Data)
	var rv interface{}
	var err error
	res, _ := lib.Call(func() error { rv, err = a.ReadValue(); return nil })
	if res != "panic" && err != nil {
		// a caller who asks again after an error: the handle must still answer (with an error or a value), not panic
		res, _ = lib.Call(func() error { rv, err = a.ReadValue(); return nil })
	}
	if res == "panic" {
		d.RV = "panic"
	} else {
		d.RV = lib.CanonRead(rv, err)
	}
	m["val"] = d
	return m
}

// rebalanceOpts maps a configuration tag to file-writer options (C19).
func rebalanceOpts(tag string) []interface{} {
	switch tag {
	case "", "default":
		return nil
	case "off":
		return []interface{}{hdf5.WithBTreeRebalancing(false)}
	case "on":
		return []interface{}{hdf5.WithBTreeRebalancing(true)}
	case "lazy05":
		return []interface{}{hdf5.WithLazyRebalancing(hdf5.LazyThreshold(0.05))}
	case "lazy01":
		return []interface{}{hdf5.WithLazyRebalancing(hdf5.LazyThreshold(0.01), hdf5.LazyBatchSize(1))}
	case "lazy100":
		return []interface{}{hdf5.WithLazyRebalancing(hdf5.LazyThreshold(1.0), hdf5.LazyMaxDelay(time.Nanosecond))}
	case "incr":
		return []interface{}{hdf5.WithLazyRebalancing(), hdf5.WithIncrementalRebalancing(hdf5.IncrementalBudget(time.Microsecond), hdf5.IncrementalInterval(time.Microsecond))}
	case "incrms":
		return []interface{}{hdf5.WithLazyRebalancing(), hdf5.WithIncrementalRebalancing(hdf5.IncrementalBudget(time.Millisecond), hdf5.IncrementalInterval(time.Millisecond))}
	case "smart":
		return []interface{}{hdf5.WithSmartRebalancing(hdf5.SmartAutoDetect(true), hdf5.SmartAutoSwitch(true))}
	// extreme but legal option values
	case "lazy0": // threshold 0: every underflow triggers the batch at once; no delay; batch of 1
		return []interface{}{hdf5.WithLazyRebalancing(hdf5.LazyThreshold(0), hdf5.LazyMaxDelay(0), hdf5.LazyBatchSize(1))}
	case "lazybig": // never by threshold, never by delay, everything in one batch
		return []interface{}{hdf5.WithLazyRebalancing(hdf5.LazyThreshold(1.0), hdf5.LazyMaxDelay(1000*time.Hour), hdf5.LazyBatchSize(1<<30))}
	case "incr0": // a budget of zero, the shortest interval, with a progress callback
		return []interface{}{hdf5.WithLazyRebalancing(), hdf5.WithIncrementalRebalancing(hdf5.IncrementalBudget(0), hdf5.IncrementalInterval(time.Nanosecond),
			hdf5.IncrementalProgressCallback(func(verifapi.RebalancingProgress) {}))}
	case "smartall": // every mode allowed, no minimum size, a mode-change callback
		return []interface{}{hdf5.WithSmartRebalancing(hdf5.SmartAutoDetect(true), hdf5.SmartAutoSwitch(true), hdf5.SmartMinFileSize(0),
			hdf5.SmartAllowedModes("none", "lazy", "incremental"), hdf5.SmartOnModeChange(func(hdf5.ModeDecision) {}))}
	case "smartoff":
		return []interface{}{hdf5.WithSmartRebalancing(hdf5.SmartAutoDetect(false), hdf5.SmartAutoSwitch(false), hdf5.SmartAllowedModes("none"))}
	}
	return nil
}

package main

// C11 driver: metadata codec round trips.  Every value enumerated by TLC from Codec.tla is
// built as the Go value the library's encoder takes, encoded twice (determinism), decoded with the
// library's decoder(s) and projected back to the record shape of the specification; C11Trace
// compares the projection with Exp(v) field by field.

import (
	"bytes"
	"encoding/binary"
	"encoding/json"
	"fmt"
	"strconv"
	"strings"

	"github.com/scigolib/hdf5/verifapi"

	"h5v/lib"
)

type c11Case struct {
	Kind   string                 `json:"kind"`
	V      map[string]interface{} `json:"v"`
	Must   bool                   `json:"must"`
	Refuse bool                   `json:"refuse"`
}

type jm = map[string]interface{}

func runC11(args []string) {
	in, out, _, _, workers := stdFlags("c11", args)
	raw, err := lib.ReadCases(in)
	lib.Must(err, "read cases")
	tr := lib.NewTrace()
	lib.ForEach(len(raw), workers, func(i int) {
		var c c11Case
		lib.Must(json.Unmarshal(raw[i], &c), "parse case")
		tr.Put(i, c11One(&c))
	})
	n, err := tr.WriteFile(out)
	lib.Must(err, "write trace")
	fmt.Printf("c11: cases=%d events=%d\n", len(raw), n)
}

// ---- accessors for the decoded JSON of a specification value
func gi(m jm, k string) int {
	switch x := m[k].(type) {
	case float64:
		return int(x)
	case string:
		n, _ := strconv.Atoi(x)
		return n
	}
	return 0
}
func gs(m jm, k string) string { s, _ := m[k].(string); return s }
func gb(m jm, k string) bool   { b, _ := m[k].(bool); return b }
func gm(m jm, k string) jm     { r, _ := m[k].(map[string]interface{}); return r }
func gl(m jm, k string) []interface{} {
	r, _ := m[k].([]interface{})
	return r
}
func gu(m jm, k string) uint64 { return pu(gs(m, k)) }
func pu(s string) uint64 {
	n, err := strconv.ParseUint(s, 10, 64)
	if err != nil {
		panic("bad u64 " + s)
	}
	return n
}
func us(u uint64) string { return strconv.FormatUint(u, 10) }
func ustrs(xs []uint64) []string {
	r := make([]string, 0, len(xs))
	for _, x := range xs {
		r = append(r, us(x))
	}
	return r
}
func ulist(l []interface{}) []uint64 {
	r := make([]uint64, 0, len(l))
	for _, x := range l {
		switch y := x.(type) {
		case string:
			r = append(r, pu(y))
		case float64:
			r = append(r, uint64(y))
		}
	}
	return r
}

// c11Name builds the name of length n the same way every time.
func c11Name(n int) string {
	var b strings.Builder
	for i := 0; i < n; i++ {
		b.WriteByte(byte('a' + (i*7+i/26)%26))
	}
	return b.String()
}

func c11Fill(n int, salt int) []byte {
	b := make([]byte, n)
	for i := range b {
		b[i] = byte(1 + (i*31+salt*17)%250)
	}
	return b
}

type memFile struct{ b []byte }

func (m *memFile) WriteAt(p []byte, off int64) (int, error) {
	end := int(off) + len(p)
	if end > len(m.b) {
		m.b = append(m.b, make([]byte, end-len(m.b))...)
	}
	copy(m.b[off:], p)
	return len(p), nil
}
func (m *memFile) ReadAt(p []byte, off int64) (int, error) {
	if int(off) >= len(m.b) {
		return 0, fmt.Errorf("EOF")
	}
	n := copy(p, m.b[off:])
	if n < len(p) {
		return n, fmt.Errorf("EOF")
	}
	return n, nil
}

func c11Sb(m jm) *verifapi.Superblock {
	s := gm(m, "sb")
	osz, lsz := 8, 8
	if s != nil {
		osz, lsz = gi(s, "osz"), gi(s, "lsz")
	}
	ver := 2
	if s != nil {
		if _, has := s["ver"]; has {
			ver = gi(s, "ver")
		}
	}
	return &verifapi.Superblock{Version: uint8(ver), OffsetSize: uint8(osz), LengthSize: uint8(lsz), Endianness: binary.LittleEndian}
}

func basicMsg(t jm) *verifapi.DatatypeMessage {
	return &verifapi.DatatypeMessage{Class: verifapi.DatatypeClass(gi(t, "c")), Version: 1, Size: uint32(gi(t, "size")), ClassBitField: uint32(gi(t, "bits"))}
}

func projBase(dt *verifapi.DatatypeMessage) jm {
	return jm{"class": int(dt.Class), "size": int(dt.Size), "bits": int(dt.ClassBitField)}
}

// memberMsg builds the datatype of a compound member; class 6 stands for the nested {int32, float64}.
func memberMsg(t jm) (*verifapi.DatatypeMessage, error) {
	if gi(t, "c") == 6 {
		i32, _ := verifapi.CreateBasicDatatypeMessage(verifapi.DatatypeFixed, 4)
		f64, _ := verifapi.CreateBasicDatatypeMessage(verifapi.DatatypeFloat, 8)
		return verifapi.CreateCompoundTypeFromFields([]verifapi.CompoundFieldDef{{Name: "x", Offset: 0, Type: i32}, {Name: "y", Offset: 4, Type: f64}})
	}
	b, err := verifapi.EncodeDatatypeMessage(basicMsg(t))
	if err != nil {
		return nil, err
	}
	return verifapi.ParseDatatypeMessage(b)
}

var c11MemberNames = []string{"a", "bcdefgh", "ijklmnop", "qrstuvwxy"}
var c11EnumNames = []string{"R", "GREEN12", "BLUE1234", "X23456789"}

// c11Codec returns the encoder and the decoder/projection of one value.
func c11Codec(kind string, v jm) (enc func() ([]byte, error), dec func([]byte) (jm, error)) {
	switch kind {
	case "dt_basic":
		t := gm(v, "t")
		enc = func() ([]byte, error) { return verifapi.EncodeDatatypeMessage(basicMsg(t)) }
		dec = func(b []byte) (jm, error) {
			dt, err := verifapi.ParseDatatypeMessage(b)
			if err != nil {
				return nil, err
			}
			return jm{"class": int(dt.Class), "ver": int(dt.Version), "size": int(dt.Size), "bits": int(dt.ClassBitField), "plen": len(dt.Properties)}, nil
		}
	case "dt_opaque":
		enc = func() ([]byte, error) {
			return verifapi.EncodeDatatypeMessage(&verifapi.DatatypeMessage{Class: 5, Version: 1, Size: uint32(gi(v, "size")), Properties: []byte(opaqueTag(gm(v, "tag")))})
		}
		dec = func(b []byte) (jm, error) {
			dt, err := verifapi.ParseDatatypeMessage(b)
			if err != nil {
				return nil, err
			}
			tag := string(bytes.TrimRight(dt.Properties, "\x00"))
			taglen := len(tag)
			if seed := gs(gm(v, "tag"), "s"); tag == opaqueTag(gm(v, "tag")) {
				tag = seed // long tags are reported by their seed when they came back whole
			}
			return jm{"class": int(dt.Class), "ver": int(dt.Version), "size": int(dt.Size), "bits": int(dt.ClassBitField), "tag": tag, "taglen": taglen, "plen": len(dt.Properties)}, nil
		}
	case "dt_vlen":
		enc = func() ([]byte, error) {
			base, err := verifapi.EncodeDatatypeMessage(basicMsg(gm(v, "base")))
			if err != nil {
				return nil, err
			}
			return verifapi.EncodeDatatypeMessage(&verifapi.DatatypeMessage{Class: 9, Version: 1, Size: 16, ClassBitField: uint32(gi(v, "bits")), Properties: base})
		}
		dec = func(b []byte) (jm, error) {
			dt, err := verifapi.ParseDatatypeMessage(b)
			if err != nil {
				return nil, err
			}
			base, err := verifapi.ParseDatatypeMessage(dt.Properties)
			if err != nil {
				return nil, fmt.Errorf("base: %w", err)
			}
			return jm{"class": int(dt.Class), "ver": int(dt.Version), "size": int(dt.Size), "bits": int(dt.ClassBitField), "base": projBase(base)}, nil
		}
	case "dt_array":
		dims := ulist(gl(v, "dims"))
		bt := gm(v, "base")
		enc = func() ([]byte, error) {
			base, err := verifapi.EncodeDatatypeMessage(basicMsg(bt))
			if err != nil {
				return nil, err
			}
			size := uint32(gi(bt, "size"))
			for _, d := range dims {
				size *= uint32(d)
			}
			return verifapi.EncodeArrayDatatypeMessage(base, dims, size)
		}
		dec = func(b []byte) (jm, error) {
			dt, err := verifapi.ParseDatatypeMessage(b)
			if err != nil {
				return nil, err
			}
			// the library has no decoder for array properties; rank, dimensions and base type are
			// read here at the positions the format gives them (version 3: rank, 4-byte dims, base)
			p := dt.Properties
			r := jm{"class": int(dt.Class), "ver": int(dt.Version), "size": int(dt.Size), "bits": int(dt.ClassBitField), "plen": len(p)}
			if len(p) < 1 || len(p) < 1+4*int(p[0])+8 {
				return nil, fmt.Errorf("array properties too short")
			}
			ds := []int{}
			for i := 0; i < int(p[0]); i++ {
				ds = append(ds, int(binary.LittleEndian.Uint32(p[1+4*i:])))
			}
			r["dims"] = ds
			base, err := verifapi.ParseDatatypeMessage(p[1+4*int(p[0]):])
			if err != nil {
				return nil, fmt.Errorf("base: %w", err)
			}
			r["base"] = projBase(base)
			return r, nil
		}
	case "dt_enum":
		bt := gm(v, "base")
		n := gi(v, "n")
		enc = func() ([]byte, error) {
			base, err := verifapi.EncodeDatatypeMessage(basicMsg(bt))
			if err != nil {
				return nil, err
			}
			sz := gi(bt, "size")
			vals := make([]byte, n*sz)
			for i := 0; i < n; i++ {
				vals[i*sz] = byte(i + 1)
			}
			return verifapi.EncodeEnumDatatypeMessage(base, c11EnumNames[:n], vals, uint32(sz))
		}
		dec = func(b []byte) (jm, error) {
			dt, err := verifapi.ParseDatatypeMessage(b)
			if err != nil {
				return nil, err
			}
			p := dt.Properties
			base, err := verifapi.ParseDatatypeMessage(p)
			if err != nil {
				return nil, fmt.Errorf("base: %w", err)
			}
			// format specification, enumeration class: the member names follow the base type (8 + 4 bytes), each
			// NUL-terminated (padded to 8 only before version 3), then all values
			off := 8 + len(base.Properties)
			names := []string{}
			nm := int(dt.ClassBitField & 0xffff)
			for i := 0; i < nm && off < len(p); i++ {
				e := bytes.IndexByte(p[off:], 0)
				if e < 0 {
					return nil, fmt.Errorf("enum name %d not terminated", i)
				}
				names = append(names, string(p[off:off+e]))
				if dt.Version < 3 {
					off += ((e + 1 + 7) / 8) * 8
				} else {
					off += e + 1
				}
			}
			if off+nm*int(dt.Size) != len(p) {
				return nil, fmt.Errorf("enum: %d bytes after the names, %d members of %d bytes", len(p)-off, nm, dt.Size)
			}
			for i := 0; i < nm; i++ {
				if p[off+i*int(dt.Size)] != byte(i+1) {
					return nil, fmt.Errorf("enum value %d is %d", i, p[off+i*int(dt.Size)])
				}
			}
			return jm{"class": int(dt.Class), "ver": int(dt.Version), "size": int(dt.Size), "bits": int(dt.ClassBitField), "base": projBase(base), "names": names}, nil
		}
	case "dt_compound":
		ms := gl(v, "members")
		ver := gi(v, "ver")
		enc = func() ([]byte, error) {
			var fields []verifapi.CompoundFieldDef
			off := uint32(0)
			for i, x := range ms {
				mt, err := memberMsg(x.(map[string]interface{}))
				if err != nil {
					return nil, err
				}
				fields = append(fields, verifapi.CompoundFieldDef{Name: c11MemberNames[i], Offset: off, Type: mt})
				off += mt.Size
			}
			if ver == 1 {
				return verifapi.EncodeCompoundDatatypeV1(off, fields)
			}
			return verifapi.EncodeCompoundDatatypeV3(off, fields)
		}
		dec = func(b []byte) (jm, error) {
			dt, err := verifapi.ParseDatatypeMessage(b)
			if err != nil {
				return nil, err
			}
			ct, err := verifapi.ParseCompoundType(dt)
			if err != nil {
				return nil, err
			}
			mem := []jm{}
			for _, m := range ct.Members {
				mem = append(mem, jm{"name": m.Name, "off": int(m.Offset), "class": int(m.Type.Class), "size": int(m.Type.Size)})
			}
			return jm{"class": int(dt.Class), "ver": int(dt.Version), "size": int(ct.Size), "members": mem}, nil
		}
	case "dt_compound_n":
		n, ver := gi(v, "n"), gi(v, "ver")
		enc = func() ([]byte, error) {
			fields := make([]verifapi.CompoundFieldDef, 0, n)
			for i := 0; i < n; i++ {
				mt, err := memberMsg(jm{"c": float64(0), "size": float64(4), "bits": float64(8)})
				if err != nil {
					return nil, err
				}
				fields = append(fields, verifapi.CompoundFieldDef{Name: fmt.Sprintf("m%d", i), Offset: uint32(4 * i), Type: mt})
			}
			if ver == 1 {
				return verifapi.EncodeCompoundDatatypeV1(uint32(4*n), fields)
			}
			return verifapi.EncodeCompoundDatatypeV3(uint32(4*n), fields)
		}
		dec = func(b []byte) (jm, error) {
			dt, err := verifapi.ParseDatatypeMessage(b)
			if err != nil {
				return nil, err
			}
			ct, err := verifapi.ParseCompoundType(dt)
			if err != nil {
				return nil, err
			}
			out := jm{"class": int(dt.Class), "ver": int(dt.Version), "size": int(ct.Size), "n": len(ct.Members), "lastoff": -1, "lastname": ""}
			if k := len(ct.Members); k > 0 {
				out["lastoff"], out["lastname"] = int(ct.Members[k-1].Offset), ct.Members[k-1].Name
			}
			return out, nil
		}
	case "dataspace":
		dims, max := ulist(gl(v, "dims")), ulist(gl(v, "max"))
		enc = func() ([]byte, error) {
			if len(max) == 0 {
				max = nil
			}
			return verifapi.EncodeDataspaceMessage(dims, max)
		}
		dec = func(b []byte) (jm, error) {
			ds, err := verifapi.ParseDataspaceMessage(b)
			if err != nil {
				return nil, err
			}
			return jm{"ver": int(ds.Version), "type": int(ds.Type), "dims": ustrs(ds.Dimensions), "max": ustrs(ds.MaxDims)}, nil
		}
	case "layout":
		sb := c11Sb(v)
		enc = func() ([]byte, error) {
			return verifapi.EncodeLayoutMessage(verifapi.DataLayoutClass(gi(v, "class")), gu(v, "size"), gu(v, "addr"), sb, ulist(gl(v, "cdims")))
		}
		dec = func(b []byte) (jm, error) {
			l, err := verifapi.ParseDataLayoutMessage(b, sb)
			if err != nil {
				return nil, err
			}
			return jm{"ver": int(l.Version), "class": int(l.Class), "addr": us(l.DataAddress), "size": us(l.DataSize), "cdims": ustrs(l.ChunkSize)}, nil
		}
	case "pipeline":
		enc = func() ([]byte, error) {
			fp := verifapi.NewFilterPipeline()
			for _, k := range gl(v, "pipe") {
				switch k.(string) {
				case "deflate":
					fp.AddFilter(verifapi.NewGZIPFilter(gi(v, "level")))
				case "shuffle":
					fp.AddFilter(verifapi.NewShuffleFilter(uint32(gi(v, "width"))))
				case "fletcher32":
					fp.AddFilter(verifapi.NewFletcher32Filter())
				case "lzf":
					fp.AddFilter(verifapi.NewLZFFilter())
				}
			}
			return fp.EncodePipelineMessage()
		}
		dec = func(b []byte) (jm, error) {
			m, err := verifapi.ParseFilterPipelineMessage(b)
			if err != nil {
				return nil, err
			}
			ids := []int{}
			for _, f := range m.Filters {
				ids = append(ids, int(f.ID))
			}
			return jm{"n": len(m.Filters), "ids": ids}, nil
		}
	case "attr":
		name := c11Name(gi(v, "name"))
		t := gm(v, "t")
		dims := ulist(gl(v, "dims"))
		n := uint64(gi(t, "size"))
		for _, d := range dims {
			n *= d
		}
		data := c11Fill(int(n), len(name))
		enc = func() ([]byte, error) {
			a := &verifapi.Attribute{Name: name, Datatype: basicMsg(t), Dataspace: &verifapi.DataspaceMessage{Version: 1, Type: 1, Dimensions: dims}, Data: data}
			return verifapi.EncodeAttributeFromStruct(a, c11Sb(v))
		}
		dec = func(b []byte) (jm, error) {
			a, err := verifapi.ParseAttributeMessage(b, binary.LittleEndian)
			if err != nil {
				return nil, err
			}
			r := jm{"name_n": len(a.Name), "name_ok": a.Name == name, "data_ok": bytes.Equal(a.Data, data)}
			if a.Datatype != nil {
				r["class"], r["size"], r["bits"] = int(a.Datatype.Class), int(a.Datatype.Size), int(a.Datatype.ClassBitField)
			}
			if a.Dataspace != nil {
				r["dims"] = ustrs(a.Dataspace.Dimensions)
			}
			return r, nil
		}
	case "ainfo":
		sb := c11Sb(v)
		enc = func() ([]byte, error) {
			return verifapi.EncodeAttributeInfoMessage(&verifapi.AttributeInfoMessage{Version: 0, Flags: uint8(gi(v, "flags")), MaxCreationIndex: uint64(gi(v, "maxci")),
				FractalHeapAddr: gu(v, "fh"), BTreeNameIndexAddr: gu(v, "bt"), BTreeOrderIndexAddr: gu(v, "bto")}, sb)
		}
		dec = func(b []byte) (jm, error) {
			m, err := verifapi.ParseAttributeInfoMessage(b, sb)
			if err != nil {
				return nil, err
			}
			return jm{"ver": int(m.Version), "flags": int(m.Flags), "maxci": int(m.MaxCreationIndex), "fh": us(m.FractalHeapAddr), "bt": us(m.BTreeNameIndexAddr), "bto": us(m.BTreeOrderIndexAddr)}, nil
		}
	case "linfo":
		sb := c11Sb(v)
		enc = func() ([]byte, error) {
			return verifapi.EncodeLinkInfoMessage(&verifapi.LinkInfoMessage{Version: 0, Flags: uint8(gi(v, "flags")), MaxCreationOrder: int64(gu(v, "maxco")),
				FractalHeapAddress: gu(v, "fh"), NameBTreeAddress: gu(v, "bt"), CreationOrderBTreeAddress: gu(v, "bto")}, sb)
		}
		dec = func(b []byte) (jm, error) {
			m, err := verifapi.ParseLinkInfoMessage(b, sb)
			if err != nil {
				return nil, err
			}
			return jm{"ver": int(m.Version), "flags": int(m.Flags), "maxco": us(uint64(m.MaxCreationOrder)), "fh": us(m.FractalHeapAddress), "bt": us(m.NameBTreeAddress), "bto": us(m.CreationOrderBTreeAddress)}, nil
		}
	case "link":
		return c11Link(v)
	case "sb":
		enc = func() ([]byte, error) {
			sb := &verifapi.Superblock{Version: uint8(gi(v, "ver")), OffsetSize: 8, LengthSize: 8, Endianness: binary.LittleEndian, BaseAddress: gu(v, "base"),
				RootGroup: gu(v, "root"), SuperExtension: gu(v, "ext"), RootBTreeAddr: gu(v, "rbt"), RootHeapAddr: gu(v, "rheap")}
			f := &memFile{}
			if err := sb.WriteTo(f, gu(v, "eof")); err != nil {
				return nil, err
			}
			return f.b, nil
		}
		dec = func(b []byte) (jm, error) {
			f := &memFile{b: append(append([]byte{}, b...), make([]byte, 128)...)}
			sb, err := verifapi.ReadSuperblock(f)
			if err != nil {
				return nil, err
			}
			return jm{"ver": int(sb.Version), "osz": int(sb.OffsetSize), "lsz": int(sb.LengthSize), "base": us(sb.BaseAddress), "root": us(sb.RootGroup),
				"ext": us(sb.SuperExtension), "rbt": us(sb.RootBTreeAddr), "rheap": us(sb.RootHeapAddr)}, nil
		}
	case "ohdr":
		return c11Ohdr(v)
	}
	return
}

func c11Link(v jm) (enc func() ([]byte, error), dec func([]byte) (jm, error)) {
	sb := c11Sb(v)
	tg := gm(v, "target")
	name := c11Name(gi(v, "name"))
	flags := uint8(gi(v, "lsz"))
	lm := &verifapi.LinkMessage{Version: 1, Type: verifapi.LinkType(gi(tg, "t")), Name: name}
	if co := gs(v, "co"); co != "" {
		flags |= 0x04
		lm.CreationOrder = pu(co)
	}
	if gb(v, "tf") {
		flags |= 0x08
	}
	if cs := gs(v, "cs"); cs != "" {
		flags |= 0x10
		lm.CharSet = uint8(pu(cs))
	}
	lm.Flags = flags
	// link value built as link_write.go builds it
	switch gi(tg, "t") {
	case 0:
		val := make([]byte, sb.OffsetSize)
		a := gu(tg, "addr")
		for i := range val {
			val[i] = byte(a >> (8 * i))
		}
		lm.LinkValue = val
	case 1:
		p := gs(tg, "path")
		val := make([]byte, 2+len(p))
		binary.LittleEndian.PutUint16(val, uint16(len(p)))
		copy(val[2:], p)
		lm.LinkValue = val
	default:
		f, p := gs(tg, "file"), gs(tg, "path")
		val := make([]byte, 0, 4+len(f)+len(p))
		val = binary.LittleEndian.AppendUint16(val, uint16(len(f)))
		val = append(val, f...)
		val = binary.LittleEndian.AppendUint16(val, uint16(len(p)))
		val = append(val, p...)
		lm.LinkValue = val
	}
	enc = func() ([]byte, error) { return verifapi.EncodeLinkMessage(lm, sb) }
	dec = func(b []byte) (jm, error) {
		d, err := verifapi.ParseLinkMessage(b, sb)
		if err != nil {
			return nil, err
		}
		r := jm{"flags": int(d.Flags), "type": int(d.Type), "co": us(d.CreationOrder), "cs": us(uint64(d.CharSet)), "name_n": len(d.Name), "name_ok": d.Name == name,
			"value_ok": bytes.Equal(d.LinkValue, lm.LinkValue), "addr": "0", "path": "", "file": ""}
		switch int(d.Type) {
		case 0:
			a, err := d.GetHardLinkAddress(sb)
			if err != nil {
				return nil, fmt.Errorf("accessor: %w", err)
			}
			r["addr"] = us(a)
		case 1:
			p, err := d.GetSoftLinkPath()
			if err != nil {
				return nil, fmt.Errorf("accessor: %w", err)
			}
			r["path"] = p
		case 64:
			f, p, err := d.GetExternalLinkInfo()
			if err != nil {
				return nil, fmt.Errorf("accessor: %w", err)
			}
			r["file"], r["path"] = f, p
		}
		// the second decoder of the same message (used by the group reader)
		s2 := jm{}
		res, msg := lib.Call(func() error {
			d2, err := verifapi.ParseStructLinkMessage(b, sb)
			if err != nil {
				return err
			}
			s2 = jm{"type": int(d2.Type), "name_ok": d2.Name == name, "addr": us(d2.ObjectAddress), "path": d2.TargetPath,
				"co": us(uint64(d2.CreationOrder)), "cs": us(uint64(d2.CharacterSet))}
			return nil
		})
		s2["res"] = res
		if res != "ok" {
			s2["msg"] = msg
		}
		r["second"] = s2
		return r, nil
	}
	return
}

func c11Ohdr(v jm) (enc func() ([]byte, error), dec func([]byte) (jm, error)) {
	ver := gi(v, "ver")
	var msgs []verifapi.MessageWriter
	for i, x := range gl(v, "msgs") {
		m := x.(map[string]interface{})
		msgs = append(msgs, verifapi.MessageWriter{Type: verifapi.MessageType(gi(m, "t")), Data: c11Fill(gi(m, "len"), i+1)})
	}
	const at = 64
	enc = func() ([]byte, error) {
		w := &verifapi.ObjectHeaderWriter{Version: uint8(ver), Messages: msgs, RefCount: uint32(gi(v, "rc"))}
		f := &memFile{}
		if _, err := w.WriteTo(f, at); err != nil {
			return nil, err
		}
		return f.b, nil
	}
	dec = func(b []byte) (jm, error) {
		f := &memFile{b: append(append([]byte{}, b...), make([]byte, 64)...)}
		sb := &verifapi.Superblock{Version: 2, OffsetSize: 8, LengthSize: 8, Endianness: binary.LittleEndian}
		oh, err := verifapi.ReadObjectHeader(f, at, sb)
		if err != nil {
			return nil, err
		}
		ms := []jm{}
		for i, m := range oh.Messages {
			ok := false
			if i < len(msgs) {
				w := msgs[i].Data
				ok = len(m.Data) >= len(w) && bytes.Equal(m.Data[:len(w)], w) && len(bytes.Trim(m.Data[len(w):], "\x00")) == 0
			}
			ms = append(ms, jm{"t": int(m.Type), "len": len(m.Data), "ok": ok})
		}
		return jm{"ver": int(oh.Version), "n": len(oh.Messages), "rc": int(oh.ReferenceCount), "msgs": ms}, nil
	}
	return
}

// c11DirtyPool takes buffers of the usual sizes from the library's pool, fills them and gives them back.
func c11DirtyPool(pattern byte) {
	for _, n := range []int{8, 16, 24, 32, 48, 64, 96, 128, 256, 512, 1024, 4096} {
		var held [][]byte
		for k := 0; k < 3; k++ {
			b := verifapi.GetBuffer(n)
			for i := range b {
				b[i] = pattern
			}
			held = append(held, b)
		}
		for _, b := range held {
			verifapi.ReleaseBuffer(b)
		}
	}
}

func c11One(c *c11Case) []lib.Ev {
	ev := lib.Ev{"op": "codec", "kind": c.Kind, "v": c.V, "must": c.Must, "refuse": c.Refuse, "det": true, "dec": "skip", "d": jm{}}
	enc, dec := c11Codec(c.Kind, c.V)
	if enc == nil {
		ev["enc"], ev["msg"] = "unknown-kind", c.Kind
		return []lib.Ev{{"op": "reset"}, ev}
	}
	var b1, b2 []byte
	// an encoder must not depend on what earlier work left in the library's buffer pool: the pool is filled with one
	// pattern before the first encoding and with another before the second
	c11DirtyPool(0xA5)
	res, msg := lib.Call(func() error { var err error; b1, err = enc(); return err })
	ev["enc"] = res
	if res != "ok" {
		ev["msg"] = msg
		return []lib.Ev{{"op": "reset"}, ev}
	}
	ev["nbytes"] = len(b1)
	c11DirtyPool(0x3C)
	res2, _ := lib.Call(func() error { var err error; b2, err = enc(); return err })
	ev["det"] = res2 == "ok" && bytes.Equal(b1, b2)
	var d jm
	res, msg = lib.Call(func() error { var err error; d, err = dec(b1); return err })
	ev["dec"] = res
	if res != "ok" {
		ev["msg"] = msg
	} else {
		ev["d"] = d
	}
	return []lib.Ev{{"op": "reset"}, ev}
}

// opaqueTag builds the tag of a model value: its string, or for tags longer than the string its seed repeated n times.
func opaqueTag(t jm) string {
	s, n := gs(t, "s"), gi(t, "n")
	if n > len(s) {
		return strings.Repeat(s[:1], n)
	}
	return s
}

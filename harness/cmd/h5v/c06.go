package main

// C06 driver: what the reader returns for the files of the reference corpus.  For every file:
// open, walk, and for every object everything the public read API offers - kind, members (from the
// walk), dataset type/shape, Read / ReadStrings / ReadCompound values, attributes with ReadValue -
// written as one JSON line per file.  The comparison with the h5dump reports is not done here.

import (
	"encoding/hex"
	"encoding/json"
	"fmt"
	"math"
	"os"
	"reflect"
	"sort"
	"strconv"
	"strings"

	hdf5 "github.com/scigolib/hdf5"
	"github.com/scigolib/hdf5/verifapi"

	"h5v/lib"
)

const c06MaxVals = 70000

type c06Vals struct {
	Res  string   `json:"res"` // ok err panic
	Msg  string   `json:"msg,omitempty"`
	N    int      `json:"n"`
	Toks []string `json:"toks"` // i<dec> | f<shortest float> | s<hex> ; compound: flattened in member order
}

type c06Attr struct {
	Name string  `json:"name"`
	Cls  int     `json:"cls"`
	Size int     `json:"size"`
	Bits int     `json:"bits"`
	Dims []int   `json:"dims"`
	Hex  string  `json:"hex"`
	RV   c06Vals `json:"rv"`
}

type c06Obj struct {
	P        string    `json:"p"`
	K        string    `json:"k"`
	AttrsRes string    `json:"attrs_res"`
	AttrsMsg string    `json:"attrs_msg,omitempty"`
	Attrs    []c06Attr `json:"attrs"`
	Info     string    `json:"info,omitempty"`
	Cls      int       `json:"cls"`
	Size     int       `json:"size"`
	Bits     int       `json:"bits"`
	Dims     []int     `json:"dims"`
	Max      []int     `json:"max"`
	Layout   int       `json:"layout"`
	Members  []string  `json:"members,omitempty"` // compound member names in declaration order
	F64      *c06Vals  `json:"f64,omitempty"`
	Str      *c06Vals  `json:"str,omitempty"`
	Cmp      *c06Vals  `json:"cmp,omitempty"`
}

type c06File struct {
	File string   `json:"file"`
	Open string   `json:"open"`
	Msg  string   `json:"msg,omitempty"`
	Objs []c06Obj `json:"objs"`
}

func fstr(x float64) string {
	switch {
	case math.IsNaN(x):
		return "fnan"
	case math.IsInf(x, 1):
		return "finf"
	case math.IsInf(x, -1):
		return "f-inf"
	}
	return "f" + strconv.FormatFloat(x, 'g', -1, 64)
}

// c06Tok renders one value returned by the reader; composite values are flattened.
func c06Tok(v interface{}, out *[]string, order func(map[string]interface{}) []string) {
	switch x := v.(type) {
	case nil:
		*out = append(*out, "nil")
	case float64:
		*out = append(*out, fstr(x))
	case float32:
		*out = append(*out, "g"+strconv.FormatFloat(float64(x), 'g', -1, 32))
	case string:
		*out = append(*out, "s"+hex.EncodeToString([]byte(x)))
	case map[string]interface{}:
		for _, k := range order(x) {
			c06Tok(x[k], out, order)
		}
	default:
		rv := reflect.ValueOf(v)
		switch rv.Kind() {
		case reflect.Int8, reflect.Int16, reflect.Int32, reflect.Int64, reflect.Int:
			*out = append(*out, "i"+strconv.FormatInt(rv.Int(), 10))
		case reflect.Uint8, reflect.Uint16, reflect.Uint32, reflect.Uint64, reflect.Uint:
			*out = append(*out, "i"+strconv.FormatUint(rv.Uint(), 10))
		case reflect.Slice, reflect.Array:
			for i := 0; i < rv.Len(); i++ {
				c06Tok(rv.Index(i).Interface(), out, order)
			}
		case reflect.Map:
			keys := rv.MapKeys()
			m := map[string]interface{}{}
			for _, k := range keys {
				m[fmt.Sprint(k.Interface())] = rv.MapIndex(k).Interface()
			}
			for _, k := range order(m) {
				c06Tok(m[k], out, order)
			}
		default:
			*out = append(*out, fmt.Sprintf("?%T", v))
		}
	}
}

func c06Call(fn func() (interface{}, error), order func(map[string]interface{}) []string) *c06Vals {
	r := &c06Vals{Toks: []string{}}
	var v interface{}
	res, msg := lib.Call(func() error { var err error; v, err = fn(); return err })
	r.Res = res
	if res != "ok" {
		if len(msg) > 200 {
			msg = msg[:200]
		}
		r.Msg = msg
		return r
	}
	rv := reflect.ValueOf(v)
	if rv.IsValid() && rv.Kind() == reflect.Slice {
		r.N = rv.Len()
		n := rv.Len()
		if n > c06MaxVals {
			n = c06MaxVals
		}
		for i := 0; i < n; i++ {
			c06Tok(rv.Index(i).Interface(), &r.Toks, order)
		}
	} else {
		r.N = 1
		c06Tok(v, &r.Toks, order)
	}
	return r
}

func alphaOrder(m map[string]interface{}) []string {
	ks := make([]string, 0, len(m))
	for k := range m {
		ks = append(ks, k)
	}
	sort.Strings(ks)
	return ks
}

// memberOrder returns the declaration order of compound members (recursively by name sets).
func memberOrder(dt *verifapi.DatatypeMessage) (names []string, order func(map[string]interface{}) []string) {
	type node struct {
		names []string
		sub   map[string]*node
	}
	var build func(dt *verifapi.DatatypeMessage) *node
	build = func(dt *verifapi.DatatypeMessage) *node {
		n := &node{sub: map[string]*node{}}
		ct, err := verifapi.ParseCompoundType(dt)
		if err != nil {
			return n
		}
		for _, m := range ct.Members {
			n.names = append(n.names, m.Name)
			if m.Type != nil && m.Type.Class == 6 {
				n.sub[m.Name] = build(m.Type)
			}
		}
		return n
	}
	root := &node{sub: map[string]*node{}}
	lib.Call(func() error { root = build(dt); return nil })
	// a map is matched to the node whose name set it has
	var all []*node
	var collect func(n *node)
	collect = func(n *node) {
		all = append(all, n)
		for _, s := range n.sub {
			collect(s)
		}
	}
	collect(root)
	order = func(m map[string]interface{}) []string {
		for _, n := range all {
			if len(n.names) == len(m) {
				ok := true
				for _, k := range n.names {
					if _, has := m[k]; !has {
						ok = false
						break
					}
				}
				if ok {
					return n.names
				}
			}
		}
		return alphaOrder(m)
	}
	return root.names, order
}

func c06Attrs(get func() ([]*attrPtr, error)) (string, string, []c06Attr) {
	out := []c06Attr{}
	res, msg := lib.Call(func() error {
		as, err := get()
		if err != nil {
			return err
		}
		for _, a := range as {
			ca := c06Attr{Name: a.Name, Cls: -1, Dims: []int{}}
			if a.Datatype != nil {
				ca.Cls, ca.Size, ca.Bits = int(a.Datatype.Class), int(a.Datatype.Size), int(a.Datatype.ClassBitField)
			}
			if a.Dataspace != nil {
				ca.Dims = toInts(a.Dataspace.Dimensions)
				if a.Dataspace.Type == 0 {
					ca.Dims = []int{}
				}
			}
			if len(a.Data) <= 8192 {
				ca.Hex = lib.Hex(a.Data)
			} else {
				ca.Hex = "big"
			}
			a := a
			ca.RV = *c06Call(func() (interface{}, error) { return a.ReadValue() }, alphaOrder)
			out = append(out, ca)
		}
		return nil
	})
	if len(msg) > 200 {
		msg = msg[:200]
	}
	return res, msg, out
}

func c06Dump(path, name string) c06File {
	out := c06File{File: name, Open: "ok", Objs: []c06Obj{}}
	var f *hdf5.File
	res, msg := lib.Call(func() error { var err error; f, err = hdf5.Open(path); return err })
	if res != "ok" {
		if len(msg) > 300 {
			msg = msg[:300]
		}
		out.Open, out.Msg = res, msg
		return out
	}
	defer f.Close()
	res, msg = lib.Call(func() error {
		f.Walk(func(p string, o hdf5.Object) {
			if p != "/" {
				p = strings.TrimSuffix(p, "/")
			}
			co := c06Obj{P: p, K: "other", Attrs: []c06Attr{}, Dims: []int{}, Max: []int{}, Cls: -1}
			switch t := o.(type) {
			case *hdf5.Group:
				co.K = "group"
				co.AttrsRes, co.AttrsMsg, co.Attrs = c06Attrs(func() ([]*attrPtr, error) { return t.Attributes() })
			case *hdf5.Dataset:
				co.K = "dataset"
				var dt *verifapi.DatatypeMessage
				co.Info, _ = lib.Call(func() error {
					info, err := t.VerifInfo()
					if err != nil {
						return err
					}
					co.Cls, co.Size, co.Bits = int(info.Datatype.Class), int(info.Datatype.Size), int(info.Datatype.ClassBitField)
					co.Dims, co.Max = toInts(info.Dataspace.Dimensions), toInts(info.Dataspace.MaxDims)
					if info.Dataspace.Type == 0 {
						co.Dims = []int{}
					}
					co.Layout = int(info.Layout.Class)
					dt = info.Datatype
					return nil
				})
				order := alphaOrder
				if dt != nil && dt.Class == 6 {
					co.Members, order = memberOrder(dt)
				}
				co.F64 = c06Call(func() (interface{}, error) { return t.Read() }, order)
				co.Str = c06Call(func() (interface{}, error) { return t.ReadStrings() }, order)
				co.Cmp = c06Call(func() (interface{}, error) { return t.ReadCompound() }, order)
				co.AttrsRes, co.AttrsMsg, co.Attrs = c06Attrs(func() ([]*attrPtr, error) { return t.Attributes() })
			}
			out.Objs = append(out.Objs, co)
		})
		return nil
	})
	if res != "ok" {
		out.Open, out.Msg = "walk-"+res, msg
	}
	return out
}

func runC06(args []string) {
	in, outp, _, _, workers := stdFlags("c06", args)
	raw, err := lib.ReadCases(in)
	lib.Must(err, "read cases")
	results := make([]c06File, len(raw))
	lib.ForEach(len(raw), workers, func(i int) {
		var c struct{ Path, Name string }
		lib.Must(json.Unmarshal(raw[i], &c), "parse case")
		results[i] = c06Dump(c.Path, c.Name)
	})
	f, err := os.Create(outp)
	lib.Must(err, "create")
	enc := json.NewEncoder(f)
	for i := range results {
		lib.Must(enc.Encode(&results[i]), "encode")
	}
	f.Close()
	fmt.Printf("c06: files=%d\n", len(raw))
}

package main

// I/O log (H5V_IOLOG=1): every allocation and every write the library's low-level file writer performs while a
// history is replayed, recorded through the tag-guarded hook verifapi.SetIOHook and attached to the case as one
// "iolog" event.  LayoutTrace.tla replays the log against the allocation discipline of Layout.tla.

import (
	"os"
	"sync"

	"github.com/scigolib/hdf5/verifapi"
)

type ioRec struct {
	K string `json:"k"` // c create, o open, a alloc, w write, x close
	A int    `json:"a"`
	N int    `json:"n"`
}

var (
	ioMu   sync.Mutex
	ioLogs = map[string][]ioRec{}
	ioOn   = false
)

const ioLogCap = 3000

func ioLogInit() {
	if os.Getenv("H5V_IOLOG") == "" {
		return
	}
	ioOn = true
	verifapi.SetIOHook(func(file, kind string, addr, size uint64) {
		k := map[string]string{"begin": "c", "create": "c", "open": "o", "alloc": "a", "write": "w", "close": "x"}[kind]
		if addr > 1<<30 || size > 1<<30 {
			addr, size = 1<<30, 1<<30 // beyond what TLC integers are used for here: the judge rejects it as out of range
		}
		ioMu.Lock()
		if l := ioLogs[file]; len(l) <= ioLogCap {
			ioLogs[file] = append(l, ioRec{k, int(addr), int(size)})
		}
		ioMu.Unlock()
	})
}

// ioLogTake returns and forgets the log of one file.
func ioLogTake(file string) (recs []ioRec, tooLong bool) {
	ioMu.Lock()
	defer ioMu.Unlock()
	recs = ioLogs[file]
	delete(ioLogs, file)
	if len(recs) > ioLogCap {
		return []ioRec{}, true
	}
	if recs == nil {
		recs = []ioRec{}
	}
	return recs, false
}

package main

// C17 driver: truncated files and failing I/O.
//   -mode project  : project one file through every read API and write the flattened results as
//                    JSON (run by the Python side under `strace -e inject=pread64:error=EIO:when=k`)
//   -mode trunc    : for each case file: intact projection, then the projection of every truncated
//                    copy (lengths given by the case), as fault events
//   -mode write    : the writer scenario (create, write, attributes, close) on one path, results of
//                    every call as JSON (run under pwrite64 / fsync / ftruncate injection)
//   -mode mkfiles  : write the library-made sample files used as truncation subjects

import (
	"encoding/json"
	"flag"
	"fmt"
	"os"
	"path/filepath"
	"sort"

	hdf5 "github.com/scigolib/hdf5"

	"h5v/lib"
)

// flatten turns a dumpFile event into call -> result ("err", "panic" or "ok:<digest>").
func flatten(ev lib.Ev) map[string]string {
	out := map[string]string{"open": fmt.Sprint(ev["open"])}
	if ev["open"] != "ok" {
		return out
	}
	tree := ev["tree"].([]treeEnt)
	names := ""
	for _, t := range tree {
		names += t.P + ":" + t.K + ";"
	}
	out["walk"] = "ok:" + lib.Hex([]byte(names))
	dig := func(r readRes) string {
		if r.Res != "ok" {
			return r.Res
		}
		return fmt.Sprintf("ok:%d:%s", r.Data.N, r.Data.Dig)
	}
	// the attribute list (names, types, shapes, bytes) is one answer; each ReadValue is its own call
	attrs := func(where string, a attrsObs) string {
		if a.Res != "ok" {
			return a.Res
		}
		var items []interface{}
		for _, m := range a.List {
			d, _ := m["val"].(lib.ValDesc)
			rv := d.RV
			if rv != "err" && rv != "panic" {
				rv = "ok:" + rv
			}
			out["rv:"+where+":"+fmt.Sprint(m["name"])] = rv
			d.RV = ""
			items = append(items, []interface{}{m["name"], d})
		}
		b, _ := json.Marshal(items)
		return "ok:" + lib.Hex(b)
	}
	for p, d := range ev["ds"].(map[string]dsObs) {
		if d.Info == "ok" {
			out["info:"+p] = fmt.Sprintf("ok:%v:%d:%d:%d:%v:%v", d.Dims, d.Cls, d.Size, d.Sign, d.Chunked, d.Chunk)
		} else {
			out["info:"+p] = d.Info
		}
		out["f64:"+p], out["str:"+p], out["cmp:"+p] = dig(d.F64), dig(d.Str), dig(d.Cmp)
		out["attrs:"+p] = attrs(p, d.Attrs)
	}
	for p, a := range ev["gattrs"].(map[string]attrsObs) {
		out["gattrs:"+p] = attrs(p, a)
	}
	return out
}

func c17Project(path string) map[string]string {
	var res map[string]string
	r, msg := lib.Call(func() error { res = flatten(dumpFile(path, nil)); return nil })
	if r != "ok" {
		return map[string]string{"open": "panic", "msg": msg}
	}
	if res["open"] == "ok" {
		c17Partial(path, res)
	}
	return res
}

// c17Partial adds the partial readers to the projection: for every dataset a strided selection (every second index of every
// dimension), the last quarter of the first dimension as a slice, and the first chunks of the chunk iterator - each its
// own call with its own answer.
func c17Partial(path string, out map[string]string) {
	f, err := hdf5.Open(path)
	if err != nil {
		return
	}
	defer f.Close()
	type dsp struct {
		p string
		d *hdf5.Dataset
	}
	var dss []dsp
	_, _ = lib.Call(func() error {
		f.Walk(func(p string, o hdf5.Object) {
			if d, ok := o.(*hdf5.Dataset); ok {
				dss = append(dss, dsp{p, d})
			}
		})
		return nil
	})
	digest := func(v interface{}, err error) (string, error) {
		if err != nil {
			return "", err
		}
		fl, ok := v.([]float64)
		if !ok {
			return fmt.Sprintf("ok:%T", v), nil
		}
		b := make([]byte, 0, 8*len(fl))
		for _, x := range fl {
			b = append(b, []byte(fmt.Sprintf("%v,", x))...)
		}
		return fmt.Sprintf("ok:%d:%s", len(fl), lib.Hex(b)), nil
	}
	for _, e := range dss {
		var dims []uint64
		if r, _ := lib.Call(func() error {
			info, err := e.d.VerifInfo()
			if err != nil {
				return err
			}
			dims = info.Dataspace.Dimensions
			return nil
		}); r != "ok" || len(dims) == 0 {
			continue
		}
		n := uint64(1)
		for _, x := range dims {
			n *= x
		}
		if n == 0 || n > 1<<22 {
			continue
		}
		start, count, stride, block := make([]uint64, len(dims)), make([]uint64, len(dims)), make([]uint64, len(dims)), make([]uint64, len(dims))
		sstart, scount := make([]uint64, len(dims)), make([]uint64, len(dims))
		for k, x := range dims {
			start[k], count[k], stride[k], block[k] = 0, (x+1)/2, 2, 1
			sstart[k], scount[k] = 0, x
		}
		sstart[0] = dims[0] - (dims[0]+3)/4
		scount[0] = dims[0] - sstart[0]
		call := func(key string, fn func() (string, error)) {
			var got string
			r, _ := lib.Call(func() error {
				var err error
				got, err = fn()
				return err
			})
			if r == "ok" {
				out[key] = got
			} else {
				out[key] = r
			}
		}
		d := e.d
		call("hs:"+e.p, func() (string, error) {
			return digest(d.ReadHyperslab(&hdf5.HyperslabSelection{Start: start, Count: count, Stride: stride, Block: block}))
		})
		call("sl:"+e.p, func() (string, error) { return digest(d.ReadSlice(sstart, scount)) })
	}
}

func c17MakeFiles(dir string) ([]string, error) {
	var files []string
	for _, sb := range []int{0, 2} {
		p := filepath.Join(dir, fmt.Sprintf("lib_sb%d.h5", sb))
		fw, err := hdf5.CreateForWrite(p, hdf5.CreateTruncate, fileOpts(sb, "")...)
		if err != nil {
			return nil, err
		}
		g, err := fw.CreateGroup("/g")
		if err != nil {
			return nil, err
		}
		_ = g.WriteAttribute("title", "group attribute")
		d, err := fw.CreateDataset("/g/d", hdf5.Int32, []uint64{6})
		if err != nil {
			return nil, err
		}
		_ = d.Write([]int32{1, 2, 3, 4, 5, 6})
		_ = d.WriteAttribute("units", "m")
		_ = d.WriteAttribute("scale", float64(2.5))
		c, err := fw.CreateDataset("/c", hdf5.Float64, []uint64{4, 3}, hdf5.WithChunkDims([]uint64{2, 2}))
		if err != nil {
			return nil, err
		}
		v := make([]float64, 12)
		for i := range v {
			v[i] = float64(i) * 1.5
		}
		_ = c.Write(v)
		s, err := fw.CreateDataset("/s", hdf5.String, []uint64{2}, hdf5.WithStringSize(8))
		if err != nil {
			return nil, err
		}
		_ = s.Write([]string{"alpha", "beta"})
		_ = fw.CreateHardLink("/g/alias", "/c")
		for i := 0; i < 9; i++ { // past the compact limit: fractal heap and B-tree v2 are the last structures of the file
			_ = s.WriteAttribute(fmt.Sprintf("n%02d", i), int32(i))
		}
		if err := fw.Close(); err != nil {
			return nil, err
		}
		files = append(files, p)
	}
	return files, nil
}

type c17Case struct {
	File    string `json:"file"`
	Lengths []int  `json:"lengths"`
}

func runC17(args []string) {
	fs := flag.NewFlagSet("c17", flag.ExitOnError)
	mode := fs.String("mode", "trunc", "project | trunc | write | mkfiles")
	file := fs.String("file", "", "file to project / write")
	in := fs.String("in", "", "cases")
	out := fs.String("out", "", "output")
	dir := fs.String("dir", os.TempDir(), "scratch")
	workers := fs.Int("workers", 8, "parallel")
	_ = fs.Int64("seed", 1, "seed")
	_ = fs.Parse(args)
	switch *mode {
	case "project":
		b, _ := json.Marshal(c17Project(*file))
		lib.Must(os.WriteFile(*out, b, 0o644), "write projection")
	case "mkfiles":
		files, err := c17MakeFiles(*dir)
		lib.Must(err, "make sample files")
		b, _ := json.Marshal(files)
		lib.Must(os.WriteFile(*out, b, 0o644), "write list")
	case "write":
		b, _ := json.Marshal(c17Write(*file))
		lib.Must(os.WriteFile(*out, b, 0o644), "write results")
	case "trunc":
		raw, err := lib.ReadCases(*in)
		lib.Must(err, "read cases")
		tr := lib.NewTrace()
		lib.ForEach(len(raw), *workers, func(i int) {
			var c c17Case
			lib.Must(json.Unmarshal(raw[i], &c), "parse case")
			data, err := os.ReadFile(c.File)
			lib.Must(err, "read subject")
			intact := c17Project(c.File)
			evs := []lib.Ev{{"op": "reset", "cfg": map[string]interface{}{"file": filepath.Base(c.File), "size": len(data), "kind": "trunc"}},
				{"op": "intact", "res": intact}}
			sort.Ints(c.Lengths)
			tmp := filepath.Join(*dir, fmt.Sprintf("trunc%05d.h5", i))
			for _, n := range c.Lengths {
				if n < 0 || n >= len(data) {
					continue
				}
				lib.Must(os.WriteFile(tmp, data[:n], 0o644), "write truncated copy")
				evs = append(evs, lib.Ev{"op": "fault", "kind": "trunc", "k": n, "res": c17Project(tmp)})
			}
			_ = os.Remove(tmp)
			tr.Put(i, evs)
		})
		n, err := tr.WriteFile(*out)
		lib.Must(err, "write trace")
		fmt.Printf("c17: cases=%d events=%d\n", len(raw), n)
	default:
		fmt.Fprintln(os.Stderr, "unknown mode")
		os.Exit(2)
	}
}

// c17Write performs the writer scenario and returns the result of every call.
func c17Write(path string) map[string]string {
	res := map[string]string{}
	call := func(name string, fn func() error) bool {
		r, _ := lib.Call(fn)
		res[name] = r
		return r == "ok"
	}
	var fw *hdf5.FileWriter
	if !call("01create", func() error {
		var err error
		fw, err = hdf5.CreateForWrite(path, hdf5.CreateTruncate)
		return err
	}) {
		return res
	}
	var g *hdf5.GroupWriter
	var d, c *hdf5.DatasetWriter
	call("02group", func() error { var err error; g, err = fw.CreateGroup("/g"); return err })
	if g != nil {
		call("03gattr", func() error { return g.WriteAttribute("title", "group attribute") })
	}
	call("04dataset", func() error { var err error; d, err = fw.CreateDataset("/g/d", hdf5.Int32, []uint64{6}); return err })
	if d != nil {
		call("05write", func() error { return d.Write([]int32{1, 2, 3, 4, 5, 6}) })
		call("06attr", func() error { return d.WriteAttribute("units", "m") })
		for i := 0; i < 6; i++ {
			call(fmt.Sprintf("07attr%d", i), func() error {
				return d.WriteAttribute(fmt.Sprintf("a%d", i), "a value that takes some room in the header")
			})
		}
		call("08delattr", func() error { return d.DeleteAttribute("a1") })
	}
	// a dataset whose attributes cross from the object header into dense storage (fractal heap + name index), are
	// overwritten there with another size, and deleted there
	var e *hdf5.DatasetWriter
	call("08bdense", func() error { var err error; e, err = fw.CreateDataset("/e", hdf5.Float32, []uint64{2}); return err })
	if e != nil {
		call("08cwrite", func() error { return e.Write([]float32{1.5, -2.5}) })
		for i := 0; i < 11; i++ {
			call(fmt.Sprintf("08dattr%02d", i), func() error { return e.WriteAttribute(fmt.Sprintf("n%02d", i), int32(100+i)) })
		}
		call("08eoverwrite", func() error { return e.WriteAttribute("n03", "now a string of another size") })
		call("08fdelete", func() error { return e.DeleteAttribute("n07") })
	}
	call("09chunked", func() error {
		var err error
		c, err = fw.CreateDataset("/c", hdf5.Float64, []uint64{4, 3}, hdf5.WithChunkDims([]uint64{2, 2}))
		return err
	})
	if c != nil {
		call("10writechunked", func() error {
			v := make([]float64, 12)
			for i := range v {
				v[i] = float64(i) * 1.5
			}
			return c.Write(v)
		})
	}
	call("11link", func() error { return fw.CreateHardLink("/g/alias", "/c") })
	call("12close", func() error { return fw.Close() })
	return res
}

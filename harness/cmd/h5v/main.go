// Command h5v is the Go side of the verification machinery: it replays abstract cases through
// the real scigolib/hdf5 API and records what the code did as ndjson traces.  It never decides a
// property; TLC does, on the trace.
package main

import (
	"flag"
	"fmt"
	"os"
	"runtime"
)

var commands = map[string]func(args []string){}

func stdFlags(name string, args []string) (in, out, dir string, seed int64, workers int) {
	fs := flag.NewFlagSet(name, flag.ExitOnError)
	fs.StringVar(&in, "in", "", "cases (ndjson)")
	fs.StringVar(&out, "out", "", "trace (ndjson)")
	fs.StringVar(&dir, "dir", os.TempDir(), "scratch directory for files")
	fs.Int64Var(&seed, "seed", 1, "VERIF_SEED")
	fs.IntVar(&workers, "workers", runtime.NumCPU(), "parallel cases")
	_ = fs.Parse(args)
	if out == "" {
		fmt.Fprintln(os.Stderr, "h5v: -out required")
		os.Exit(2)
	}
	return
}

func main() {
	commands["c02"] = runC02
	commands["ops"] = runOps
	commands["c14"] = runC14
	commands["c15"] = runC15
	commands["c20"] = runC20
	commands["c09"] = runC09
	commands["c19sel"] = runC19Sel
	commands["c12"] = runC12
	commands["c08"] = runC08
	commands["c18"] = runC18
	commands["c11"] = runC11
	commands["c07"] = runC07
	commands["c06"] = runC06
	commands["c05corpus"] = runC05Corpus
	commands["hdrchain"] = runHdrChain
	commands["dagopen"] = runDagOpen
	commands["corpusdiff"] = runCorpusDiff
	commands["c17"] = runC17
	commands["c14hash"] = func(a []string) { initCollisions(); runC14Hash(a) }
	registerMore()
	if len(os.Args) < 2 {
		fmt.Fprintln(os.Stderr, "usage: h5v <command> [flags]")
		os.Exit(2)
	}
	fn, ok := commands[os.Args[1]]
	if !ok {
		fmt.Fprintf(os.Stderr, "h5v: unknown command %q\n", os.Args[1])
		os.Exit(2)
	}
	fn(os.Args[2:])
}

package main

// C05: the independent decoder's view of a written file.  indepObserve renders what harness/indep
// recovers from the raw bytes in the same shape as dumpFile renders what the library's reader
// returns, so that the same trace specification (H5LogicalTrace) can compare it with the model;
// layoutEvent lists the byte extents and format rules of every structure for C05Trace.

import (
	"encoding/binary"
	"encoding/json"
	"fmt"
	"math"
	"os"
	"sort"
	"strings"

	"github.com/scigolib/hdf5/verifapi"

	"h5v/indep"
	"h5v/lib"
)

func indepKind(k string) string {
	switch k {
	case "group", "dataset":
		return k
	}
	return "other"
}

func indepValDesc(t *indep.Dtype, dims []uint64, rank int, data []byte) lib.ValDesc {
	d := lib.ValDesc{Cls: -1, Dims: []int{}, RV: "err"}
	if t != nil {
		d.Cls, d.Size = t.Class, t.Size
		if t.Class == 0 && t.Bits&0x08 != 0 {
			d.Sign = 1
		}
	}
	for _, x := range dims {
		d.Dims = append(d.Dims, int(x))
	}
	if rank == 0 {
		d.Dims = []int{1}
	}
	d.Data = lib.Hex(data)
	return d
}

func indepAttrs(as []indep.Attr, back map[string]string) attrsObs {
	out := attrsObs{Res: "ok", List: []map[string]interface{}{}}
	for _, a := range as {
		m := map[string]interface{}{"name": a.Name}
		if abs, ok := back[a.Name]; ok {
			m["n"] = abs
		} else {
			m["n"] = "?" + a.Name
		}
		m["val"] = indepValDesc(a.Type, a.Dims, a.Rank, a.Data)
		out.List = append(out.List, m)
	}
	return out
}

func indepFloats(o *indep.Obj) ([]float64, bool) {
	t := o.Type
	if o.Data == nil || t == nil || (t.Class != 0 && t.Class != 1) {
		return nil, false
	}
	n := len(o.Data) / t.Size
	out := make([]float64, n)
	var bo binary.ByteOrder = binary.LittleEndian
	if t.Bits&1 != 0 {
		bo = binary.BigEndian
	}
	signed := t.Bits&0x08 != 0
	for i := 0; i < n; i++ {
		b := o.Data[i*t.Size : (i+1)*t.Size]
		switch {
		case t.Class == 1 && t.Size == 8:
			out[i] = math.Float64frombits(bo.Uint64(b))
		case t.Class == 1 && t.Size == 4:
			out[i] = float64(math.Float32frombits(bo.Uint32(b)))
		case t.Class == 0 && t.Size == 8 && signed:
			out[i] = float64(int64(bo.Uint64(b)))
		case t.Class == 0 && t.Size == 8:
			out[i] = float64(bo.Uint64(b))
		case t.Class == 0 && t.Size == 4 && signed:
			out[i] = float64(int32(bo.Uint32(b)))
		case t.Class == 0 && t.Size == 4:
			out[i] = float64(bo.Uint32(b))
		case t.Class == 0 && t.Size == 2 && signed:
			out[i] = float64(int16(bo.Uint16(b)))
		case t.Class == 0 && t.Size == 2:
			out[i] = float64(bo.Uint16(b))
		case t.Class == 0 && t.Size == 1 && signed:
			out[i] = float64(int8(b[0]))
		case t.Class == 0 && t.Size == 1:
			out[i] = float64(b[0])
		default:
			return nil, false
		}
	}
	return out, true
}

func indepStrings(o *indep.Obj) ([]string, bool) {
	t := o.Type
	if o.Data == nil || t == nil || t.Class != 3 || t.Size == 0 {
		return nil, false
	}
	n := len(o.Data) / t.Size
	out := make([]string, n)
	for i := 0; i < n; i++ {
		b := o.Data[i*t.Size : (i+1)*t.Size]
		switch t.Bits & 0x0f {
		case 0: // null terminated
			if k := strings.IndexByte(string(b), 0); k >= 0 {
				b = b[:k]
			}
		case 1: // null padded
			b = []byte(strings.TrimRight(string(b), "\x00"))
		default: // space padded
			b = []byte(strings.TrimRight(string(b), " "))
		}
		out[i] = string(b)
	}
	return out, true
}

func indepCompound(o *indep.Obj) ([]verifapi.CompoundValue, bool) {
	t := o.Type
	if o.Data == nil || t == nil || t.Class != 6 || t.Size == 0 {
		return nil, false
	}
	n := len(o.Data) / t.Size
	out := make([]verifapi.CompoundValue, n)
	for i := 0; i < n; i++ {
		rec := o.Data[i*t.Size : (i+1)*t.Size]
		v := verifapi.CompoundValue{}
		for _, m := range t.Members {
			if m.Offset+m.Type.Size > len(rec) {
				return nil, false
			}
			b := rec[m.Offset : m.Offset+m.Type.Size]
			switch {
			case m.Type.Class == 0 && m.Type.Size == 4:
				v[m.Name] = int32(binary.LittleEndian.Uint32(b))
			case m.Type.Class == 0 && m.Type.Size == 8:
				v[m.Name] = int64(binary.LittleEndian.Uint64(b))
			case m.Type.Class == 1 && m.Type.Size == 4:
				v[m.Name] = math.Float32frombits(binary.LittleEndian.Uint32(b))
			case m.Type.Class == 1 && m.Type.Size == 8:
				v[m.Name] = math.Float64frombits(binary.LittleEndian.Uint64(b))
			default:
				v[m.Name] = lib.Hex(b)
			}
		}
		out[i] = v
	}
	return out, true
}

// indepObserve decodes path with the independent decoder and renders the observation.
func indepObserve(path string, back map[string]string) (lib.Ev, lib.Ev) {
	ev := lib.Ev{"op": "observe", "open": "ok", "tree": []treeEnt{}, "ds": map[string]dsObs{}, "gattrs": map[string]attrsObs{}, "view": "independent-decoder"}
	lay := lib.Ev{"op": "layout", "usable": false}
	b, err := os.ReadFile(path)
	if err != nil {
		ev["open"], ev["msg"] = "err", err.Error()
		return ev, lay
	}
	var f *indep.File
	res, msg := lib.Call(func() error { f = indep.Decode(b); return nil })
	if res != "ok" {
		ev["open"], ev["msg"] = "err", "independent decoder: "+msg
		lay["why"] = msg
		return ev, lay
	}
	if len(f.Objs) == 0 {
		ev["open"], ev["msg"] = "err", strings.Join(f.Errs, "; ")
	}
	tree := []treeEnt{}
	ds := map[string]dsObs{}
	ga := map[string]attrsObs{}
	for _, o := range f.Objs {
		tree = append(tree, treeEnt{P: o.Path, PC: comps(o.Path), K: indepKind(o.Kind), Addr: fmt.Sprintf("%d", o.Addr)})
		switch o.Kind {
		case "group":
			ga[o.Path] = indepAttrs(o.Attrs, back)
		case "dataset":
			d := dsObs{Info: "ok", Dims: []int{}, Max: []int{}, Chunk: []int{}, Cls: -1}
			if o.Type == nil {
				d.Info = "err"
			} else {
				d.Cls, d.Size = o.Type.Class, o.Type.Size
				if o.Type.Class == 0 && o.Type.Bits&0x08 != 0 {
					d.Sign = 1
				}
				if o.Type.Class == 8 {
					var sb strings.Builder
					for i, nm := range o.Type.EnumNames {
						v := "?"
						if i < len(o.Type.EnumValues) {
							v = fmt.Sprintf("%d", o.Type.EnumValues[i])
						}
						fmt.Fprintf(&sb, "%s=%s;", nm, v)
					}
					d.Detail = sb.String()
				}
			}
			d.Dims, d.Max = toInts(o.Dims), toInts(o.MaxDims)
			d.Chunked = o.Layout == 2
			if d.Chunked {
				d.Chunk = toInts(o.Chunk)
			}
			d.F64, d.Str, d.Cmp = readRes{Res: "err", Data: noData}, readRes{Res: "err", Data: noData}, readRes{Res: "err", Data: noData}
			d.Raw = readRes{Res: "unsupported", Data: noData}
			if o.Data != nil && len(o.Filters) == 0 && o.DataErr == "" {
				d.Raw = readRes{Res: "ok", Data: descRaw(o.Data)}
			}
			if len(o.Filters) > 0 { // the decoder does not undo filters: the values are not judged through this view
				d.F64, d.Str, d.Cmp = readRes{Res: "unsupported", Data: noData}, readRes{Res: "unsupported", Data: noData}, readRes{Res: "unsupported", Data: noData}
			}
			if v, ok := indepFloats(o); ok && (o.Type.Size == 4 || o.Type.Size == 8) {
				d.F64 = readRes{Res: "ok", Data: descF64(v)}
			}
			if v, ok := indepStrings(o); ok {
				d.Str = readRes{Res: "ok", Data: descStrings(v)}
			}
			if v, ok := indepCompound(o); ok {
				d.Cmp = readRes{Res: "ok", Data: descCompound(v)}
			}
			d.Attrs = indepAttrs(o.Attrs, back)
			ds[o.Path] = d
		}
	}
	sort.SliceStable(tree, func(i, j int) bool { return tree[i].P < tree[j].P })
	ev["tree"], ev["ds"], ev["gattrs"] = tree, ds, ga

	// layout: real extents and every rule evaluated
	type ext struct {
		Kind  string `json:"kind"`
		Start int    `json:"start"`
		End   int    `json:"end"`
		Owner string `json:"owner"`
	}
	type broken struct {
		Rule  string `json:"rule"`
		Kind  string `json:"kind"`
		Owner string `json:"owner"`
		Start int    `json:"start"`
	}
	exts := []ext{}
	brk := []broken{}
	nrules := 0
	for _, e := range f.Extents {
		if e.End > e.Start {
			exts = append(exts, ext{e.Kind, e.Start, e.End, e.Owner})
		}
		keys := make([]string, 0, len(e.Rules))
		for k := range e.Rules {
			keys = append(keys, k)
		}
		sort.Strings(keys)
		for _, k := range keys {
			nrules++
			if !e.Rules[k] {
				brk = append(brk, broken{k, e.Kind, e.Owner, e.Start})
			}
		}
	}
	sort.SliceStable(exts, func(i, j int) bool { return exts[i].Start < exts[j].Start })
	eoa := int64(f.EOA)
	if f.EOA > 1<<31-1 {
		eoa = 1<<31 - 1
	}
	errs := f.Errs
	if errs == nil {
		errs = []string{}
	}
	uns := f.Unsupported
	if uns == nil {
		uns = []string{}
	}
	lay = lib.Ev{"op": "layout", "usable": true, "filesize": len(b), "eoa": eoa, "sb": f.SbVersion, "extents": exts, "broken": brk,
		"nrules": nrules, "errs": errs, "unsupported": uns, "nobjs": len(f.Objs)}
	return ev, lay
}

// runC05Corpus is the decoder's own qualification: it walks reference files (produced by the HDF5 C library) with
// the independent decoder and reports, per file, every rule that does not hold and every overlap of two extents.
// A rule that fails on a well-formed reference file is a defect of the decoder (or an over-strict rule), never
// of the library under test: the check that uses the decoder refuses to judge (exit 2) when this happens.
func runC05Corpus(args []string) {
	in, out, _, _, workers := stdFlags("c05corpus", args)
	raw, err := lib.ReadCases(in)
	lib.Must(err, "read file list")
	tr := lib.NewTrace()
	lib.ForEach(len(raw), workers, func(i int) {
		var c struct {
			File string `json:"file"`
		}
		lib.Must(json.Unmarshal(raw[i], &c), "parse case")
		ev := lib.Ev{"op": "corpus", "file": c.File, "rules": 0, "objects": 0, "extents": 0, "broken": []string{}, "overlaps": []string{}, "errs": []string{}, "res": "ok"}
		b, err := os.ReadFile(c.File)
		if err != nil {
			ev["res"] = "unreadable"
			tr.Put(i, []lib.Ev{ev})
			return
		}
		var f *indep.File
		if res, msg := lib.Call(func() error { f = indep.Decode(b); return nil }); res != "ok" {
			ev["res"], ev["errs"] = "panic", []string{msg}
			tr.Put(i, []lib.Ev{ev})
			return
		}
		brk, nrules := []string{}, 0
		type span struct {
			s, e  int
			k, ow string
		}
		spans := []span{}
		for _, e := range f.Extents {
			if e.End > e.Start {
				spans = append(spans, span{e.Start, e.End, e.Kind, e.Owner})
			}
			for k, ok := range e.Rules {
				nrules++
				if !ok {
					brk = append(brk, fmt.Sprintf("%s (%s %s @%d)", k, e.Kind, e.Owner, e.Start))
				}
			}
		}
		sort.Strings(brk)
		sort.SliceStable(spans, func(a, b int) bool { return spans[a].s < spans[b].s })
		ov := []string{}
		for k := 1; k < len(spans); k++ {
			if spans[k].s < spans[k-1].e && len(ov) < 8 {
				ov = append(ov, fmt.Sprintf("%s %s [%d,%d) / %s %s [%d,%d)", spans[k-1].k, spans[k-1].ow, spans[k-1].s, spans[k-1].e, spans[k].k, spans[k].ow, spans[k].s, spans[k].e))
			}
		}
		errs := f.Errs
		if errs == nil {
			errs = []string{}
		}
		if len(errs) > 6 {
			errs = errs[:6]
		}
		ev["rules"], ev["objects"], ev["extents"], ev["broken"], ev["overlaps"], ev["errs"] = nrules, len(f.Objs), len(spans), brk, ov, errs
		tr.Put(i, []lib.Ev{ev})
	})
	n, err := tr.WriteFile(out)
	lib.Must(err, "write trace")
	fmt.Printf("c05corpus: files=%d events=%d\n", len(raw), n)
}

package main

// C20 driver: sweeps float32 bit patterns through the FP8 / bfloat16 conversions and compares
// with the rounding tables TLC derived from MiniFloat.tla.  The oracle is the table; this file
// only looks values up in it.

import (
	"encoding/json"
	"fmt"
	"math"
	"os"
	"sort"
	"sync"

	"github.com/scigolib/hdf5/verifapi"

	"h5v/lib"
)

type mfRow struct {
	Code int   `json:"code"`
	Bits int64 `json:"bits"`
	Mid  int64 `json:"mid"`
	Tie  int   `json:"tie"`
	Up   int   `json:"up"`
}
type mfTable struct {
	Fmt       string  `json:"fmt"`
	MaxFinite int     `json:"maxfinite"`
	Inf       int     `json:"inf"`
	NaN       []int   `json:"nan"`
	Rows      []mfRow `json:"rows"`
	Samples   []struct {
		Hi, Lo, Code int
	} `json:"samples"`
	nan map[int]bool
}

// refFP8 returns the expected code for float32 bits x, or -1 meaning "any NaN code".
func (t *mfTable) refFP8(x uint32) (exp int, class string) {
	sign := int(x>>31) << 7
	mag := int64(x & 0x7fffffff)
	switch {
	case mag > 0x7f800000:
		return -1, "nan-in"
	case mag == 0x7f800000:
		return sign | t.Inf, "inf-in"
	case mag == 0:
		return sign, "zero"
	}
	i := sort.Search(len(t.Rows), func(i int) bool { return t.Rows[i].Bits > mag }) - 1
	r := t.Rows[i]
	switch {
	case mag < r.Mid:
		class = "down"
		exp = r.Code
	case mag > r.Mid:
		class = "up"
		exp = r.Up
	default:
		class = "tie"
		exp = r.Tie
	}
	if mag == r.Bits {
		class = "exact"
	}
	if exp == t.Inf {
		class = "overflow-" + class
	} else if exp != r.Code && exp&^(exp-1) != 1 && (exp&((1<<mantBits(t.Fmt))-1)) == 0 {
		class = "carry-" + class // rounds up into the next binade (mantissa overflow)
	}
	if i == 0 {
		class = "tiny-" + class
	}
	return sign | exp, class
}

func mantBits(f string) uint {
	if f == "e4m3" {
		return 3
	}
	return 2
}

// refBF16 is the transcription of MiniFloat!BFRound / BFIsNaNIn (cross-checked against TLC's sample rows).
func refBF16(x uint32) (exp int, class string) {
	hi, lo := int(x>>16), int(x&0xffff)
	mhi := hi & 0x7fff
	if (mhi>>7)&0xff == 255 && (mhi&0x7f != 0 || lo != 0) {
		return -1, "nan-in"
	}
	switch {
	case lo > 32768 || (lo == 32768 && mhi%2 == 1):
		class = "up"
		if lo == 32768 {
			class = "tie"
		}
		if (mhi+1)>>7&0xff == 255 {
			class = "overflow-" + class
		}
		return hi + 1, class
	case lo == 32768:
		return hi, "tie"
	case lo == 0:
		return hi, "exact"
	}
	return hi, "down"
}

type c20Acc struct {
	mu       sync.Mutex
	eval     map[string]int
	mism     map[string]int
	hows     map[string]map[string]int // class key -> the way the result is wrong -> count
	tabs     map[string]*mfTable
	examples map[string][]lib.Ev
	samples  []lib.Ev
}

// howWrong names the way a result differs from the expected one, so that a listed finding (the clamp: one code
// below the expected one, the largest finite value where infinity is due) does not cover a different defect in
// the same class (a number that becomes NaN, a result several codes away).
func (a *c20Acc) howWrong(fmtName string, got, exp int) string {
	signBit, magMask, inf := 0x80, 0x7f, -9
	if fmtName == "bf16" {
		signBit, magMask, inf = 0x8000, 0x7fff, 0x7f80
	} else if t := a.tabs[fmtName]; t != nil {
		inf = t.Inf
	}
	switch {
	case got == -2:
		return "panic"
	case got == -3:
		return "nan-code-decodes-to-number"
	case got == -4:
		return "numeric-code-decodes-to-nan"
	case exp == -1 && got&magMask == inf:
		return "inf-for-nan"
	case exp == -1:
		return "number-for-nan"
	case got == -1:
		return "nan-for-number"
	case got&signBit != exp&signBit:
		return "sign-differs"
	}
	g, e := got&magMask, exp&magMask
	switch {
	case e == inf && g < e:
		if t := a.tabs[fmtName]; t != nil && g == t.MaxFinite {
			return "max-finite-for-inf"
		}
		return "finite-for-inf"
	case g == inf:
		return "inf-for-finite"
	case g == e-1:
		return "one-code-toward-zero"
	case g == e+1:
		return "one-code-away-from-zero"
	case g < e:
		return "several-codes-toward-zero"
	}
	return "several-codes-away-from-zero"
}

func (a *c20Acc) add(fmtName, class string, in uint32, got, exp int, sample bool) {
	key := fmtName + "/" + class
	ok := got == exp
	if exp == -1 { // NaN expected: judged by the caller through gotIsNaN
		ok = got == -1
	}
	a.mu.Lock()
	a.eval[key]++
	mk := func() lib.Ev {
		return lib.Ev{"op": "conv", "fmt": fmtName, "class": class, "in": fmt.Sprintf("%08x", in), "inhi": int(in >> 16), "inlo": int(in & 0xffff), "got": got, "exp": exp,
			"f2c": class != "roundtrip" && class != "roundtrip-nan" && class != "bytes" && got != -2}
	}
	if !ok {
		a.mism[key]++
		if a.hows[key] == nil {
			a.hows[key] = map[string]int{}
		}
		a.hows[key][a.howWrong(fmtName, got, exp)]++
		if len(a.examples[key]) < 12 {
			a.examples[key] = append(a.examples[key], mk())
		}
	} else if sample && len(a.samples) < 6000 {
		a.samples = append(a.samples, mk())
	}
	a.mu.Unlock()
}

func runC20(args []string) {
	in, out, _, seed, workers := stdFlags("c20", args)
	raw, err := lib.ReadCases(in)
	lib.Must(err, "read tables")
	tabs := map[string]*mfTable{}
	for _, r := range raw {
		var t mfTable
		lib.Must(json.Unmarshal(r, &t), "parse table")
		t.nan = map[int]bool{}
		for _, c := range t.NaN {
			t.nan[c] = true
		}
		tabs[t.Fmt] = &t
	}
	for _, n := range []string{"e4m3", "e5m2", "bf16"} {
		if tabs[n] == nil {
			lib.Must(fmt.Errorf("table %s missing", n), "tables")
		}
	}
	// the Go transcription of the bfloat16 rule must agree with TLC's sample rows
	for _, s := range tabs["bf16"].Samples {
		if e, _ := refBF16(uint32(s.Hi)<<16 | uint32(s.Lo)); e != s.Code {
			lib.Must(fmt.Errorf("hi=%d lo=%d: transcription gives %d, MiniFloat gives %d", s.Hi, s.Lo, e, s.Code), "bfloat16 reference self-check")
		}
	}
	full := os.Getenv("H5V_C20_FULL") == "1"
	acc := &c20Acc{eval: map[string]int{}, mism: map[string]int{}, examples: map[string][]lib.Ev{}, hows: map[string]map[string]int{}, tabs: tabs}

	conv := func(name string, x uint32) (got int) {
		f := math.Float32frombits(x)
		switch name {
		case "e4m3":
			c := int(verifapi.Float32ToFP8E4M3(f))
			if tabs[name].nan[c&0x7f] {
				return -1
			}
			return c
		case "e5m2":
			c := int(verifapi.Float32ToFP8E5M2(f))
			if tabs[name].nan[c&0x7f] {
				return -1
			}
			return c
		}
		c := int(verifapi.Float32ToBFloat16(f))
		if (c>>7)&0xff == 255 && c&0x7f != 0 {
			return -1
		}
		return c
	}
	checkAcc := func(acc *c20Acc, name string, x uint32, sample bool) {
		var exp int
		var class string
		if name == "bf16" {
			exp, class = refBF16(x)
		} else {
			exp, class = tabs[name].refFP8(x)
		}
		var got int
		if res, _ := lib.Call(func() error { got = conv(name, x); return nil }); res != "ok" {
			got = -2
			class = "panic-" + class
		}
		acc.add(name, class, x, got, exp, sample)
	}
	check := func(name string, x uint32, sample bool) { checkAcc(acc, name, x, sample) }
	// 1. code -> float32 -> code identity (all codes)
	roundtrip := func(name string, ncodes int, toF func(c int) float32, isNaN func(c int) bool) {
		for c := 0; c < ncodes; c++ {
			f := toF(c)
			got := conv(name, math.Float32bits(f))
			exp := c
			class := "roundtrip"
			if isNaN(c) {
				exp, class = -1, "roundtrip-nan"
				if f == f {
					got = -3 // a NaN code decoded to a number
				}
			} else if f != f {
				got = -4 // a numeric code decoded to NaN
			}
			acc.add(name, class, math.Float32bits(f), got, exp, c%5 == 0)
		}
	}
	roundtrip("e4m3", 256, func(c int) float32 { return verifapi.FP8E4M3(c).ToFloat32() }, func(c int) bool { return tabs["e4m3"].nan[c&0x7f] })
	roundtrip("e5m2", 256, func(c int) float32 { return verifapi.FP8E5M2(c).ToFloat32() }, func(c int) bool { return tabs["e5m2"].nan[c&0x7f] })
	roundtrip("bf16", 65536, func(c int) float32 { return verifapi.BFloat16(c).ToFloat32() }, func(c int) bool { return (c>>7)&0xff == 255 && c&0x7f != 0 })
	// byte encoding round trip
	for c := 0; c < 65536; c++ {
		b := verifapi.BFloat16(c).Encode()
		got := int(verifapi.DecodeBFloat16(b))
		if len(b) != 2 || int(b[0]) != c&0xff || int(b[1]) != c>>8 {
			got = -5
		}
		acc.add("bf16", "bytes", uint32(c), got, c, false)
	}
	// 2. float32 -> code
	if full {
		var wg sync.WaitGroup
		chunk := uint64(1) << 32 / uint64(workers)
		locals := make([]*c20Acc, workers)
		for w := 0; w < workers; w++ {
			wg.Add(1)
			locals[w] = &c20Acc{eval: map[string]int{}, mism: map[string]int{}, examples: map[string][]lib.Ev{}, hows: map[string]map[string]int{}, tabs: tabs}
			go func(w int) {
				defer wg.Done()
				la := locals[w] // private accumulator: no lock contention
				lo, hi := uint64(w)*chunk, uint64(w+1)*chunk
				if w == workers-1 {
					hi = 1 << 32
				}
				for x := lo; x < hi; x++ {
					s := x%1000003 == 0
					checkAcc(la, "e4m3", uint32(x), s)
					checkAcc(la, "e5m2", uint32(x), s)
					checkAcc(la, "bf16", uint32(x), s)
				}
			}(w)
		}
		wg.Wait()
		for _, la := range locals {
			for k, v := range la.eval {
				acc.eval[k] += v
			}
			for k, v := range la.mism {
				acc.mism[k] += v
			}
			for k, hv := range la.hows {
				if acc.hows[k] == nil {
					acc.hows[k] = map[string]int{}
				}
				for h, n := range hv {
					acc.hows[k][h] += n
				}
			}
			for k, v := range la.examples {
				if len(acc.examples[k]) < 12 {
					acc.examples[k] = append(acc.examples[k], v...)
				}
			}
			if len(acc.samples) < 6000 {
				acc.samples = append(acc.samples, la.samples...)
			}
		}
	} else {
		r := lib.Rng(seed, 0, "c20")
		for _, name := range []string{"e4m3", "e5m2"} {
			for _, row := range tabs[name].Rows {
				for _, base := range []int64{row.Bits, row.Mid} {
					for d := int64(-2); d <= 2; d++ {
						if base+d > 0 {
							check(name, uint32(base+d), true)
							check(name, uint32(base+d)|0x80000000, true)
						}
					}
				}
			}
		}
		for hi := 0; hi < 65536; hi++ { // every bfloat16 code with the decisive lower halves
			for _, lo := range []uint32{0, 1, 0x7fff, 0x8000, 0x8001, 0xffff} {
				check("bf16", uint32(hi)<<16|lo, hi%97 == 0)
			}
		}
		for k := 0; k < 1000000; k++ { // stratified: uniform over bit patterns = uniform over exponents
			x := r.Uint32()
			for _, name := range []string{"e4m3", "e5m2", "bf16"} {
				check(name, x, k%997 == 0)
			}
		}
		for _, x := range []uint32{0, 0x80000000, 0x7f800000, 0xff800000, 0x7f800001, 0x7fc00000, 0xffc00001, 0x7fffffff, 0x7f7fffff, 1, 0x00800000, 0x7fff8000, 0x7fffffff} {
			for _, name := range []string{"e4m3", "e5m2", "bf16"} {
				check(name, x, true)
			}
		}
	}
	f, err := os.Create(out)
	lib.Must(err, "create trace")
	defer f.Close()
	enc := json.NewEncoder(f)
	_ = enc.Encode(lib.Ev{"case": 0, "op": "reset", "cfg": map[string]interface{}{"full": full}})
	keys := make([]string, 0, len(acc.eval))
	total, bad := 0, 0
	for k := range acc.eval {
		keys = append(keys, k)
	}
	sort.Strings(keys)
	for _, k := range keys {
		for _, e := range acc.examples[k] {
			e["case"] = 0
			_ = enc.Encode(e)
		}
	}
	for _, e := range acc.samples {
		e["case"] = 0
		_ = enc.Encode(e)
	}
	for _, k := range keys {
		var fname, class string
		fmt.Sscanf(k, "%s", &fname)
		for i := range k {
			if k[i] == '/' {
				fname, class = k[:i], k[i+1:]
			}
		}
		hows := []map[string]interface{}{}
		hk := make([]string, 0, len(acc.hows[k]))
		for h := range acc.hows[k] {
			hk = append(hk, h)
		}
		sort.Strings(hk)
		for _, h := range hk {
			hows = append(hows, map[string]interface{}{"how": h, "n": acc.hows[k][h] % 2000000000})
		}
		_ = enc.Encode(lib.Ev{"case": 0, "op": "sum", "fmt": fname, "class": class, "evaluated": acc.eval[k] % 2000000000, "mismatches": acc.mism[k] % 2000000000, "hows": hows})
		total += acc.eval[k]
		bad += acc.mism[k]
	}
	fmt.Printf("c20: evaluations=%d mismatches=%d classes=%d full=%v\n", total, bad, len(keys), full)
}

package main

// C18 driver: concurrency scenarios, meant to be built with -race.  Each scenario runs in its
// own process (the Python side collects the race detector's reports from GORACE=log_path); the
// driver itself records lifecycle facts: did Stop return, did anything panic, how many goroutines
// were alive before and after, do parallel results equal sequential ones.

import (
	"context"
	"encoding/json"
	"flag"
	"fmt"
	"os"
	"path/filepath"
	"reflect"
	"runtime"
	"sync"
	"sync/atomic"
	"time"

	hdf5 "github.com/scigolib/hdf5"
	"github.com/scigolib/hdf5/verifapi"

	"h5v/lib"
)

func waitGoroutines(base int) int {
	n := runtime.NumGoroutine()
	for i := 0; i < 200 && n > base; i++ {
		time.Sleep(5 * time.Millisecond)
		n = runtime.NumGoroutine()
	}
	return n
}

// timed runs fn and reports whether it returned within d.
func timed(d time.Duration, fn func()) (returned bool, panicMsg string) {
	done := make(chan string, 1)
	go func() {
		defer func() {
			if r := recover(); r != nil {
				done <- fmt.Sprintf("%v", r)
				return
			}
			done <- ""
		}()
		fn()
	}()
	select {
	case m := <-done:
		return true, m
	case <-time.After(d):
		return false, ""
	}
}

func newLazyIncr() *verifapi.WritableBTreeV2 {
	bt := verifapi.NewWritableBTreeV2(4096)
	bt.EnableLazyRebalancing(verifapi.DefaultLazyConfig())
	ic := verifapi.DefaultIncrementalConfig()
	ic.Interval, ic.Budget = 20*time.Microsecond, 10*time.Microsecond
	_ = bt.EnableIncrementalRebalancing(ic)
	return bt
}

// gatedBTree records whether its background rebalancing is running and can hold the caller of GetFileSize
// (the monitor's re-evaluation) until the scenario releases it: the scheduler gate of the smart-stop-inflight scenario.
type gatedBTree struct {
	background atomic.Bool
	slow       atomic.Bool
	entered    chan struct{}
	release    chan struct{}
	once       sync.Once
}

func (b *gatedBTree) EnableLazyRebalancing(verifapi.LazyRebalancingConfig) error { return nil }
func (b *gatedBTree) EnableIncrementalRebalancing(verifapi.IncrementalRebalancingConfig) error {
	return nil
}
func (b *gatedBTree) DisableRebalancing() error { return nil }
func (b *gatedBTree) StartBackgroundRebalancing(context.Context) error {
	b.background.Store(true)
	return nil
}
func (b *gatedBTree) StopBackgroundRebalancing() error { b.background.Store(false); return nil }
func (b *gatedBTree) GetFileSize() uint64 {
	if b.slow.Load() {
		b.once.Do(func() { close(b.entered) })
		select {
		case <-b.release:
		case <-time.After(5 * time.Second):
		}
	}
	return 1 << 30
}

type stubBTree struct{ n atomic.Int64 }

func (s *stubBTree) EnableLazyRebalancing(verifapi.LazyRebalancingConfig) error {
	s.n.Add(1)
	return nil
}
func (s *stubBTree) EnableIncrementalRebalancing(verifapi.IncrementalRebalancingConfig) error {
	s.n.Add(1)
	return nil
}
func (s *stubBTree) DisableRebalancing() error                        { s.n.Add(1); return nil }
func (s *stubBTree) StartBackgroundRebalancing(context.Context) error { s.n.Add(1); return nil }
func (s *stubBTree) StopBackgroundRebalancing() error                 { s.n.Add(1); return nil }
func (s *stubBTree) GetFileSize() uint64                              { return 600 << 20 }

func runC18(args []string) {
	fs := flag.NewFlagSet("c18", flag.ExitOnError)
	scenario := fs.String("scenario", "", "scenario name")
	out := fs.String("out", "", "trace")
	dir := fs.String("dir", os.TempDir(), "scratch")
	seed := fs.Int64("seed", 1, "seed")
	iters := fs.Int("iters", 2000, "iterations")
	_ = fs.Int("workers", 0, "unused")
	_ = fs.String("in", "", "unused")
	_ = fs.Parse(args)
	ev := lib.Ev{"case": 0, "op": "life", "scenario": *scenario, "returned": true, "panic": "", "gbefore": 0, "gafter": 0, "equal": true, "note": "", "bgafter": false}
	base := runtime.NumGoroutine()
	ev["gbefore"] = base
	switch *scenario {
	case "ticker-vs-fg": // one foreground goroutine against the background ticker
		bt := newLazyIncr()
		ret, pm := timed(20*time.Second, func() {
			for i := 0; i < *iters; i++ {
				name := fmt.Sprintf("k%d", i%300)
				_ = bt.InsertRecord(name, uint64(i+1))
				_ = bt.DeleteRecordLazy(name)
				if i%7 == 0 {
					_ = bt.ForceBatchRebalance()
				}
				_, _ = bt.GetIncrementalRebalancingProgress()
				_ = bt.IsIncrementalRebalancingEnabled()
				_, _, _ = bt.GetLazyRebalancingStats()
			}
			_ = bt.StopIncrementalRebalancing()
		})
		ev["returned"], ev["panic"] = ret, pm
	case "ticker-with-work": // the background goroutine really consumes pending nodes while progress is queried
		ret, pm := timed(20*time.Second, func() {
			for round := 0; round < 40; round++ {
				bt := verifapi.NewWritableBTreeV2(4096)
				bt.EnableLazyRebalancing(verifapi.DefaultLazyConfig())
				bt.VerifSeedUnderflowNodes(20000)
				ic := verifapi.DefaultIncrementalConfig()
				ic.Interval, ic.Budget = 20*time.Microsecond, 5*time.Microsecond
				_ = bt.EnableIncrementalRebalancing(ic)
				for i := 0; i < 3000; i++ {
					_, _ = bt.GetIncrementalRebalancingProgress()
					if i%8 == 0 {
						runtime.Gosched()
					}
					if i%500 == 0 {
						time.Sleep(30 * time.Microsecond) // let several ticks happen while queries go on
					}
				}
				_ = bt.StopIncrementalRebalancing()
			}
		})
		ev["returned"], ev["panic"] = ret, pm
	case "queries-vs-stop": // progress / enabled queries from one goroutine while another stops
		var qpanics atomic.Int64
		ret, pm := timed(20*time.Second, func() {
			for round := 0; round < 60; round++ {
				bt := newLazyIncr()
				var wg sync.WaitGroup
				wg.Add(2)
				go func() {
					defer wg.Done()
					defer func() {
						if r := recover(); r != nil {
							qpanics.Add(1)
						}
					}()
					for i := 0; i < 200; i++ {
						_, _ = bt.GetIncrementalRebalancingProgress()
						_ = bt.IsIncrementalRebalancingEnabled()
					}
				}()
				go func() {
					defer wg.Done()
					time.Sleep(time.Duration(round%5) * 10 * time.Microsecond)
					_ = bt.StopIncrementalRebalancing()
				}()
				wg.Wait()
			}
		})
		ev["returned"], ev["panic"] = ret, pm
		if qpanics.Load() > 0 && pm == "" {
			ev["panic"] = fmt.Sprintf("nil pointer dereference in a query racing with stop x%d", qpanics.Load())
		}
	case "double-stop": // two goroutines stop the same rebalancer at once
		var panics atomic.Int64
		ret, pm := timed(20*time.Second, func() {
			for round := 0; round < 300; round++ {
				bt := newLazyIncr()
				var wg sync.WaitGroup
				start := make(chan struct{})
				for g := 0; g < 2; g++ {
					wg.Add(1)
					go func() {
						defer wg.Done()
						defer func() {
							if r := recover(); r != nil {
								panics.Add(1)
							}
						}()
						<-start
						_ = bt.StopIncrementalRebalancing()
					}()
				}
				close(start)
				wg.Wait()
			}
		})
		ev["returned"], ev["panic"] = ret, pm
		if panics.Load() > 0 {
			ev["panic"] = fmt.Sprintf("close of closed channel x%d", panics.Load())
		}
	case "start-stop": // every start is matched by a stop that returns; no goroutine is left behind
		ret, pm := timed(30*time.Second, func() {
			for round := 0; round < 300; round++ {
				bt := newLazyIncr()
				_ = bt.InsertRecord("a", 1)
				_ = bt.DeleteRecordLazy("a")
				_ = bt.StopIncrementalRebalancing()
				_ = bt.StopIncrementalRebalancing() // second stop is a no-op
			}
		})
		ev["returned"], ev["panic"] = ret, pm
	case "smart": // smart rebalancer: record/evaluate/stats from several goroutines, start/stop cycles
		ret, pm := timed(30*time.Second, func() {
			for round := 0; round < 40; round++ {
				sr := verifapi.NewSmartRebalancer(&stubBTree{}, verifapi.WithReevalInterval(50*time.Microsecond))
				_ = sr.Start(context.Background())
				var wg sync.WaitGroup
				for g := 0; g < 4; g++ {
					wg.Add(1)
					go func(g int) {
						defer wg.Done()
						for i := 0; i < 150; i++ {
							_ = sr.RecordOperation(verifapi.OperationType(i % 3))
							if g == 0 && i%10 == 0 {
								_, _ = sr.Evaluate()
							}
							_ = sr.GetStats()
							if g == 1 {
								_ = sr.GetMetrics()
							}
						}
					}(g)
				}
				wg.Wait()
				_ = sr.Stop()
				_ = sr.Stop()
			}
		})
		ev["returned"], ev["panic"] = ret, pm
	case "callback-queries-progress": // a progress callback that asks for the progress: the session must not hold its lock while calling it
		ret, pm := timed(20*time.Second, func() {
			for round := 0; round < 10; round++ {
				bt := verifapi.NewWritableBTreeV2(4096)
				bt.EnableLazyRebalancing(verifapi.DefaultLazyConfig())
				bt.VerifSeedUnderflowNodes(2000)
				ic := verifapi.DefaultIncrementalConfig()
				ic.Interval, ic.Budget = 50*time.Microsecond, 20*time.Microsecond
				var calls atomic.Int64
				ic.ProgressCallback = func(verifapi.RebalancingProgress) {
					calls.Add(1)
					_, _ = bt.GetIncrementalRebalancingProgress()
				}
				_ = bt.EnableIncrementalRebalancing(ic)
				deadline := time.Now().Add(300 * time.Millisecond)
				for calls.Load() == 0 && time.Now().Before(deadline) {
					time.Sleep(200 * time.Microsecond)
				}
				_ = bt.StopIncrementalRebalancing()
			}
		})
		ev["returned"], ev["panic"] = ret, pm
	case "smart-stop-inflight": // SmartStop's counterexample: a re-evaluation in flight switches into incremental mode while Stop waits
		ret, pm := timed(30*time.Second, func() {
			for round := 0; round < 5; round++ {
				bt := &gatedBTree{entered: make(chan struct{}), release: make(chan struct{})}
				sr := verifapi.NewSmartRebalancer(bt, verifapi.WithReevalInterval(2*time.Millisecond))
				for i := 0; i < 200; i++ { // mixed workload on a large file: the selector picks incremental mode
					op := verifapi.OpRead
					switch {
					case i%20 < 9:
						op = verifapi.OpWrite
					case i%20 >= 18:
						op = verifapi.OpDelete
					}
					_ = sr.RecordOperation(op)
				}
				if d, _ := sr.Evaluate(); d.Mode != verifapi.ModeIncremental {
					ev["note"] = fmt.Sprintf("setup: selector chose %v", d.Mode)
					return
				}
				bt.slow.Store(true)
				_ = sr.Start(context.Background())
				select {
				case <-bt.entered:
				case <-time.After(3 * time.Second):
					ev["note"] = "setup: the monitor never re-evaluated"
					return
				}
				stopped := make(chan struct{})
				go func() { _ = sr.Stop(); close(stopped) }()
				time.Sleep(50 * time.Millisecond) // Stop has cancelled and waits for the monitor
				close(bt.release)                 // the re-evaluation completes and switches mode
				<-stopped
				if bt.background.Load() {
					ev["bgafter"] = true
				}
			}
		})
		ev["returned"], ev["panic"] = ret, pm
	case "smart-parent-cancel": // SmartStop's second counterexample: the parent context is cancelled, the monitor leaves, then Stop
		ret, pm := timed(30*time.Second, func() {
			for round := 0; round < 5; round++ {
				bt := &gatedBTree{entered: make(chan struct{}), release: make(chan struct{})}
				sr := verifapi.NewSmartRebalancer(bt, verifapi.WithReevalInterval(2*time.Millisecond))
				for i := 0; i < 200; i++ {
					op := verifapi.OpRead
					switch {
					case i%20 < 9:
						op = verifapi.OpWrite
					case i%20 >= 18:
						op = verifapi.OpDelete
					}
					_ = sr.RecordOperation(op)
				}
				if d, _ := sr.Evaluate(); d.Mode != verifapi.ModeIncremental {
					ev["note"] = fmt.Sprintf("setup: selector chose %v", d.Mode)
					return
				}
				ctx, cancel := context.WithCancel(context.Background())
				_ = sr.Start(ctx)
				// let the monitor re-evaluate and enter incremental mode (the background work starts)
				deadline := time.Now().Add(3 * time.Second)
				for !bt.background.Load() && time.Now().Before(deadline) {
					time.Sleep(2 * time.Millisecond)
				}
				if !bt.background.Load() {
					ev["note"] = "setup: incremental mode was never entered"
					cancel()
					_ = sr.Stop()
					return
				}
				cancel()                          // the caller's context ends first ...
				time.Sleep(30 * time.Millisecond) // ... the monitor notices and leaves ...
				_ = sr.Stop()                     // ... and then the rebalancer is stopped
				if bt.background.Load() {
					ev["bgafter"] = true
				}
			}
		})
		ev["returned"], ev["panic"] = ret, pm
	case "readers-same-file", "handles-distinct-files":
		ret, pm := timed(60*time.Second, func() { ev["equal"], ev["note"] = c18Handles(*scenario, *dir, *seed) })
		ev["returned"], ev["panic"] = ret, pm
	case "filewriter-incremental": // the public API: a writer with incremental rebalancing; Close stops all background work
		ret, pm := timed(30*time.Second, func() {
			for round := 0; round < 8; round++ {
				path := filepath.Join(*dir, fmt.Sprintf("c18fw%d.h5", round))
				fw, err := hdf5.CreateForWrite(path, hdf5.CreateTruncate, rebalanceOpts("incr")...)
				if err != nil {
					ev["note"] = err.Error()
					return
				}
				ds, err := fw.CreateDataset("/d", hdf5.Int32, []uint64{2})
				if err == nil {
					_ = ds.Write([]int32{1, 2})
					for i := 0; i < 30; i++ {
						_ = ds.WriteAttribute(fmt.Sprintf("a%d", i), "value-value-value-value-value-value")
					}
					for i := 0; i < 20; i++ {
						_ = ds.DeleteAttribute(fmt.Sprintf("a%d", i))
						_, _ = fw.GetIncrementalRebalancingProgress()
						_ = fw.IsIncrementalRebalancingEnabled()
					}
				}
				_ = fw.Close()
				_ = os.Remove(path)
			}
		})
		ev["returned"], ev["panic"] = ret, pm
	case "bufferpool":
		var bad atomic.Int64
		ret, pm := timed(30*time.Second, func() {
			var wg sync.WaitGroup
			for g := 0; g < 8; g++ {
				wg.Add(1)
				go func(g int) {
					defer wg.Done()
					for i := 0; i < *iters; i++ {
						b := verifapi.GetBuffer(64 + (i%5)*100)
						for k := range b {
							b[k] = byte(g)
						}
						runtime.Gosched()
						for k := range b {
							if b[k] != byte(g) {
								bad.Add(1)
								break
							}
						}
						verifapi.ReleaseBuffer(b)
					}
				}(g)
			}
			wg.Wait()
		})
		ev["returned"], ev["panic"] = ret, pm
		ev["equal"] = bad.Load() == 0
	default:
		fmt.Fprintf(os.Stderr, "unknown scenario %q\n", *scenario)
		os.Exit(2)
	}
	ev["gafter"] = waitGoroutines(base)
	f, err := os.Create(*out)
	lib.Must(err, "create trace")
	defer f.Close()
	_ = json.NewEncoder(f).Encode(ev)
	fmt.Printf("c18 %s: returned=%v panic=%q goroutines %d -> %d equal=%v\n", *scenario, ev["returned"], ev["panic"], base, ev["gafter"], ev["equal"])
}

// c18Handles: independent handles used from different goroutines give the same results as sequentially.
func c18Handles(scenario, dir string, seed int64) (bool, string) {
	mk := func(path string, k int) error {
		fw, err := hdf5.CreateForWrite(path, hdf5.CreateTruncate)
		if err != nil {
			return err
		}
		g, err := fw.CreateGroup("/g")
		if err != nil {
			return err
		}
		_ = g.WriteAttribute("who", fmt.Sprintf("file-%d", k))
		d, err := fw.CreateDataset("/g/d", hdf5.Float64, []uint64{6, 4}, hdf5.WithChunkDims([]uint64{4, 3}))
		if err != nil {
			return err
		}
		v := make([]float64, 24)
		for i := range v {
			v[i] = float64(k*100 + i)
		}
		if err := d.Write(v); err != nil {
			return err
		}
		for i := 0; i < 12; i++ {
			_ = d.WriteAttribute(fmt.Sprintf("a%d", i), int32(k*10+i))
		}
		e, err := fw.CreateDataset("/e", hdf5.Int32, []uint64{5})
		if err != nil {
			return err
		}
		_ = e.Write([]int32{1, 2, 3, int32(k), 5})
		return fw.Close()
	}
	project := func(path string) (string, error) {
		ev := dumpFile(path, nil)
		b, err := json.Marshal(ev)
		return string(b), err
	}
	const n = 8
	if scenario == "readers-same-file" {
		path := filepath.Join(dir, "c18same.h5")
		defer os.Remove(path)
		if err := mk(path, 7); err != nil {
			return false, err.Error()
		}
		want, _ := project(path)
		got := make([]string, n)
		var wg sync.WaitGroup
		for g := 0; g < n; g++ {
			wg.Add(1)
			go func(g int) {
				defer wg.Done()
				for r := 0; r < 5; r++ {
					got[g], _ = project(path)
				}
			}(g)
		}
		wg.Wait()
		for g := range got {
			if got[g] != want {
				return false, fmt.Sprintf("reader %d differs from the sequential projection", g)
			}
		}
		return true, ""
	}
	// writers and readers on distinct files
	want := make([]string, n)
	for k := 0; k < n; k++ {
		p := filepath.Join(dir, fmt.Sprintf("c18seq%d.h5", k))
		if err := mk(p, k); err != nil {
			return false, err.Error()
		}
		want[k], _ = project(p)
		_ = os.Remove(p)
	}
	got := make([]string, n)
	errs := make([]error, n)
	var wg sync.WaitGroup
	for k := 0; k < n; k++ {
		wg.Add(1)
		go func(k int) {
			defer wg.Done()
			p := filepath.Join(dir, fmt.Sprintf("c18par%d.h5", k))
			defer os.Remove(p)
			if errs[k] = mk(p, k); errs[k] == nil {
				got[k], errs[k] = project(p)
			}
		}(k)
	}
	wg.Wait()
	for k := range got {
		if errs[k] != nil {
			return false, errs[k].Error()
		}
		var a, b interface{}
		_ = json.Unmarshal([]byte(got[k]), &a)
		_ = json.Unmarshal([]byte(want[k]), &b)
		if !reflect.DeepEqual(a, b) {
			return false, fmt.Sprintf("file %d written in parallel differs from the sequential one", k)
		}
	}
	return true, ""
}

package main

import "math"

func mathF64(f float64) uint64 { return math.Float64bits(f) }

package main

// hdrchain driver: object header message chains.  Every header shape enumerated by TLC from HeaderChain.tla (blocks of
// payload / null / continuation messages; trees, and shapes that are not trees) is laid out as real bytes - version 1
// and version 2 object headers, blocks in ascending or descending file order, with or without creation-order fields -
// and read with the library's ReadObjectHeader.  The payload messages it returns, in order, are logged for
// HdrChainTrace to compare with Expected(shape).

import (
	"bytes"
	"encoding/binary"
	"encoding/json"
	"fmt"
	"os"
	"time"

	"github.com/scigolib/hdf5"
	"github.com/scigolib/hdf5/verifapi"

	"h5v/lib"
	"h5v/lookup3"
)

type hcEntry struct {
	K  string `json:"k"`
	To int    `json:"to"`
}

type hcCase struct {
	Cfg struct {
		Ver int  `json:"ver"` // 1 | 2
		Crt bool `json:"crt"` // version 2: creation order tracked (6-byte message headers)
		Rev bool `json:"rev"` // blocks placed in descending file order
		Gap int  `json:"gap"` // version 2: every chunk ends in a gap of this many zero bytes (fewer than a message header)
	} `json:"cfg"`
	Blocks   [][]hcEntry `json:"blocks"`
	WF       bool        `json:"wf"`
	Expected []int       `json:"expected"`
	Total    int         `json:"total"`
}

const hcPayloadType = 0x12 // modification time (version 1, three reserved bytes, seconds): present in most reference files, opaque to the header reader

func runHdrChain(args []string) {
	in, out, _, _, workers := stdFlags("hdrchain", args)
	raw, err := lib.ReadCases(in)
	lib.Must(err, "read cases")
	tr := lib.NewTrace()
	lib.ForEach(len(raw), workers, func(i int) {
		var c hcCase
		lib.Must(json.Unmarshal(raw[i], &c), "parse case")
		tr.Put(i, hcOne(&c))
	})
	n, err := tr.WriteFile(out)
	lib.Must(err, "write trace")
	fmt.Printf("hdrchain: cases=%d events=%d\n", len(raw), n)
}

// hcMessages encodes the entries of one block; conts are patched once the addresses are known.
func hcMessages(c *hcCase, b int, nextID *int, addr, size []uint64) []byte {
	var buf bytes.Buffer
	put := func(typ uint16, data []byte) {
		if c.Cfg.Ver == 1 {
			h := make([]byte, 8)
			binary.LittleEndian.PutUint16(h[0:], typ)
			binary.LittleEndian.PutUint16(h[2:], uint16(len(data)))
			buf.Write(h)
			buf.Write(data) // data lengths are multiples of 8
			return
		}
		h := []byte{byte(typ), byte(len(data)), byte(len(data) >> 8), 0}
		buf.Write(h)
		if c.Cfg.Crt {
			buf.Write([]byte{0, 0})
		}
		buf.Write(data)
	}
	entries := c.Blocks[b]
	if len(entries) == 0 {
		entries = []hcEntry{{K: "nil"}} // the reference library has no empty blocks
	}
	for _, e := range entries {
		switch e.K {
		case "m":
			*nextID++
			d := []byte{1, 0, 0, 0, 0, 0, 0, 0}
			binary.LittleEndian.PutUint32(d[4:], uint32(1000+*nextID)) // the seconds field carries the message number
			put(hcPayloadType, d)
		case "nil":
			put(0, make([]byte, 8))
		case "cont":
			d := make([]byte, 16)
			if addr != nil {
				binary.LittleEndian.PutUint64(d[0:], addr[e.To-1])
				binary.LittleEndian.PutUint64(d[8:], size[e.To-1])
			}
			put(0x10, d)
		}
	}
	return buf.Bytes()
}

func hcBuild(c *hcCase) ([]byte, uint64) {
	n := len(c.Blocks)
	nent := 0
	for _, b := range c.Blocks {
		if len(b) == 0 {
			nent++
		}
		nent += len(b)
	}
	// sizes first (independent of addresses), then addresses, then the bytes
	bodyLen := make([]int, n)
	for b := 0; b < n; b++ {
		id := 0
		bodyLen[b] = len(hcMessages(c, b, &id, nil, nil))
	}
	blockLen := make([]uint64, n) // bytes the block occupies in the file
	contLen := make([]uint64, n)  // the length a continuation message states
	for b := 0; b < n; b++ {
		switch {
		case c.Cfg.Ver == 1 && b == 0:
			blockLen[b] = uint64(16 + bodyLen[b])
		case c.Cfg.Ver == 1:
			blockLen[b] = uint64(bodyLen[b])
		case b == 0:
			blockLen[b] = uint64(4 + 1 + 1 + 1 + bodyLen[b] + c.Cfg.Gap + 4)
		default:
			blockLen[b] = uint64(4 + bodyLen[b] + c.Cfg.Gap + 4)
		}
		contLen[b] = blockLen[b]
	}
	addr := make([]uint64, n)
	pos := uint64(64)
	order := make([]int, n)
	for i := range order {
		order[i] = i
		if c.Cfg.Rev {
			order[i] = n - 1 - i
		}
	}
	for _, b := range order {
		addr[b] = pos
		pos += blockLen[b] + 8
		pos = (pos + 7) / 8 * 8
	}
	file := make([]byte, pos+64)
	id := 0
	for b := 0; b < n; b++ {
		body := hcMessages(c, b, &id, addr, contLen)
		var blk bytes.Buffer
		switch {
		case c.Cfg.Ver == 1 && b == 0:
			p := make([]byte, 16)
			p[0] = 1
			binary.LittleEndian.PutUint16(p[2:], uint16(nent))
			binary.LittleEndian.PutUint32(p[4:], 1)
			binary.LittleEndian.PutUint32(p[8:], uint32(len(body)))
			blk.Write(p)
			blk.Write(body)
		case c.Cfg.Ver == 1:
			blk.Write(body)
		default:
			if b == 0 {
				flags := byte(0)
				if c.Cfg.Crt {
					flags |= 0x04
				}
				blk.Write([]byte{'O', 'H', 'D', 'R', 2, flags, byte(len(body) + c.Cfg.Gap)})
			} else {
				blk.Write([]byte("OCHK"))
			}
			blk.Write(body)
			blk.Write(make([]byte, c.Cfg.Gap))
			var ck [4]byte
			binary.LittleEndian.PutUint32(ck[:], lookup3.HashLittle(blk.Bytes(), 0))
			blk.Write(ck[:])
		}
		copy(file[addr[b]:], blk.Bytes())
	}
	return file, addr[0]
}

// budgetReader counts the reads of one header parse.  The images are below 1 KiB and hold at most 3 blocks: a parse
// that issues thousands of reads is following a cycle.  Past the budget every read fails, so that the parse ends
// (and does not eat the machine's memory first); the case is recorded as a hang.
type budgetReader struct {
	r     *bytes.Reader
	n     int
	blown bool
}

const hcReadBudget = 20000

func (b *budgetReader) ReadAt(p []byte, off int64) (int, error) {
	b.n++
	if b.n > hcReadBudget {
		b.blown = true
		return 0, fmt.Errorf("read budget exhausted")
	}
	return b.r.ReadAt(p, off)
}

func (b *budgetReader) Size() int64 { return b.r.Size() }

func hcOne(c *hcCase) []lib.Ev {
	evs := []lib.Ev{{"op": "reset", "cfg": map[string]interface{}{"ver": c.Cfg.Ver, "crt": c.Cfg.Crt, "rev": c.Cfg.Rev, "gap": c.Cfg.Gap,
		"wf": c.WF, "expected": c.Expected, "total": c.Total, "nblocks": len(c.Blocks), "blocks": c.Blocks}}}
	file, a0 := hcBuild(c)
	sb := &verifapi.Superblock{Version: 2, OffsetSize: 8, LengthSize: 8, Endianness: binary.LittleEndian}
	ev := lib.Ev{"op": "hdr", "res": "", "msg": "", "msgs": []int{}, "returned": 0}
	br := &budgetReader{r: bytes.NewReader(file)}
	done := make(chan struct{})
	go func() {
		defer close(done)
		ids := []int{}
		nret := 0
		res, msg := lib.Call(func() error {
			oh, err := verifapi.ReadObjectHeader(br, a0, sb)
			if err != nil {
				return err
			}
			nret = len(oh.Messages)
			for _, m := range oh.Messages {
				if int(m.Type) == hcPayloadType && len(m.Data) >= 8 {
					ids = append(ids, int(binary.LittleEndian.Uint32(m.Data[4:8]))-1000)
				}
			}
			return nil
		})
		if br.blown && res != "panic" {
			res, msg = "hang", fmt.Sprintf("more than %d reads for a header image of %d bytes", hcReadBudget, len(file))
		}
		ev["res"], ev["msg"], ev["msgs"], ev["returned"] = res, msg, ids, nret
	}()
	select {
	case <-done:
	case <-time.After(10 * time.Second):
		ev = lib.Ev{"op": "hdr", "res": "hang", "msg": "no answer within 10 s", "msgs": []int{}, "returned": 0}
	}
	if s, ok := ev["msg"].(string); ok && len(s) > 300 {
		ev["msg"] = s[:300]
	}
	return append(evs, ev)
}

// runDagOpen materialises the counterexample of GroupWalk.tla for the "inprogress" policy: a chain of d groups in
// which every group has two hard links to the next one.  The file has d groups; a reader that loads a group once per
// path to it loads 2^d groups.  Open must answer within the budget (it takes about a millisecond when every group is
// loaded once; 2^24 loads take minutes).
func runDagOpen(args []string) {
	_, out, dir, _, _ := stdFlags("dagopen", args)
	tr := lib.NewTrace()
	k := 0
	for _, sbv := range []uint8{0, 2} {
		const depth = 24
		ev := lib.Ev{"op": "dag", "sb": int(sbv), "depth": depth, "res": "", "msg": "", "ms": 0}
		path := lib.TmpFile(dir, k, "dag")
		res, msg := lib.Call(func() error {
			fw, err := hdf5.CreateForWrite(path, hdf5.CreateTruncate, hdf5.WithSuperblockVersion(sbv))
			if err != nil {
				return err
			}
			prev := ""
			for i := 0; i < depth; i++ {
				p := fmt.Sprintf("%s/g%d", prev, i)
				if _, err := fw.CreateGroup(p); err != nil {
					return err
				}
				if i > 0 {
					if err := fw.CreateHardLink(fmt.Sprintf("%s/h%d", prev, i), p); err != nil {
						return err
					}
				}
				prev = p
			}
			return fw.Close()
		})
		if res != "ok" {
			ev["res"], ev["msg"] = "setup-"+res, msg
			tr.Put(k, []lib.Ev{{"op": "reset", "cfg": map[string]interface{}{"family": "group-dag", "wf": false, "blocks": [][]hcEntry{}, "ver": 0, "crt": false, "rev": false, "gap": 0, "nblocks": 0}}, ev})
			k++
			continue
		}
		done := make(chan struct{})
		t0 := time.Now()
		go func() {
			defer close(done)
			r, m := lib.Call(func() error {
				f, err := hdf5.Open(path)
				if err != nil {
					return err
				}
				return f.Close()
			})
			ev["res"], ev["msg"] = r, m
		}()
		select {
		case <-done:
			ev["ms"] = int(time.Since(t0) / time.Millisecond)
		case <-time.After(20 * time.Second):
			ev = lib.Ev{"op": "dag", "sb": int(sbv), "depth": depth, "res": "hang", "msg": "Open of a file with 24 groups did not answer within 20 s", "ms": 20000}
		}
		tr.Put(k, []lib.Ev{{"op": "reset", "cfg": map[string]interface{}{"family": "group-dag", "wf": false, "blocks": [][]hcEntry{}, "ver": 0, "crt": false, "rev": false, "gap": 0, "nblocks": 0}}, ev})
		k++
		_ = os.Remove(path)
	}
	// The same counterexample for the chunk index (B-tree version 1): two nodes per level, each pointing to both nodes of
	// the level below - 2^40 root-to-leaf paths in a few kilobytes.  Every reader of chunked data is asked.
	for _, reader := range []string{"read", "slice", "hyperslab", "iterator"} {
		ev := lib.Ev{"op": "dag", "family": "chunk-dag-" + reader, "sb": 2, "depth": 40, "res": "", "msg": "", "ms": 0}
		path := lib.TmpFile(dir, k, "cdag")
		res, msg := lib.Call(func() error { return buildChunkDag(path, 40) })
		reset := lib.Ev{"op": "reset", "cfg": map[string]interface{}{"family": "chunk-dag", "wf": false, "blocks": [][]hcEntry{}, "ver": 0, "crt": false, "rev": false, "gap": 0, "nblocks": 0}}
		if res != "ok" {
			ev["res"], ev["msg"] = "setup-"+res, msg
			tr.Put(k, []lib.Ev{reset, ev})
			k++
			continue
		}
		type answer struct{ r, m string }
		done := make(chan answer, 1)
		t0 := time.Now()
		go func() {
			r, m := lib.Call(func() error {
				f, err := hdf5.Open(path)
				if err != nil {
					return err
				}
				defer f.Close()
				var ds *hdf5.Dataset
				f.Walk(func(p string, o hdf5.Object) {
					if d, ok := o.(*hdf5.Dataset); ok && ds == nil {
						ds = d
					}
				})
				if ds == nil {
					return fmt.Errorf("dataset not listed")
				}
				switch reader {
				case "read":
					_, err = ds.Read()
				case "slice":
					_, err = ds.ReadSlice([]uint64{0, 0}, []uint64{2, 2})
				case "hyperslab":
					_, err = ds.ReadHyperslab(&hdf5.HyperslabSelection{Start: []uint64{0, 0}, Count: []uint64{2, 2}, Stride: []uint64{1, 1}, Block: []uint64{1, 1}})
				case "iterator":
					var it *hdf5.ChunkIterator
					it, err = ds.ChunkIterator()
					for n := 0; err == nil && n < 1000 && it.Next(); n++ {
					}
					if err == nil {
						err = it.Err()
					}
				}
				return err
			})
			done <- answer{r, m}
		}()
		select {
		case a := <-done:
			ev["res"], ev["msg"], ev["ms"] = a.r, a.m, int(time.Since(t0)/time.Millisecond)
		case <-time.After(20 * time.Second):
			ev["res"], ev["msg"], ev["ms"] = "hang", "a 15 KB file whose chunk index nodes are shared between parents (2^40 paths) was not answered within 20 s by "+reader, 20000
		}
		tr.Put(k, []lib.Ev{reset, ev})
		k++
		_ = os.Remove(path)
	}
	n, err := tr.WriteFile(out)
	lib.Must(err, "write trace")
	fmt.Printf("dagopen: cases=%d events=%d\n", k, n)
}

// buildChunkDag writes a small chunked dataset through the library and replaces its chunk index by a DAG of B-tree
// version 1 nodes of the given height in which every node is the child of both nodes of the level above.
func buildChunkDag(path string, top int) error {
	fw, err := hdf5.CreateForWrite(path, hdf5.CreateTruncate)
	if err != nil {
		return err
	}
	dw, err := fw.CreateDataset("/d", hdf5.Float64, []uint64{20, 20}, hdf5.WithChunkDims([]uint64{10, 10}))
	if err != nil {
		return err
	}
	if err := dw.Write(make([]float64, 400)); err != nil {
		return err
	}
	if err := fw.Close(); err != nil {
		return err
	}
	image, err := os.ReadFile(path)
	if err != nil {
		return err
	}
	// the chunk index: the first B-tree version 1 node of type 1 (raw data chunks); its address stands in the layout message
	treeAddr := -1
	for i := 0; i+8 <= len(image); i++ {
		if string(image[i:i+4]) == "TREE" && image[i+4] == 1 {
			treeAddr = i
			break
		}
	}
	if treeAddr < 0 {
		return fmt.Errorf("no chunk index node in the file the library wrote")
	}
	// its address stands in the layout message, right after the dimensionality byte (version 3 layout, chunked)
	var old [8]byte
	binary.LittleEndian.PutUint64(old[:], uint64(treeAddr))
	at := bytes.Index(image[:treeAddr], old[:])
	if at < 3 || image[at-2] != 2 || image[at-3] != 3 {
		return fmt.Errorf("chunk index address not found in a version 3 chunked layout message")
	}
	ndims := int(image[at-1])
	keySize := 8 + 8*ndims
	nodeSize := (24 + 2*(keySize+8) + keySize + 7) &^ 7
	base := (len(image) + 7) &^ 7
	image = append(image, make([]byte, base-len(image))...)
	addrOf := func(level, which int) uint64 { return uint64(base + (2*level+which)*nodeSize) }
	node := func(level int, children []uint64) []byte {
		b := make([]byte, nodeSize)
		copy(b, "TREE")
		b[4], b[5] = 1, byte(level)
		binary.LittleEndian.PutUint16(b[6:], uint16(len(children)))
		binary.LittleEndian.PutUint64(b[8:], ^uint64(0))
		binary.LittleEndian.PutUint64(b[16:], ^uint64(0))
		pos := 24
		for _, c := range children {
			pos += keySize
			binary.LittleEndian.PutUint64(b[pos:], c)
			pos += 8
		}
		return b
	}
	for level := 0; level <= top; level++ {
		for which := 0; which < 2; which++ {
			var children []uint64
			if level > 0 {
				children = []uint64{addrOf(level-1, 0), addrOf(level-1, 1)}
			}
			image = append(image, node(level, children)...)
		}
	}
	rootAddr := addrOf(top+1, 0)
	image = append(image, node(top+1, []uint64{addrOf(top, 0), addrOf(top, 1)})...)
	var repl [8]byte
	binary.LittleEndian.PutUint64(repl[:], rootAddr)
	copy(image[at:], repl[:])
	if image[8] >= 2 {
		binary.LittleEndian.PutUint64(image[28:], uint64(len(image)))
	}
	return os.WriteFile(path, image, 0o600)
}

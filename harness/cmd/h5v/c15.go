package main

// C15 driver: writable fractal heap.  Replays insert/overwrite/delete/write-out/load-back
// sequences and, after every call, reads back every object the model considers live.

import (
	"encoding/binary"
	"encoding/json"
	"fmt"
	"os"

	"github.com/scigolib/hdf5/verifapi"

	"h5v/lib"
)

type fhOp struct {
	Op  string `json:"op"` // ins ovw del write load
	Len int    `json:"len"`
	I   int    `json:"i"` // 1-based number of the insert that created the object
}

type c15Case struct {
	Cfg struct {
		Block int `json:"block"`
	} `json:"cfg"`
	Ops []fhOp `json:"ops"`
}

func runC15(args []string) {
	in, out, dir, seed, workers := stdFlags("c15", args)
	raw, err := lib.ReadCases(in)
	lib.Must(err, "read cases")
	tr := lib.NewTrace()
	lib.ForEach(len(raw), workers, func(i int) {
		var c c15Case
		lib.Must(json.Unmarshal(raw[i], &c), "parse case")
		tr.Put(i, c15One(i, &c, dir, seed))
	})
	n, err := tr.WriteFile(out)
	lib.Must(err, "write trace")
	fmt.Printf("c15: cases=%d events=%d\n", len(raw), n)
}

// decodeHeapID decodes a managed-object heap id per the HDF5 format (flags, offset, length).
func decodeHeapID(id []byte, offSize, lenSize int) (off, ln int, ok bool) {
	if len(id) < 1+offSize+lenSize || id[0]&0xF0 != 0 {
		return 0, 0, false
	}
	var b [8]byte
	copy(b[:], id[1:1+offSize])
	off = int(binary.LittleEndian.Uint64(b[:]))
	b = [8]byte{}
	copy(b[:], id[1+offSize:1+offSize+lenSize])
	ln = int(binary.LittleEndian.Uint64(b[:]))
	return off, ln, true
}

func c15One(id int, c *c15Case, dir string, seed int64) []lib.Ev {
	block := uint64(c.Cfg.Block)
	evs := []lib.Ev{{"op": "reset", "cfg": map[string]interface{}{"block": c.Cfg.Block}}}
	var fh *verifapi.WritableFractalHeap
	if res, msg := lib.Call(func() error { fh = verifapi.NewWritableFractalHeap(block); return nil }); res != "ok" {
		return append(evs, lib.Ev{"op": "setup", "res": res, "msg": msg})
	}
	path := lib.TmpFile(dir, id, "fh")
	defer os.Remove(path)
	var fw *verifapi.FileWriter
	var hdrAddr uint64
	loaded := false
	sb := &verifapi.Superblock{Version: 2, OffsetSize: 8, LengthSize: 8, Endianness: binary.LittleEndian}
	ids := map[int][]byte{} // insert number -> heap id returned by the library
	nIns := 0
	rng := lib.Rng(seed, id, "blob")
	for _, o := range c.Ops {
		ev := lib.Ev{"op": o.Op, "i": o.I, "len": o.Len, "indbefore": fh != nil && fh.RootIndirectBlock != nil}
		switch o.Op {
		case "ins":
			nIns++
			data := make([]byte, o.Len)
			rng.Read(data)
			for k := range data { // no zero bytes: a deleted (zeroed) region is distinguishable
				if data[k] == 0 {
					data[k] = 1
				}
			}
			ev["i"], ev["data"] = nIns, lib.Hex(data)
			n := nIns
			ev["res"], ev["msg"] = lib.Call(func() error {
				hid, err := fh.InsertObject(data)
				if err == nil {
					ids[n] = hid
					off, ln, ok := decodeHeapID(hid, int(fh.Header.HeapOffsetSize), int(fh.Header.HeapLengthSize))
					ev["id"], ev["off"], ev["idlen"], ev["idok"] = lib.Hex(hid), off, ln, ok
				}
				return err
			})
		case "ovw":
			data := make([]byte, o.Len)
			rng.Read(data)
			for k := range data {
				if data[k] == 0 {
					data[k] = 1
				}
			}
			ev["data"] = lib.Hex(data)
			hid, ok := ids[o.I]
			if !ok {
				ev["res"], ev["msg"] = "nohandle", ""
				break
			}
			ev["res"], ev["msg"] = lib.Call(func() error { return fh.OverwriteObject(hid, data) })
		case "del":
			hid, ok := ids[o.I]
			if !ok {
				ev["res"], ev["msg"] = "nohandle", ""
				break
			}
			ev["res"], ev["msg"] = lib.Call(func() error { return fh.DeleteObject(hid) })
		case "write":
			ev["res"], ev["msg"] = lib.Call(func() error {
				if fw == nil {
					w, err := verifapi.NewFileWriter(path, verifapi.ModeTruncate, 64)
					if err != nil {
						return err
					}
					fw = w
				}
				if loaded {
					return fh.WriteAt(fw, sb)
				}
				a, err := fh.WriteToFile(fw, fw.Allocator(), sb)
				if err == nil {
					hdrAddr = a
				}
				return err
			})
		case "load":
			if fw == nil {
				ev["res"], ev["msg"] = "nohandle", ""
				break
			}
			ev["res"], ev["msg"] = lib.Call(func() error {
				nh := verifapi.NewWritableFractalHeap(block)
				if err := nh.LoadFromFile(fw.Reader(), hdrAddr, sb); err != nil {
					return err
				}
				fh, loaded = nh, true
				return nil
			})
		default:
			lib.Must(fmt.Errorf("unknown op %q", o.Op), "case")
		}
		// projection: header accounting and a read of every object ever inserted
		gets := map[string]interface{}{}
		res, _ := lib.Call(func() error {
			ev["nobjs"], ev["free"] = int(fh.Header.NumManagedObjects), int(fh.Header.FreeSpace)
			ev["managed"] = int(fh.Header.ManagedSpaceSize)
			ev["indirect"] = fh.RootIndirectBlock != nil
			return nil
		})
		ev["proj"] = res
		for n, hid := range ids {
			var got string
			r, _ := lib.Call(func() error {
				b, err := fh.GetObject(hid)
				if err != nil {
					return err
				}
				got = lib.Hex(b)
				return nil
			})
			gets[fmt.Sprintf("%d", n)] = map[string]interface{}{"res": r, "data": got}
		}
		ev["get"] = gets
		evs = append(evs, ev)
	}
	if fw != nil {
		_ = fw.Close()
	}
	return evs
}

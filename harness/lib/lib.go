// Package lib holds what every driver shares: case input, trace output, worker pool,
// deterministic value generation and the panic-safe call wrapper.
package lib

import (
	"bufio"
	"encoding/json"
	"fmt"
	"hash/fnv"
	"math/rand"
	"os"
	"path/filepath"
	"runtime/debug"
	"sort"
	"sync"
)

// Ev is one trace event (one ndjson line).
type Ev map[string]interface{}

// Trace collects the events of all cases; events of one case stay contiguous and ordered.
type Trace struct {
	mu    sync.Mutex
	cases map[int][]Ev
}

func NewTrace() *Trace { return &Trace{cases: map[int][]Ev{}} }

// Put stores the events of one finished case.
func (t *Trace) Put(id int, evs []Ev) {
	t.mu.Lock()
	t.cases[id] = evs
	t.mu.Unlock()
}

// WriteFile writes all cases ordered by case id; every event gets its case id.
func (t *Trace) WriteFile(path string) (nEvents int, err error) {
	f, err := os.Create(path)
	if err != nil {
		return 0, err
	}
	defer f.Close()
	w := bufio.NewWriterSize(f, 1<<20)
	ids := make([]int, 0, len(t.cases))
	for id := range t.cases {
		ids = append(ids, id)
	}
	sort.Ints(ids)
	enc := json.NewEncoder(w)
	enc.SetEscapeHTML(false)
	for _, id := range ids {
		for _, e := range t.cases[id] {
			e["case"] = id
			if err := enc.Encode(e); err != nil {
				return nEvents, err
			}
			nEvents++
		}
	}
	return nEvents, w.Flush()
}

// ReadCases reads an ndjson file of cases into raw messages.
func ReadCases(path string) ([]json.RawMessage, error) {
	f, err := os.Open(path)
	if err != nil {
		return nil, err
	}
	defer f.Close()
	var out []json.RawMessage
	sc := bufio.NewScanner(f)
	sc.Buffer(make([]byte, 1<<20), 1<<28)
	for sc.Scan() {
		b := sc.Bytes()
		if len(b) == 0 {
			continue
		}
		c := make([]byte, len(b))
		copy(c, b)
		out = append(out, c)
	}
	return out, sc.Err()
}

// ForEach runs fn(i) for i in [0,n) on `workers` goroutines.
func ForEach(n, workers int, fn func(i int)) {
	if workers < 1 {
		workers = 1
	}
	var wg sync.WaitGroup
	ch := make(chan int, 256)
	for w := 0; w < workers; w++ {
		wg.Add(1)
		go func() {
			defer wg.Done()
			for i := range ch {
				fn(i)
			}
		}()
	}
	for i := 0; i < n; i++ {
		ch <- i
	}
	close(ch)
	wg.Wait()
}

// Call runs fn and classifies the outcome: "ok", "err" or "panic" (with text).
func Call(fn func() error) (res string, msg string) {
	defer func() {
		if r := recover(); r != nil {
			res = "panic"
			msg = fmt.Sprintf("%v\n%s", r, debug.Stack())
			if len(msg) > 600 {
				msg = msg[:600]
			}
		}
	}()
	if err := fn(); err != nil {
		return "err", err.Error()
	}
	return "ok", ""
}

// Rng returns a deterministic generator for (seed, case id, salt).
func Rng(seed int64, id int, salt string) *rand.Rand {
	h := fnv.New64a()
	fmt.Fprintf(h, "%d/%d/%s", seed, id, salt)
	return rand.New(rand.NewSource(int64(h.Sum64())))
}

// TmpFile returns a path for case id inside dir.
func TmpFile(dir string, id int, suffix string) string {
	return filepath.Join(dir, fmt.Sprintf("c%06d%s.h5", id, suffix))
}

// Must aborts the driver with exit status 2 (infrastructure failure, never a verdict).
func Must(err error, what string) {
	if err != nil {
		fmt.Fprintf(os.Stderr, "h5v: %s: %v\n", what, err)
		os.Exit(2)
	}
}

// Hex renders bytes as lowercase hex; long values are replaced by "len:fnv64" digests so that
// trace lines stay small while equality is preserved (same function on both sides).
func Hex(b []byte) string {
	const hexd = "0123456789abcdef"
	if len(b) > 64 {
		h := fnv.New64a()
		h.Write(b)
		return fmt.Sprintf("d%d:%016x", len(b), h.Sum64())
	}
	out := make([]byte, len(b)*2)
	for i, c := range b {
		out[2*i] = hexd[c>>4]
		out[2*i+1] = hexd[c&15]
	}
	return "x" + string(out)
}

package lib

import (
	"encoding/binary"
	"fmt"
	"math"
	"math/rand"
	"reflect"
	"strconv"
	"strings"
)

// ValDesc is the harness' own description of an attribute value: what HDF5 class/size/sign,
// shape and little-endian bytes the Go value stands for, derived by reflection here and NOT by
// the library's inference code.  The same keys are logged for the written value (expected) and
// for what the reopened file shows (observed); the trace specification compares them.
type ValDesc struct {
	Cls  int    `json:"cls"`  // HDF5 datatype class (0 fixed, 1 float, 3 string)
	Size int    `json:"size"` // element size in bytes
	Sign int    `json:"sign"` // 1 signed, 0 unsigned / not applicable
	Dims []int  `json:"dims"` // [1] for scalars
	Data string `json:"data"` // Hex() of the element bytes
	RV   string `json:"rv"`   // canonical text of the decoded value(s); "err" if no typed read
}

// DescribeGo computes the expected descriptor of a Go value handed to WriteAttribute.
func DescribeGo(v interface{}) (ValDesc, bool) {
	rv := reflect.ValueOf(v)
	d := ValDesc{Dims: []int{1}}
	var buf []byte
	var canon []string
	put := func(e reflect.Value) bool {
		switch e.Kind() {
		case reflect.Int8, reflect.Int16, reflect.Int32, reflect.Int64:
			d.Cls, d.Sign, d.Size = 0, 1, int(e.Type().Size())
			b := make([]byte, 8)
			binary.LittleEndian.PutUint64(b, uint64(e.Int()))
			buf = append(buf, b[:d.Size]...)
			canon = append(canon, strconv.FormatInt(e.Int(), 10))
		case reflect.Uint8, reflect.Uint16, reflect.Uint32, reflect.Uint64:
			d.Cls, d.Sign, d.Size = 0, 0, int(e.Type().Size())
			b := make([]byte, 8)
			binary.LittleEndian.PutUint64(b, e.Uint())
			buf = append(buf, b[:d.Size]...)
			canon = append(canon, strconv.FormatUint(e.Uint(), 10))
		case reflect.Float32:
			d.Cls, d.Sign, d.Size = 1, 0, 4
			bits := math.Float32bits(float32(e.Float()))
			b := make([]byte, 4)
			binary.LittleEndian.PutUint32(b, bits)
			buf = append(buf, b...)
			canon = append(canon, fmt.Sprintf("f%08x", bits))
		case reflect.Float64:
			d.Cls, d.Sign, d.Size = 1, 0, 8
			bits := math.Float64bits(e.Float())
			b := make([]byte, 8)
			binary.LittleEndian.PutUint64(b, bits)
			buf = append(buf, b...)
			canon = append(canon, fmt.Sprintf("d%016x", bits))
		default:
			return false
		}
		return true
	}
	switch rv.Kind() {
	case reflect.String:
		s := rv.String()
		d.Cls, d.Size, d.Sign = 3, len(s)+1, 0
		buf = append([]byte(s), 0)
		canon = []string{"s" + Hex([]byte(s))}
	case reflect.Slice:
		d.Dims = []int{rv.Len()}
		for i := 0; i < rv.Len(); i++ {
			if !put(rv.Index(i)) {
				return d, false
			}
		}
	default:
		if !put(rv) {
			return d, false
		}
	}
	d.Data = Hex(buf)
	d.RV = strings.Join(canon, ",")
	if len(d.RV) > 96 {
		d.RV = Hex([]byte(d.RV))
	}
	return d, true
}

// CanonRead renders what Attribute.ReadValue returned in the same canonical form as DescribeGo's
// RV; numeric Go type width/sign is not part of it (only the numbers are), floats are bit patterns.
func CanonRead(v interface{}, err error) string {
	if err != nil {
		return "err"
	}
	rv := reflect.ValueOf(v)
	one := func(e reflect.Value) (string, bool) {
		if e.Kind() == reflect.Interface {
			e = e.Elem()
		}
		switch e.Kind() {
		case reflect.Int8, reflect.Int16, reflect.Int32, reflect.Int64, reflect.Int:
			return strconv.FormatInt(e.Int(), 10), true
		case reflect.Uint8, reflect.Uint16, reflect.Uint32, reflect.Uint64, reflect.Uint:
			return strconv.FormatUint(e.Uint(), 10), true
		case reflect.Float32:
			return fmt.Sprintf("f%08x", math.Float32bits(float32(e.Float()))), true
		case reflect.Float64:
			return fmt.Sprintf("d%016x", math.Float64bits(e.Float())), true
		case reflect.String:
			return "s" + Hex([]byte(e.String())), true
		}
		return "", false
	}
	var parts []string
	if rv.Kind() == reflect.Slice {
		for i := 0; i < rv.Len(); i++ {
			s, ok := one(rv.Index(i))
			if !ok {
				return "unk:" + rv.Type().String()
			}
			parts = append(parts, s)
		}
	} else {
		s, ok := one(rv)
		if !ok {
			return "unk:" + fmt.Sprintf("%T", v)
		}
		parts = []string{s}
	}
	out := strings.Join(parts, ",")
	if len(out) > 96 {
		out = Hex([]byte(out))
	}
	return out
}

// MakeValue concretises an abstract value class.  Classes (all accepted by WriteAttribute):
// i8 i16 i32 i64 u8 u16 u32 u64 f32 f64 sN (string of N bytes) aiN (N int32) alN (N int64)
// afN (N float32) adN (N float64).  A trailing variant letter ('a','b',…) after ':' selects
// distinct content of the same size, e.g. "i32:a" / "i32:b".
func MakeValue(class string, r *rand.Rand) (interface{}, error) {
	base := class
	variant := ""
	if i := strings.IndexByte(class, ':'); i >= 0 {
		base, variant = class[:i], class[i+1:]
	}
	salt := int64(0)
	for _, c := range variant {
		salt = salt*31 + int64(c)
	}
	ext := r.Intn(4) // choose extreme representatives sometimes
	num := func(prefix string) (int, error) {
		n, err := strconv.Atoi(strings.TrimPrefix(base, prefix))
		if err != nil || n < 0 {
			return 0, fmt.Errorf("bad value class %q", class)
		}
		return n, nil
	}
	switch {
	// values of different types and shapes that encode to the SAME bytes (all zero): an overwrite of one by another
	// changes the attribute's type or shape and nothing else
	case base == "zi32":
		return int32(0), nil
	case base == "zf32":
		return float32(0), nil
	case base == "zi64":
		return int64(0), nil
	case base == "zf64":
		return float64(0), nil
	case base == "zai2":
		return []int32{0, 0}, nil
	case base == "zai1":
		return []int32{0}, nil
	case base == "zaf2":
		return []float32{0, 0}, nil
	case base == "i8":
		return int8(pick(ext, r, []int64{math.MinInt8, math.MaxInt8, -1}) + salt), nil
	case base == "i16":
		return int16(pick(ext, r, []int64{math.MinInt16, math.MaxInt16, -1}) + salt), nil
	case base == "i32":
		return int32(pick(ext, r, []int64{math.MinInt32, math.MaxInt32, -1}) + salt), nil
	case base == "i64":
		return pick(ext, r, []int64{math.MinInt64, math.MaxInt64, -1}) + salt, nil
	case base == "u8":
		return uint8(pick(ext, r, []int64{0xff, 0x80, 0}) + salt), nil
	case base == "u16":
		return uint16(pick(ext, r, []int64{0xffff, 0x8000, 0}) + salt), nil
	case base == "u32":
		return uint32(pick(ext, r, []int64{0xffffffff, 0x80000000, 4000000000}) + salt), nil
	case base == "u64":
		return uint64(pick(ext, r, []int64{-1, math.MinInt64, 1 << 53})) + uint64(salt), nil
	case base == "f32":
		c := []float32{float32(math.Inf(-1)), math.MaxFloat32, float32(math.Copysign(0, -1)), math.Float32frombits(0x7fc00001 + uint32(salt&0xff))}
		if ext < 3 {
			return c[(ext+int(salt))%4], nil
		}
		return float32(r.NormFloat64()) + float32(salt), nil
	case base == "f64":
		c := []float64{math.Inf(1), math.SmallestNonzeroFloat64, math.Copysign(0, -1), math.Float64frombits(0x7ff8000000000001 + uint64(salt&0xff))}
		if ext < 3 {
			return c[(ext+int(salt))%4], nil
		}
		return r.NormFloat64() + float64(salt), nil
	case strings.HasPrefix(base, "s"):
		n, err := num("s")
		if err != nil {
			return nil, err
		}
		b := make([]byte, n)
		for i := range b {
			b[i] = byte('a' + r.Intn(26))
		}
		if n > 0 && variant != "" {
			b[0] = variant[0]
		}
		// every third string holds multi-byte UTF-8 (still N bytes): its length in characters differs from its length in bytes
		if n >= 3 && r.Intn(3) == 0 {
			for i := n - 2; i >= 1 && i >= n-6; i -= 2 {
				b[i], b[i+1] = 0xC3, 0xA9 // U+00E9
			}
		}
		return string(b), nil
	case strings.HasPrefix(base, "ai"):
		n, err := num("ai")
		if err != nil {
			return nil, err
		}
		v := make([]int32, n)
		for i := range v {
			v[i] = int32(r.Uint32()) + int32(salt)
		}
		return v, nil
	case strings.HasPrefix(base, "al"):
		n, err := num("al")
		if err != nil {
			return nil, err
		}
		v := make([]int64, n)
		for i := range v {
			v[i] = int64(r.Uint64()) + salt
		}
		return v, nil
	case strings.HasPrefix(base, "af"):
		n, err := num("af")
		if err != nil {
			return nil, err
		}
		v := make([]float32, n)
		for i := range v {
			v[i] = float32(r.NormFloat64()) + float32(salt)
		}
		return v, nil
	case strings.HasPrefix(base, "ad"):
		n, err := num("ad")
		if err != nil {
			return nil, err
		}
		v := make([]float64, n)
		for i := range v {
			v[i] = r.NormFloat64() + float64(salt)
		}
		return v, nil
	}
	return nil, fmt.Errorf("unknown value class %q", class)
}

func pick(ext int, r *rand.Rand, extremes []int64) int64 {
	if ext < len(extremes) {
		return extremes[ext]
	}
	return r.Int63() >> uint(r.Intn(60))
}

#!/bin/sh
# run.sh <Cxx> <quick|thorough> [--replay <path>]
exec python3 "$(dirname "$0")/tools/check.py" "$@"

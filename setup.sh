#!/bin/sh
# Run once after a fresh restore, offline. Syntax-checks every TLA+ module and warms the Go
# build cache by building the harness against /repo. Nothing it produces is needed under /tmp.
set -e
cd "$(dirname "$0")"
export GOFLAGS=-mod=mod GOPROXY=off GOSUMDB=off GOTOOLCHAIN=local
S=$(mktemp -d)
trap 'rm -rf "$S"' EXIT
mkdir -p "$S/spec" evidence replays
cp spec/*/*.tla "$S/spec/"
( cd "$S/spec" && for f in *.tla; do
    tla-sany "$f" > "$S/sany.out" 2>&1 || { echo "SANY failed on $f"; cat "$S/sany.out"; exit 1; }
  done )
cp -r harness "$S/hb"
sed "s#@REPO@#${H5V_REPO:-/repo}#" harness/go.mod.tmpl > "$S/hb/go.mod"
cp "${H5V_REPO:-/repo}/go.sum" "$S/hb/go.sum"
( cd "$S/hb" && go1.26 build -tags verif -o "$S/h5v" ./cmd/h5v )
echo "setup ok"

CONSTANTS
  Names <- AllNames
  Vals <- GenVals
  NoVal = NoVal
  MaxCompact = 8
  HdrCap = 25
  Size <- GenSize
  Hash <- GenHash
  CODE_SearchByHashOnly = FALSE
  Depth = 3
  PreSet = {3, 7}
  Objs = {"dataset"}
  Sbs = {2}
  Styles = {9}
SPECIFICATION GSpec
INVARIANT Emit
CHECK_DEADLOCK FALSE

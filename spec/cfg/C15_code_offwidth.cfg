\* the id's offset field is narrower than the block (the pinned code: 16 bits for a 512 KiB block): TLC must find an id that
\* does not lead back to its object
CONSTANTS
  Blobs <- MCBlobs
  NoBlob = NoBlob
  LenOf <- MCLen
  BlockSize = 6
  Prefix = 2
  Cksum = 1
  OffMod = 2
  CODE_CapacityIgnoresPrefix = FALSE
SPECIFICATION Spec
CONSTRAINT Bounded
INVARIANTS IdsDistinct IdResolves RangesDisjoint Accounting NoByteLost NothingGarbled
PROPERTIES Refines
CHECK_DEADLOCK FALSE

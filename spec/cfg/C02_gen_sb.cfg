CONSTANTS
  Names <- AllNames
  Vals <- GenVals
  NoVal = NoVal
  MaxCompact = 8
  HdrCap = 25
  Size <- GenSize
  Hash <- GenHash
  CODE_SearchByHashOnly = FALSE
  Depth = 2
  PreSet = {0, 8}
  Objs = {"dataset", "group"}
  Sbs = {0, 3}
  Styles = {9}
SPECIFICATION GSpec
INVARIANT Emit
CHECK_DEADLOCK FALSE

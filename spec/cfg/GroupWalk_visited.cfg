CONSTANTS
  Nodes = {1, 2, 3}
  MaxOut = 2
  Policy = "visited"
SPECIFICATION Spec
INVARIANTS TypeOK Complete Sound LoadsLinear
CHECK_DEADLOCK FALSE

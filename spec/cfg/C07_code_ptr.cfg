CONSTANTS
  Nodes = {1, 2}
  Kinds = {"link", "stab", "cont", "cbt"}
  MaxOut = 1
  FileSize = 2
  SizeVals = {1}
  Guarded = {"stab"}
  CheckedSizes = TRUE
SPECIFICATION Spec
INVARIANTS Terminates
CONSTRAINT Explored
CHECK_DEADLOCK FALSE

CONSTANTS
  MaxTicks = 3
  CODE_StopReadsModeEarly = FALSE
  CODE_MonitorClearsStarted = TRUE
SPECIFICATION Spec
INVARIANT QuietAfterStop
CHECK_DEADLOCK FALSE

------------------------------ MODULE C11Model ------------------------------
EXTENDS Codec
(* generator: one state per value *)
VARIABLES val
Init == \E k \in Kinds : val \in Values(k)
Next == UNCHANGED val
Spec == Init /\ [][Next]_val

\* sanity of the value spaces themselves (checked by TLC on every generated value)
Consistent == ~(MustEncode(val) /\ MustRefuse(val))
Emit == PrintT(<<"CASE", ToJson([kind |-> val.kind, v |-> val, must |-> MustEncode(val), refuse |-> MustRefuse(val)])>>)
=============================================================================

------------------------------ MODULE C16Model ------------------------------
(* C16: histories in which valid calls are mixed with calls that must fail       *)
(* (duplicate / missing parent, mismatching writes, unsupported attribute value, *)
(* delete of an absent name, resize beyond max / wrong rank, calls on a closed   *)
(* writer, repeated Close).  Every failed call must leave the content unchanged  *)
(* and every later valid call must still succeed (cases are marked sure).        *)
EXTENDS H5Logical
C16Shapes == {[dt |-> "i32", dims |-> <<4>>, chunk |-> <<2>>, max |-> <<6>>, flt |-> ""],
              [dt |-> "f64", dims |-> <<3>>, chunk |-> <<>>, max |-> <<>>, flt |-> ""]}
C16Resize == {<<3>>, <<9>>, <<2, 2>>}
C16Hard == {<<"a">>}
C16Soft == {}
=============================================================================

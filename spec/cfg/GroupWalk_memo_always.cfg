CONSTANTS
  Nodes = {1, 2, 3}
  MaxOut = 2
  Policy = "memo"
SPECIFICATION Spec
INVARIANTS TypeOK CompleteAlways
CHECK_DEADLOCK FALSE

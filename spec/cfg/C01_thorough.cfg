CONSTANTS
  Dts = {"i8", "i16", "i32", "i64", "u8", "u16", "u32", "u64", "f32", "f64", "str8", "opq4", "cmp", "arr3", "enumn"}
  Extents1 = {1, 2, 3, 4, 5, 6, 7, 8, 9}
  Extents2 = {1, 2, 3, 4, 5, 7}
  Extents3 = {1, 2, 3}
  Extents4 = {1, 2}
  DataClasses = {"ext", "rnd", "neg"}
  Sbs = {0, 2, 3}
  Tag = "C01"
SPECIFICATION Spec
INVARIANTS Geometry Emit
CHECK_DEADLOCK FALSE

CONSTANTS
  Names = {"x", "y", "z"}
  MaxDepth = 1
  Shapes <- FShapes
  DataClasses = {"seq"}
  AttrNames = {"a", "b"}
  AttrVals = {"i32"}
  ResizeTo <- FResize
  Ops = {"mkgroup", "mkds", "write", "attr", "delattr", "hlink", "resize"}
  Depth = 4
  EmitLens = {}
  Sbs = {2}
  MaxObjs = 6
  Tag = "C04F"
  SoftTargets <- FSoft
  HardTargets <- AllPaths
  LinkCounts = {}
  SureCases = FALSE
  OnlyLastMayFail = TRUE
SPECIFICATION LSpec
INVARIANTS TypeOK WellFormed OnlyGroupsHaveLinks
PROPERTIES Frame ClosedIsFrozen Monotone
CHECK_DEADLOCK FALSE

CONSTANTS
  Programs <- PXY
  Sbs = {2}
  Tag = "C04-PXY"
  EmitFinalOnly = TRUE
SPECIFICATION Spec
INVARIANTS ProgramOrder LengthOK Emit
CHECK_DEADLOCK FALSE

CONSTANTS
  Programs <- PVY
  Sbs = {0, 2}
  Tag = "C04-PVY"
  EmitFinalOnly = TRUE
SPECIFICATION Spec
INVARIANTS ProgramOrder LengthOK Emit
CHECK_DEADLOCK FALSE

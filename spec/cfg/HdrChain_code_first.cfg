CONSTANTS
  MaxBlocks = 3
  MaxEntries = 2
  CODE_FirstBlockOnly = TRUE
  CODE_LinearChain = FALSE
  CODE_NoVisitedGuard = FALSE
SPECIFICATION Spec
INVARIANTS TypeOK Complete NeverRefusesWellFormed Bounded
CHECK_DEADLOCK FALSE

CONSTANTS
  Programs <- PXG
  Sbs = {0, 2, 3}
  Tag = "C04-PXG"
  EmitFinalOnly = TRUE
SPECIFICATION Spec
INVARIANTS ProgramOrder LengthOK Emit
CHECK_DEADLOCK FALSE

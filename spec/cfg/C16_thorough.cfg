CONSTANTS
  Names = {"a", "b"}
  MaxDepth = 2
  Shapes <- C16Shapes
  DataClasses = {"seq"}
  AttrNames = {"a"}
  AttrVals = {"i32", "bad"}
  ResizeTo <- C16Resize
  Ops = {"mkgroup", "mkds", "write", "badwrite", "attr", "delattr", "resize", "hlink", "fclose"}
  Depth = 4
  EmitLens = {3, 4}
  Sbs = {2}
  MaxObjs = 6
  Tag = "C16"
  SoftTargets <- C16Soft
  HardTargets <- C16Hard
  LinkCounts = {}
  SureCases = TRUE
  OnlyLastMayFail = FALSE
SPECIFICATION LSpec
INVARIANTS TypeOK WellFormed OnlyGroupsHaveLinks Emit
PROPERTIES Frame ClosedIsFrozen Monotone
CHECK_DEADLOCK FALSE

CONSTANTS
  Kinds = {"deflate", "shuffle", "fletcher32", "lzf"}
  Levels = {1, 6, 9}
  Widths = {1, 4, 8}
  Payloads = {"empty", "one", "odd", "l10", "l11", "rep", "rnd", "far", "zeros", "r64km", "r64k", "r64kp", "runs"}
SPECIFICATION Spec
INVARIANTS Laws Emit
CHECK_DEADLOCK FALSE

CONSTANTS
  Items = {"m1", "m2", "m3"}
  CODE_SwallowChildError = FALSE
  CODE_SwallowAttrError = FALSE
SPECIFICATION Spec
INVARIANTS FaultOutcome
PROPERTIES Terminates
CHECK_DEADLOCK FALSE

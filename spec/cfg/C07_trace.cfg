CONSTANTS
  TimeBoundUs = 5000000
  AllocBase = 67108864
  AllocPer = 64
SPECIFICATION Spec
INVARIANT Verdict
CHECK_DEADLOCK FALSE

CONSTANTS
  Kinds = {}
  Wide = TRUE
SPECIFICATION TSpec
INVARIANT Verdict
CHECK_DEADLOCK FALSE

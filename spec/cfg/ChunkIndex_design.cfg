CONSTANTS
  MaxN = 40
  Cap = 3
  CODE_SingleLeaf = FALSE
SPECIFICATION Spec
INVARIANTS Complete FitsField OneRoot
CHECK_DEADLOCK FALSE

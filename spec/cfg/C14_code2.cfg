CONSTANTS
  Keys <- MCKeys
  Vals = {1, 2}
  NoVal = NoVal
  Cap = 2
  Hash <- MCHash
  Modes = {"immediate", "lazy"}
  CODE_SearchByHashOnly = FALSE
  CODE_InsertPresentAdds = TRUE
SPECIFICATION Spec
CONSTRAINT Bounded
INVARIANTS Sorted CountsOK WithinCap NamesUnique HashOK SearchSound
PROPERTIES Refines RoundTrip
CHECK_DEADLOCK FALSE

CONSTANTS
  Nodes = {1, 2, 3, 4}
  MaxOut = 2
  Policy = "graph"
SPECIFICATION GenSpec
INVARIANTS Emit
CHECK_DEADLOCK FALSE

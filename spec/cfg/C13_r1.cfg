CONSTANTS
  Names = {"d"}
  MaxDepth = 1
  Shapes <- S1
  DataClasses = {"seq"}
  AttrNames = {}
  AttrVals = {}
  ResizeTo <- T1
  Ops = {"mkds", "write", "resize"}
  Depth = 5
  EmitLens = {3, 4, 5}
  Sbs = {2}
  MaxObjs = 1
  Tag = "C13-r1"
  SoftTargets <- NoSoft
  HardTargets <- AllPaths
  LinkCounts = {}
  SureCases = FALSE
  OnlyLastMayFail = FALSE
SPECIFICATION LSpec
INVARIANTS TypeOK WellFormed Emit
PROPERTIES Frame Monotone
CHECK_DEADLOCK FALSE

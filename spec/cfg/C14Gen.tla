------------------------------- MODULE C14Gen ------------------------------
EXTENDS BTreeV2, Json
CONSTANTS Depth
MCKeys == {"a", "b", "c"}
MCHash == [k \in MCKeys |-> CASE k = "a" -> 1 [] k = "b" -> 2 [] k = "c" -> 1]

\* generator: same actions with a history of the calls made
VARIABLES hist
gvars == <<vars, hist>>
Log(r) == hist' = Append(hist, r)
GInit == Init /\ hist = <<>>
GNext ==
  /\ Len(hist) < Depth
  /\ \/ \E k \in Keys, v \in Vals :
          \/ (InsertAbsent(k, v) \/ InsertFull(k, v) \/ InsertPresent(k, v)) /\ Log([op |-> "ins", n |-> k])
          \/ (UpdatePresent(k, v) \/ UpdateAbsent(k, v)) /\ Log([op |-> "upd", n |-> k])
     \/ \E k \in Keys : (DeletePresent(k) \/ DeleteAbsent(k)) /\ Log([op |-> "del", n |-> k])
     \/ Rebalance /\ pending > 0 /\ Log([op |-> "rebalance", n |-> ""])
     \/ WriteOut /\ Log([op |-> "write", n |-> ""])
     \/ LoadBack /\ Log([op |-> "load", n |-> ""])
GSpec == GInit /\ [][GNext]_gvars
Emit == Len(hist) >= 1 => PrintT(<<"CASE", ToJson([cfg |-> [mode |-> mode, cap |-> Cap], ops |-> hist])>>)
=============================================================================

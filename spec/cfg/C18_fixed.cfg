CONSTANTS
  Fgs = {"f1", "f2"}
  MaxOps = 2
  MaxTicks = 2
  CODE_Unlocked = FALSE
SPECIFICATION Spec
INVARIANTS NoRace NoPanic NoLeak
PROPERTIES StopReturns
CHECK_DEADLOCK FALSE

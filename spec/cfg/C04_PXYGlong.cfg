CONSTANTS
  Programs <- PXYGlong
  Sbs = {2}
  Tag = "C04-PXYGlong"
  EmitFinalOnly = TRUE
SPECIFICATION Spec
INVARIANTS ProgramOrder LengthOK Emit
CHECK_DEADLOCK FALSE

CONSTANTS
  Names = {"t", "tx", "l"}
  MaxDepth = 1
  Shapes <- C03Shapes
  DataClasses = {"seq"}
  AttrNames = {"a"}
  AttrVals = {"i32"}
  ResizeTo = {}
  Ops = {"mkgroup", "mkds", "hlink"}
  Depth = 3
  EmitLens = {1, 2, 3}
  Sbs = {2}
  MaxObjs = 8
  Tag = "C03-prefix"
  SoftTargets <- C03Soft
  HardTargets <- AllPaths
  LinkCounts = {}
  SureCases = FALSE
  OnlyLastMayFail = TRUE
SPECIFICATION LSpec
INVARIANTS TypeOK WellFormed OnlyGroupsHaveLinks Emit
PROPERTIES Frame ClosedIsFrozen Monotone
CHECK_DEADLOCK FALSE

CONSTANTS
  Nodes = {1, 2, 3}
  Kinds = {"link", "cont"}
  MaxOut = 2
  FileSize = 2
  SizeVals = {1}
  Guarded = {"link", "cont"}
  CheckedSizes = TRUE
SPECIFICATION Spec
INVARIANTS Terminates StackBounded AllocBounded
CHECK_DEADLOCK FALSE

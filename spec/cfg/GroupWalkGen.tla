---------------------------- MODULE GroupWalkGen ----------------------------
(* Generator: every link graph of GroupWalk's Init (Nodes, MaxOut) as one case.  The harness (tools/props/c03.py)    *)
(* turns each graph into a creation history - the groups along a spanning tree with CreateGroup, every other link    *)
(* with CreateHardLink - and the listing of the real reader is judged by H5LogicalTrace against the model of that     *)
(* history: the binding of GroupWalk's value space (cycles, self links, groups entered from two sides) to the code.  *)
EXTENDS GroupWalk, TLC, Json
GenSpec == Init /\ [][FALSE]_vars
Emit == PrintT(<<"CASE", ToJson([links |-> [n \in Nodes |-> links[n]]])>>)
=============================================================================

CONSTANTS
  Nodes = {1, 2}
  Kinds = {"link", "cont", "cbt"}
  MaxOut = 2
  FileSize = 2
  SizeVals = {1, 3}
  Guarded = {"link", "cont", "cbt"}
  CheckedSizes = TRUE
SPECIFICATION Spec
INVARIANTS Terminates StackBounded AllocBounded
PROPERTIES Finishes
CHECK_DEADLOCK FALSE

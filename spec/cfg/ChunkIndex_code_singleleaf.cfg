\* the pinned code: one leaf for every chunk, the entry count modulo Cap + 1: TLC must find a dataset that loses chunks
CONSTANTS
  MaxN = 10
  Cap = 3
  CODE_SingleLeaf = TRUE
SPECIFICATION Spec
INVARIANTS Complete
CHECK_DEADLOCK FALSE

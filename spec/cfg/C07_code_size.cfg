CONSTANTS
  Nodes = {1, 2}
  Kinds = {"link"}
  MaxOut = 1
  FileSize = 2
  SizeVals = {1, 3}
  Guarded = {"link"}
  CheckedSizes = FALSE
SPECIFICATION Spec
INVARIANTS AllocBounded
CHECK_DEADLOCK FALSE

CONSTANTS
  Blobs <- GBlobs
  NoBlob = NoBlob
  LenOf <- GLen
  BlockSize = 64
  Prefix = 15
  Cksum = 4
  OffMod = 130
  CODE_CapacityIgnoresPrefix = TRUE
  Depth = 5
SPECIFICATION GSpec
INVARIANTS Emit
CHECK_DEADLOCK FALSE

CONSTANTS
  Kinds = {"dt_basic", "dt_opaque", "dt_vlen", "dt_array", "dt_enum", "dt_compound", "dt_compound_n", "dataspace", "layout", "pipeline", "attr", "ainfo", "link", "linfo", "sb", "ohdr"}
  Wide = TRUE
SPECIFICATION Spec
INVARIANTS Consistent Emit
CHECK_DEADLOCK FALSE

------------------------------- MODULE C02Gen -------------------------------
(* Behaviour generator for C02 (binding G): AttrStore plus a history variable.  *)
(* Every reachable history of at most Depth operations, from every boundary     *)
(* pre-state (pre filler attributes already present), is printed as one JSON    *)
(* line and replayed by the Go driver against the real library.                 *)
EXTENDS AttrStore, Json

CONSTANTS Depth, PreSet, Objs, Sbs, Styles

VARIABLES hist, cfgv, nfill

GenNames  == {"a", "b", "c"}
FillerSeq == <<"f0", "f1", "f2", "f3", "f4", "f5", "f6", "f7", "f8">>
AllNames  == GenNames \cup {FillerSeq[i] : i \in DOMAIN FillerSeq}
\* value classes understood by the driver: two int32 of equal size, a short and a long string
\* (the long one forces the header-full migration), a float64 array
GenVals   == {"i32:a", "i32:b", "s40", "s150", "ad3", "u32"}
GenSize   == [v \in GenVals |-> CASE v = "i32:a" -> 5 [] v = "i32:b" -> 5 [] v = "u32" -> 5
                                  [] v = "s40" -> 9 [] v = "s150" -> 20 [] v = "ad3" -> 7]
\* a and c collide under name style 3; the model keeps the collision in every style so that the
\* generator visits the same histories for all styles
GenHash   == [n \in AllNames |-> CASE n = "a" -> 1 [] n = "c" -> 1 [] n = "b" -> 2 [] OTHER -> 3]

gvars == <<vars, hist, cfgv, nfill>>

GInit == /\ Init /\ hist = <<>> /\ nfill = 0
         /\ cfgv \in [obj : Objs, sb : Sbs, pre : PreSet, style : Styles]

Fill == /\ nfill < cfgv.pre
        /\ PutOp(FillerSeq[nfill + 1], "i32:a")
        /\ nfill' = nfill + 1
        /\ UNCHANGED <<hist, cfgv>>

Op == /\ nfill = cfgv.pre
      /\ Len(hist) < Depth
      /\ \E n \in GenNames :
           \/ \E v \in GenVals :
                /\ PutOp(n, v)
                /\ hist' = Append(hist, [op |-> "put", n |-> n, v |-> v])
           \/ /\ cfgv.obj = "dataset"          \* groups have no DeleteAttribute
              /\ DelOp(n)
              /\ hist' = Append(hist, [op |-> "del", n |-> n, v |-> ""])
      /\ UNCHANGED <<cfgv, nfill>>

GNext == Fill \/ Op
GSpec == GInit /\ [][GNext]_gvars

Emit == Len(hist) >= 1 => PrintT(<<"CASE", ToJson([cfg |-> cfgv, ops |-> hist])>>)
=============================================================================

\* the pinned code's enumeration of the bounding box of chunks is not bounded by the selection: TLC must refute BBoxLaws
CONSTANTS
  Shapes <- BBoxShapes
  Strides = {1, 2, 3}
  Blocks = {1, 2}
  LawShapes <- QLaw
SPECIFICATION Spec
INVARIANTS BBoxLaws
CHECK_DEADLOCK FALSE

SPECIFICATION Spec
INVARIANT Verdict
CHECK_DEADLOCK FALSE

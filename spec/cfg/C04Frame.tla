------------------------------ MODULE C04Frame ------------------------------
(* Design-level check for C04: in the behaviour specification a call changes   *)
(* only the objects it is aimed at (Frame), over 3 root-level objects.          *)
EXTENDS H5Logical
FShapes == {[dt |-> "i32", dims |-> <<4>>, chunk |-> <<2>>, max |-> <<-1>>, flt |-> ""]}
FSoft == {}
FResize == {<<7>>}
AllPaths == Paths
=============================================================================

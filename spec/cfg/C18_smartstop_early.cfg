CONSTANTS
  MaxTicks = 3
  CODE_StopReadsModeEarly = TRUE
SPECIFICATION Spec
INVARIANT QuietAfterStop
PROPERTY StopReturns
CHECK_DEADLOCK FALSE

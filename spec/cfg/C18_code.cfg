CONSTANTS
  Fgs = {"f1", "f2"}
  MaxOps = 2
  MaxTicks = 2
  CODE_Unlocked = TRUE
SPECIFICATION Spec
INVARIANTS EmitRaces
CHECK_DEADLOCK FALSE

CONSTANTS
  Kinds = {"deflate", "shuffle", "fletcher32", "lzf"}
  Levels = {1, 2, 3, 4, 5, 6, 7, 8, 9}
  Widths = {1, 2, 4, 8}
  Payloads = {"empty", "one", "odd", "l10", "l11", "rep", "rnd", "far", "zeros", "r64km", "r64k", "r64kp", "runs", "big"}
SPECIFICATION Spec
INVARIANTS Laws Emit
CHECK_DEADLOCK FALSE

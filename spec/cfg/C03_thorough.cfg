CONSTANTS
  Names = {"a", "b"}
  MaxDepth = 2
  Shapes <- C03Shapes
  DataClasses = {"seq"}
  AttrNames = {"a"}
  AttrVals = {"i32"}
  ResizeTo = {}
  Ops = {"mkgroup", "mkds", "hlink", "slink", "xlink"}
  Depth = 4
  EmitLens = {1, 2, 3, 4}
  Sbs = {2}
  MaxObjs = 8
  Tag = "C03"
  SoftTargets <- C03Soft
  HardTargets <- AllPaths
  LinkCounts = {}
  SureCases = FALSE
  OnlyLastMayFail = TRUE
SPECIFICATION LSpec
INVARIANTS TypeOK WellFormed OnlyGroupsHaveLinks Emit
PROPERTIES Frame ClosedIsFrozen Monotone
CHECK_DEADLOCK FALSE

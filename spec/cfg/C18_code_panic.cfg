CONSTANTS
  Fgs = {"f1", "f2"}
  MaxOps = 2
  MaxTicks = 1
  CODE_Unlocked = TRUE
SPECIFICATION Spec
INVARIANTS NoPanic
CHECK_DEADLOCK FALSE

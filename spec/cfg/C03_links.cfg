CONSTANTS
  Names = {"a", "b"}
  MaxDepth = 2
  Shapes <- C03Shapes
  DataClasses = {"seq"}
  AttrNames = {"a"}
  AttrVals = {"i32"}
  ResizeTo = {}
  Ops = {"mkgroup", "mkds", "mkgroupl"}
  Depth = 3
  EmitLens = {1, 2, 3}
  Sbs = {2}
  MaxObjs = 8
  Tag = "C03-grouplinks"
  SoftTargets <- C03Soft
  HardTargets <- C03Soft
  LinkCounts = {0, 1, 8, 9, 12}
  SureCases = FALSE
  OnlyLastMayFail = TRUE
SPECIFICATION LSpec
INVARIANTS TypeOK WellFormed OnlyGroupsHaveLinks Emit
PROPERTIES Frame ClosedIsFrozen Monotone
CHECK_DEADLOCK FALSE

CONSTANTS
  MaxAddr = 24
  Sizes = {1, 3, 4}
  Bases = {2, 8}
  Round = 4
  CODE_WriteRoundedUp = FALSE
SPECIFICATION Spec
INVARIANTS Owned Disjoint InsideSpace
PROPERTIES Monotone
CHECK_DEADLOCK FALSE

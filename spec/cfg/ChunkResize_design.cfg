CONSTANTS
  MaxN = 5
  C = 2
  Vals = {1, 2}
  CODE_NoPrune = FALSE
SPECIFICATION Spec
CONSTRAINT Bounded
INVARIANTS TypeOK Faithful NothingBeyond
CHECK_DEADLOCK FALSE

CONSTANTS
  Names <- MCNames
  Vals <- MCVals
  NoVal = NoVal
  MaxCompact = 2
  HdrCap = 4
  Size <- MCSize
  Hash <- MCHash
  CODE_SearchByHashOnly = FALSE
  MaxId = 5
SPECIFICATION Spec
CONSTRAINT Bound
INVARIANTS TypeOK NamesUnique IndexSorted IndexHeapBij IndexHashOK CompactBounds DenseHdrEmpty CompactNoHeap
PROPERTIES Refines DenseIsSticky
CHECK_DEADLOCK FALSE

CONSTANTS
  Nodes = {1, 2, 3}
  MaxOut = 2
  Policy = "memo"
SPECIFICATION Spec
INVARIANTS TypeOK Complete Sound LoadsLinear
PROPERTIES Terminates
CHECK_DEADLOCK FALSE

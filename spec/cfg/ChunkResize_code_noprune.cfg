\* the pinned code (Resize rewrites the dataspace only): TLC must find shrink-then-grow showing old values
CONSTANTS
  MaxN = 3
  C = 1
  Vals = {1}
  CODE_NoPrune = TRUE
SPECIFICATION Spec
CONSTRAINT Bounded
INVARIANTS TypeOK Faithful
CHECK_DEADLOCK FALSE

CONSTANTS
  MaxTicks = 3
  CODE_StopReadsModeEarly = FALSE
  CODE_MonitorClearsStarted = FALSE
SPECIFICATION Spec
INVARIANT QuietAfterStop
PROPERTY StopReturns
CHECK_DEADLOCK FALSE

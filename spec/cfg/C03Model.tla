------------------------------ MODULE C03Model ------------------------------
(* C03: namespace histories.  Alphabet {a,b}, depth <= 2 (quick) / 3, every     *)
(* create/link call at every state, duplicates and missing parents included.    *)
EXTENDS H5Logical
C03Soft == {<<"a">>, <<"b", "a">>}
C03Shapes == {[dt |-> "i32", dims |-> <<2>>, chunk |-> <<>>, max |-> <<>>, flt |-> ""]}
AllPaths == Paths
=============================================================================

CONSTANTS
  Fgs = {"f1", "f2"}
  MaxOps = 3
  MaxTicks = 2
  CODE_SelectorUnlocked = TRUE
SPECIFICATION Spec
INVARIANTS EmitRaces NoLeak StartStopMatched
PROPERTIES StopReturns
CHECK_DEADLOCK FALSE

CONSTANTS
  Fgs = {"f1", "f2"}
  MaxOps = 3
  MaxTicks = 2
  CODE_SelectorUnlocked = FALSE
SPECIFICATION Spec
INVARIANTS NoRace NoLeak StartStopMatched
PROPERTIES StopReturns
CHECK_DEADLOCK FALSE

------------------------------- MODULE C02MC -------------------------------
(* Exhaustive model of AttrStore with scaled-down thresholds: 4 names (a and c  *)
(* share a hash), 4 value classes (two of equal size, one larger, one that      *)
(* fills the header), MaxCompact = 2, HdrCap = 4.  Checks refinement of AttrMap *)
(* and the design invariants.                                                   *)
EXTENDS AttrStore
CONSTANT MaxId

MCNames == {"a", "b", "c", "d"}
MCVals  == {"x1", "y1", "z2", "big"}
MCSize  == [v \in MCVals |-> CASE v = "x1" -> 1 [] v = "y1" -> 1 [] v = "z2" -> 2 [] v = "big" -> 3]
MCHash  == [n \in MCNames |-> CASE n = "a" -> 1 [] n = "b" -> 2 [] n = "c" -> 1 [] n = "d" -> 3]
Bound   == nextId <= MaxId
=============================================================================

------------------------------- MODULE C15Gen -------------------------------
(* Behaviour generator for C15: FractalHeap plus a history of the calls, sizes   *)
(* in bytes for a real 64-byte (or 128-byte) direct block.                       *)
EXTENDS FractalHeap, Json
CONSTANTS Depth
GBlobs == {"b1", "b8", "c8", "b20", "b26", "b45", "b60", "b64"}
GLen == [b \in GBlobs |-> CASE b = "b1" -> 1 [] b = "b8" -> 8 [] b = "c8" -> 8 [] b = "b20" -> 20 [] b = "b26" -> 26
                             [] b = "b45" -> 45 [] b = "b60" -> 60 [] b = "b64" -> 64]
VARIABLE hist
gvars == <<vars, hist>>
Log(r) == hist' = Append(hist, r)
GInit == Init /\ hist = <<>>
GNext ==
  /\ Len(hist) < Depth
  /\ \/ \E b \in Blobs : (Insert(b) \/ InsertNoFit(b)) /\ Log([op |-> "ins", len |-> LenOf[b], i |-> 0])
     \/ \E o \in objs, b \in Blobs :
          \/ OverwriteSameSize(o, b) /\ Log([op |-> "ovw", len |-> LenOf[b], i |-> o.sq])
          \/ OverwriteWrongSize(o, b) /\ LenOf[b] = o.len + 1 /\ Log([op |-> "ovw", len |-> LenOf[b], i |-> o.sq])
     \/ \E o \in objs : Delete(o) /\ Log([op |-> "del", len |-> 0, i |-> o.sq])
     \/ WriteOut /\ Log([op |-> "write", len |-> 0, i |-> 0])
     \/ LoadBack /\ Log([op |-> "load", len |-> 0, i |-> 0])
GSpec == GInit /\ [][GNext]_gvars
Emit == Len(hist) >= 1 => PrintT(<<"CASE", ToJson([cfg |-> [block |-> BlockSize], ops |-> hist])>>)
=============================================================================

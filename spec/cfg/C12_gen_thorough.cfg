CONSTANTS
  MinColl = 4096
  Lens = {0, 1, 7, 8, 9, 2000, 4040, 4047, 4048, 4049, 4056, 4063, 4064, 4065, 5000, 70000}
  Depth = 4
SPECIFICATION GSpec
INVARIANTS Accounting RefsResolve ClosedMeansFlushed Emit
PROPERTIES RefsStable
CHECK_DEADLOCK FALSE

------------------------------ MODULE C10Model ------------------------------
(* C10: sessions.  A history is cut into sessions by `session` calls (Close +    *)
(* OpenForWrite); handles do not survive a session, existing datasets are        *)
(* reopened with `opends`.  After the last session the content must be the       *)
(* accumulated effect of all successful calls.                                  *)
EXTENDS H5Logical
C10Shapes == {[dt |-> "i32", dims |-> <<3>>, chunk |-> <<>>, max |-> <<>>, flt |-> ""]}
None == {}
AllPaths == Paths
=============================================================================

---------------------------- MODULE HdrChainModel ----------------------------
EXTENDS HeaderChain, TLC, Json
(* generator: every shape is an initial state; the case is printed there *)
Emit == (status = "run" /\ visited = {} /\ queue = <<1>>) =>
          PrintT(<<"CASE", ToJson([blocks |-> shape, wf |-> WellFormed(shape), expected |-> IF WellFormed(shape) THEN Expected(shape) ELSE <<>>, total |-> TotalMsgs(shape)])>>)
=============================================================================

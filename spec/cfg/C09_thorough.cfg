CONSTANTS
  Shapes <- ThoroughShapes
  Strides = {1, 2, 3, 4}
  Blocks = {1, 2, 3}
  LawShapes <- TLaw
SPECIFICATION Spec
INVARIANTS Laws ChunkLaws Emit
CHECK_DEADLOCK FALSE

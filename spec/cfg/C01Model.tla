------------------------------ MODULE C01Model ------------------------------
(* C01: the configuration lattice of "create, write fully, close, reopen, read". *)
(* Every configuration is an initial state; TLC checks the chunk geometry laws   *)
(* (ChunkGeom) on each chunked one and prints it as a case for the driver.       *)
EXTENDS ChunkGeom, TLC, Json

CONSTANTS Dts, Extents1, Extents2, Extents3, Extents4, DataClasses, Sbs, Tag

VARIABLE c

SeqsOver(S, r) == [1..r -> S]
DimsSet == SeqsOver(Extents1, 1) \cup SeqsOver(Extents2, 2) \cup SeqsOver(Extents3, 3) \cup SeqsOver(Extents4, 4)
ChunkShapes(dims) == {ch \in [1..Len(dims) -> 1..Max(dims)] : \A k \in 1..Len(dims) : ch[k] <= dims[k]}

Configs == {[dt |-> dt, dims |-> d, chunk |-> ch, data |-> dc, sb |-> sb] :
              dt \in Dts, d \in DimsSet, ch \in {<<>>}, dc \in DataClasses, sb \in Sbs}
           \cup UNION {{[dt |-> dt, dims |-> d, chunk |-> ch, data |-> dc, sb |-> sb] :
                          dt \in Dts, ch \in ChunkShapes(d), dc \in DataClasses, sb \in Sbs} : d \in DimsSet}

Init == c \in Configs
Next == UNCHANGED c
Spec == Init /\ [][Next]_c

Geometry == c.chunk # <<>> => GeomOK(c.dims, c.chunk)

Emit == PrintT(<<"CASE", ToJson([cfg |-> [sb |-> c.sb, rb |-> "", style |-> 0, tag |-> Tag],
                                  ops |-> <<[op |-> "mkds", pc |-> <<"d">>, dt |-> c.dt, dims |-> c.dims,
                                             chunk |-> c.chunk, max |-> <<>>, flt |-> ""],
                                            [op |-> "write", pc |-> <<"d">>, data |-> c.data]>>])>>)
=============================================================================

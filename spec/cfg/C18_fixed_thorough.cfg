CONSTANTS
  Fgs = {"f1", "f2"}
  MaxOps = 3
  MaxTicks = 3
  CODE_Unlocked = FALSE
SPECIFICATION Spec
INVARIANTS NoRace NoPanic NoLeak
PROPERTIES StopReturns
CHECK_DEADLOCK FALSE

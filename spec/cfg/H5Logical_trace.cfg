SPECIFICATION Spec
INVARIANTS Verdict ModelOK
CHECK_DEADLOCK FALSE

CONSTANTS
  Modes = {"none", "lazy", "incremental"}
  Allowed = {}
  MinConf = 70
  Period = 30
  Confs = {0, 50, 69, 70, 71, 100}
  Dts = {0, 29, 30, 31}
  Depth = 2
SPECIFICATION SSpec
INVARIANTS ModeAllowedOrNone LowConfidenceIsNone ConfidenceInRange Emit
PROPERTIES Stable MemoryOnlyOnPass
CHECK_DEADLOCK FALSE

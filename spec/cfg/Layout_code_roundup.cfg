CONSTANTS
  MaxAddr = 16
  Sizes = {1, 3, 4}
  Bases = {2, 8}
  Round = 4
  CODE_WriteRoundedUp = TRUE
SPECIFICATION Spec
INVARIANTS Owned Disjoint InsideSpace
CHECK_DEADLOCK FALSE

CONSTANTS
  Keys <- MCKeys
  Vals = {1, 2}
  NoVal = NoVal
  Cap = 2
  Hash <- MCHash
  Modes = {"immediate", "lazy"}
  CODE_SearchByHashOnly = TRUE
  CODE_InsertPresentAdds = FALSE
SPECIFICATION Spec
CONSTRAINT Bounded
INVARIANTS Sorted CountsOK WithinCap NamesUnique HashOK SearchSound
PROPERTIES Refines RoundTrip
CHECK_DEADLOCK FALSE

------------------------------- MODULE C12Gen -------------------------------
EXTENDS GlobalHeap, TLC, Json
CONSTANTS Depth
VARIABLE hist
gvars == <<vars, hist>>
GInit == Init /\ hist = <<>>
GNext == \/ /\ Len(hist) < Depth
            /\ \E n \in Lens : (PutFits(n) \/ PutRollOver(n)) /\ hist' = Append(hist, n)
         \/ /\ Len(hist) >= 1 /\ Close /\ UNCHANGED hist
GSpec == GInit /\ [][GNext]_gvars
Emit == closed => PrintT(<<"CASE", ToJson([cfg |-> [kind |-> "gen"], lens |-> hist,
                                             colls |-> [i \in DOMAIN flushed |-> [size |-> flushed[i].size, free |-> flushed[i].free, n |-> Len(flushed[i].objs)]]])>>)
=============================================================================

------------------------------ MODULE C13Model ------------------------------
(* C13: all sequences of Resize / Write on one resizable dataset "d".  The      *)
(* dataset is created by the first call of every history (one of the shapes).   *)
EXTENDS H5Logical
R1(d, c, m) == [dt |-> "i32", dims |-> <<d>>, chunk |-> <<c>>, max |-> <<m>>, flt |-> ""]
S1 == {R1(4, 2, -1), R1(3, 1, 6), R1(5, 3, -1), R1(1, 1, -1)}
T1 == {<<1>>, <<2>>, <<3>>, <<4>>, <<6>>, <<7>>, <<2, 2>>}
S2 == {[dt |-> "f64", dims |-> <<2, 3>>, chunk |-> <<2, 2>>, max |-> <<-1, -1>>, flt |-> ""],
       [dt |-> "i32", dims |-> <<3, 2>>, chunk |-> <<1, 2>>, max |-> <<4, 3>>, flt |-> ""]}
T2 == {<<1, 1>>, <<2, 3>>, <<3, 3>>, <<4, 2>>, <<1, 4>>, <<5, 1>>}
S3 == {[dt |-> "i32", dims |-> <<2, 2, 2>>, chunk |-> <<1, 2, 1>>, max |-> <<-1, -1, -1>>, flt |-> ""]}
T3 == {<<1, 2, 3>>, <<3, 1, 1>>, <<2, 3, 2>>, <<1, 1, 1>>}
NoSoft == {}
AllPaths == Paths
=============================================================================

CONSTANTS
  Keys <- MCKeys
  Vals = {1}
  NoVal = NoVal
  Cap = 2
  Hash <- MCHash
  Modes = {"immediate", "rebal", "lazy", "incremental"}
  CODE_SearchByHashOnly = FALSE
  CODE_InsertPresentAdds = FALSE
  Depth = 4
SPECIFICATION GSpec
INVARIANTS Emit
CHECK_DEADLOCK FALSE

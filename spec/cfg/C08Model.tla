------------------------------ MODULE C08Model ------------------------------
EXTENDS FilterPipe, TLC, Json, SequencesExt
CONSTANTS Levels, Widths, Payloads
VARIABLE c
Cases == {[pipe |-> p, level |-> l, width |-> w, payload |-> y] : p \in Pipelines, l \in Levels, w \in Widths, y \in Payloads}
\* the deflate level and shuffle width only matter when the filter is in the pipeline
Canon(x) == /\ ((\E i \in DOMAIN x.pipe : x.pipe[i] = "deflate") \/ x.level = CHOOSE l \in Levels : \A m \in Levels : l <= m)
            /\ ((\E i \in DOMAIN x.pipe : x.pipe[i] = "shuffle") \/ x.width = CHOOSE w \in Widths : \A m \in Widths : w <= m)
CaseSeq == SetToSeq({x \in Cases : Canon(x)})
Init == c \in DOMAIN CaseSeq
Next == UNCHANGED c
Spec == Init /\ [][Next]_c
Laws == Lossless /\ DetectsCorruption
Emit == LET x == CaseSeq[c] IN
        PrintT(<<"CASE", ToJson([pipe |-> x.pipe, level |-> x.level, width |-> x.width, payload |-> x.payload, fletcher |-> HasFletcher(x.pipe)])>>)
=============================================================================

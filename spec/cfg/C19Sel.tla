------------------------------- MODULE C19Sel -------------------------------
EXTENDS Selector, TLC, Json
CONSTANTS Confs, Dts, Depth
VARIABLE hist
svars == <<vars, hist>>
SInit == Init /\ hist = <<>>
SNext == /\ Len(hist) < Depth
         /\ \E raw \in Modes, c \in Confs, dt \in Dts :
              /\ Select(raw, c, dt)
              /\ hist' = Append(hist, [raw |-> raw, conf |-> c, dt |-> dt])
SSpec == SInit /\ [][SNext]_svars
AllowedSeq == IF Allowed = {} THEN <<>> ELSE LET RECURSIVE G(_) G(T) == IF T = {} THEN <<>> ELSE LET x == CHOOSE x \in T : TRUE IN <<x>> \o G(T \ {x}) IN G(Allowed)
Emit == Len(hist) = Depth =>
          PrintT(<<"CASE", ToJson([cfg |-> [allowed |-> AllowedSeq, minconf |-> MinConf, period |-> Period], ops |-> hist])>>)
=============================================================================

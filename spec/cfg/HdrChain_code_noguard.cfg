CONSTANTS
  MaxBlocks = 3
  MaxEntries = 2
  CODE_FirstBlockOnly = FALSE
  CODE_LinearChain = FALSE
  CODE_NoVisitedGuard = TRUE
SPECIFICATION Spec
INVARIANTS TypeOK Complete NeverRefusesWellFormed Bounded
CHECK_DEADLOCK FALSE

CONSTANTS
  Programs <- PXYG
  Sbs = {2}
  Tag = "C04-PXYG"
  EmitFinalOnly = TRUE
SPECIFICATION Spec
INVARIANTS ProgramOrder LengthOK Emit
CHECK_DEADLOCK FALSE

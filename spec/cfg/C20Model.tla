------------------------------ MODULE C20Model ------------------------------
(* Checks the laws of the MiniFloat reference and prints the rounding tables     *)
(* (one JSON line per format) that the Go sweep uses as its oracle, plus sample   *)
(* rows of the bfloat16 rule for cross-checking the driver's transcription.       *)
EXTENDS MiniFloat
VARIABLE done
Init == done = FALSE
Next == ~done /\ done' = TRUE
Spec == Init /\ [][Next]_done

Laws == FormatLaws(E4M3) /\ FormatLaws(E5M2) /\ BFLaws

SetToSeq(S) == LET RECURSIVE G(_) G(T) == IF T = {} THEN <<>> ELSE LET x == CHOOSE x \in T : \A y \in T : x <= y IN <<x>> \o G(T \ {x}) IN G(S)
TableJson(f) == [fmt |-> f.name, maxfinite |-> MaxFinite(f), inf |-> InfCode(f),
                 nan |-> SetToSeq(NaNCodes(f)),
                 rows |-> [i \in 1..(MaxFinite(f) + 1) |-> TableOf(f)[i - 1]]]
BFSamples == [i \in 1..512 |->
                LET hi == (i * 8191) % 32640  lo == CASE i % 4 = 0 -> 32768 [] i % 4 = 1 -> 32767 [] i % 4 = 2 -> 32769 [] OTHER -> (i * 977) % 65536
                IN [hi |-> hi, lo |-> lo, code |-> BFRound(hi, lo)]]
Emit == done => /\ PrintT(<<"CASE", ToJson(TableJson(E4M3))>>)
                /\ PrintT(<<"CASE", ToJson(TableJson(E5M2))>>)
                /\ PrintT(<<"CASE", ToJson([fmt |-> "bf16", samples |-> BFSamples])>>)
=============================================================================

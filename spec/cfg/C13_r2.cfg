CONSTANTS
  Names = {"d"}
  MaxDepth = 1
  Shapes <- S2
  DataClasses = {"seq"}
  AttrNames = {}
  AttrVals = {}
  ResizeTo <- T2
  Ops = {"mkds", "write", "resize"}
  Depth = 4
  EmitLens = {3, 4}
  Sbs = {2, 0}
  MaxObjs = 1
  Tag = "C13-r2"
  SoftTargets <- NoSoft
  HardTargets <- AllPaths
  LinkCounts = {}
  SureCases = FALSE
  OnlyLastMayFail = FALSE
SPECIFICATION LSpec
INVARIANTS TypeOK WellFormed Emit
PROPERTIES Frame Monotone
CHECK_DEADLOCK FALSE

CONSTANTS
  Programs <- PVX
  Sbs = {0, 2}
  Tag = "C04-PVX"
  EmitFinalOnly = TRUE
SPECIFICATION Spec
INVARIANTS ProgramOrder LengthOK Emit
CHECK_DEADLOCK FALSE

CONSTANTS
  Shapes <- QuickShapes
  Strides = {1, 2, 3}
  Blocks = {1, 2}
  LawShapes <- QLaw
SPECIFICATION Spec
INVARIANTS Laws ChunkLaws Emit
CHECK_DEADLOCK FALSE

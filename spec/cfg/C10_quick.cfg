CONSTANTS
  Names = {"a", "b"}
  MaxDepth = 1
  Shapes <- C10Shapes
  DataClasses = {"seq", "neg"}
  AttrNames = {"a", "b"}
  AttrVals = {"i32", "s150"}
  ResizeTo <- None
  Ops = {"mkgroup", "mkds", "write", "attr", "delattr", "session", "opends"}
  Depth = 5
  EmitLens = {3, 4, 5}
  Sbs = {2}
  MaxObjs = 3
  Tag = "C10"
  SoftTargets <- None
  HardTargets <- None
  LinkCounts = {}
  SureCases = FALSE
  OnlyLastMayFail = TRUE
SPECIFICATION LSpec
INVARIANTS TypeOK WellFormed OnlyGroupsHaveLinks Emit
PROPERTIES Frame ClosedIsFrozen Monotone
CHECK_DEADLOCK FALSE

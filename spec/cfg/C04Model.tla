------------------------------ MODULE C04Model ------------------------------
EXTENDS Interleave

Ds(p, dt, dims, chunk, max) == [op |-> "mkds", pc |-> <<p>>, dt |-> dt, dims |-> dims, chunk |-> chunk, max |-> max, flt |-> ""]
Wr(p, c)      == [op |-> "write", pc |-> <<p>>, data |-> c]
At(p, n, v)   == [op |-> "attr", pc |-> <<p>>, n |-> n, v |-> v]
Del(p, n)     == [op |-> "delattr", pc |-> <<p>>, n |-> n]
Rs(p, d)      == [op |-> "resize", pc |-> <<p>>, dims |-> d]
Hl(l, p)      == [op |-> "hlink", pc |-> <<l>>, tc |-> <<p>>]
Gr(p)         == [op |-> "mkgroup", pc |-> <<p>>]
Sib(p)        == [op |-> "mkds", pc |-> <<p>>, dt |-> "u8", dims |-> <<3>>, chunk |-> <<>>, max |-> <<>>, flt |-> ""]

\* X: chunked resizable dataset, attributes crossing into dense storage, resize, rewrite
ProgX == <<Ds("x", "i32", <<4>>, <<2>>, <<-1>>), Wr("x", "seq"), At("x", "a", "i32"), At("x", "b", "s150"),
           At("x", "c", "s150"), Rs("x", <<7>>), Del("x", "a"), Hl("lx", "x")>>
\* Y: contiguous dataset with data, attributes, a new sibling created on its behalf
ProgY == <<Ds("y", "f64", <<3>>, <<>>, <<>>), Wr("y", "ext"), At("y", "a", "s40"), At("y", "a", "s150"),
           At("y", "b", "ad3"), Sib("ys")>>
\* G: a group with attributes and a member
ProgG == <<Gr("g"), At("g", "a", "i32"), At("g", "b", "s150"), At("g", "c", "s150"),
           [op |-> "mkds", pc |-> <<"g", "m">>, dt |-> "i16", dims |-> <<2>>, chunk |-> <<>>, max |-> <<>>, flt |-> ""],
           [op |-> "write", pc |-> <<"g", "m">>, data |-> "neg"]>>
\* V: variable-length strings - its elements go to global heap collections, one of them larger than a collection
ProgV == <<Ds("v", "vls", <<3>>, <<>>, <<>>), Wr("v", "ext"), At("v", "a", "i32"), Wr("v", "seq")>>
ShortX == SubSeq(ProgX, 1, 6)
ShortY == SubSeq(ProgY, 1, 4)
ShortG == SubSeq(ProgG, 1, 4)

PXY  == [o \in {"x", "y"} |-> IF o = "x" THEN ProgX ELSE ProgY]
PVY  == [o \in {"v", "y"} |-> IF o = "v" THEN ProgV ELSE ProgY]
PVX  == [o \in {"v", "x"} |-> IF o = "v" THEN ProgV ELSE ShortX]
PXG  == [o \in {"x", "g"} |-> IF o = "x" THEN ProgX ELSE ProgG]
PXYG == [o \in {"x", "y", "g"} |-> IF o = "x" THEN SubSeq(ProgX, 1, 4) ELSE IF o = "y" THEN ShortY ELSE SubSeq(ProgG, 1, 3)]
PXYGlong == [o \in {"x", "y", "g"} |-> IF o = "x" THEN ShortX ELSE IF o = "y" THEN ShortY ELSE ShortG]
=============================================================================

CONSTANTS
  Nodes = {1, 2, 3}
  MaxOut = 2
  Policy = "graph"
SPECIFICATION Spec
INVARIANTS TypeOK Complete CompleteAlways AllLoaded Sound LoadsLinear
PROPERTIES Terminates
CHECK_DEADLOCK FALSE

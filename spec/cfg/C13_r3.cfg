CONSTANTS
  Names = {"d"}
  MaxDepth = 1
  Shapes <- S3
  DataClasses = {"seq"}
  AttrNames = {}
  AttrVals = {}
  ResizeTo <- T3
  Ops = {"mkds", "write", "resize"}
  Depth = 4
  EmitLens = {3, 4}
  Sbs = {3}
  MaxObjs = 1
  Tag = "C13-r3"
  SoftTargets <- NoSoft
  HardTargets <- AllPaths
  LinkCounts = {}
  SureCases = FALSE
  OnlyLastMayFail = FALSE
SPECIFICATION LSpec
INVARIANTS TypeOK WellFormed Emit
PROPERTIES Frame Monotone
CHECK_DEADLOCK FALSE

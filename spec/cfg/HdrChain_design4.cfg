CONSTANTS
  MaxBlocks = 4
  MaxEntries = 2
  CODE_FirstBlockOnly = FALSE
  CODE_LinearChain = FALSE
  CODE_NoVisitedGuard = FALSE
SPECIFICATION Spec
INVARIANTS TypeOK Complete NeverRefusesWellFormed Bounded
PROPERTIES Terminates
CHECK_DEADLOCK FALSE

CONSTANTS
  Blobs <- MCBlobs
  NoBlob = NoBlob
  LenOf <- MCLen
  BlockSize = 6
  Prefix = 2
  Cksum = 1
  OffMod = 14
  CODE_CapacityIgnoresPrefix = FALSE
SPECIFICATION Spec
CONSTRAINT Bounded
INVARIANTS IdsDistinct IdResolves RangesDisjoint Accounting NoByteLost NothingGarbled
PROPERTIES Refines
CHECK_DEADLOCK FALSE

SPECIFICATION Spec
INVARIANTS Laws Emit
CHECK_DEADLOCK FALSE

------------------------------ MODULE C09Model ------------------------------
(* C09 generator: every dataset shape/layout of the bounded set, with the full   *)
(* per-dimension selection parameter sets (the driver forms their product).      *)
(* TLC checks the selection laws on every product element for the small shapes.  *)
EXTENDS Hyperslab, TLC, Json, SequencesExt
CONSTANTS Shapes,      \* set of [dims, chunk]  (chunk = <<>>: contiguous)
          Strides, Blocks, LawShapes
VARIABLE c
Init == c \in Shapes
Next == UNCHANGED c
Spec == Init /\ [][Next]_c

Sel1D(n) == {[start |-> s, count |-> k, stride |-> st, block |-> b] : s \in 0..n, k \in 0..n, st \in Strides, b \in Blocks}
SelsOf(dims) == {sel \in [1..Len(dims) -> UNION {Sel1D(dims[k]) : k \in 1..Len(dims)}] :
                   \A k \in 1..Len(dims) : sel[k] \in Sel1D(dims[k])}
Laws == c.dims \in LawShapes =>
          /\ FullLaw(c.dims)
          /\ \A sel \in SelsOf(c.dims) : CountLaw(c.dims, sel) /\ InBoundsLaw(c.dims, sel) /\ IncreasingLaw(c.dims, sel)
\* chunked shapes: the chunks a partial read visits (Touched*) cover the selection and are no more than its elements
ChunkLaws == (c.dims \in LawShapes /\ c.chunk # <<>>) =>
               \A sel \in SelsOf(c.dims) : /\ TouchedCoverLaw(c.dims, c.chunk, sel) /\ TouchedBoundLaw(c.dims, c.chunk, sel)
                                            /\ TouchedInBBoxLaw(c.dims, c.chunk, sel)
\* what enumerating the bounding box would need (the pinned code): refuted
BBoxLaws == (c.dims \in LawShapes /\ c.chunk # <<>>) => \A sel \in SelsOf(c.dims) : BBoxBoundLaw(c.dims, c.chunk, sel)
Emit == PrintT(<<"CASE", ToJson([cfg |-> [dims |-> c.dims, chunk |-> c.chunk],
                                  perdim |-> [k \in 1..Len(c.dims) |-> SetToSeq(Sel1D(c.dims[k]))]])>>)
=============================================================================

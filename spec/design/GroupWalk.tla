----------------------------- MODULE GroupWalk -----------------------------
(* How a reader may load a namespace in which groups can be reached through     *)
(* several hard links, cycles included.                                         *)
(*                                                                             *)
(* Groups are nodes, named hard links are edges; Init chooses every graph over  *)
(* Nodes with at most MaxOut links per group.  The reader loads the root and,   *)
(* recursively, the target of every link.  What it owes (C03, C06: "group       *)
(* membership"): every path that exists in the file is listed - a group that is *)
(* reachable through two links has its members under BOTH paths - and the walk  *)
(* ends; what C07 adds: the number of structures it loads is bounded by the     *)
(* number of structures in the file, however the links are arranged.            *)
(*                                                                             *)
(* Three policies for meeting a group again:                                    *)
(*   "visited"    a file-wide set of groups already entered; a group met again   *)
(*                gets no members (the pinned code: visitedBTrees)              *)
(*   "inprogress" only the groups on the current recursion path are refused      *)
(*                (correct listing, but a group shared k times at d levels is    *)
(*                loaded k^d times)                                              *)
(*   "memo"       groups on the current path are refused (a cycle), a group that *)
(*                was loaded completely is not loaded again: the listing found   *)
(*                below it the first time is shared (a first repair: complete    *)
(*                without cycles, but what is shared was cut where the FIRST     *)
(*                path closed a cycle - CompleteAlways fails on a cycle that is   *)
(*                entered from two sides)                                        *)
(*   "graph"      every group is loaded once into a shared graph (a link back to  *)
(*                a group being loaded is completed when that load ends); the     *)
(*                listing is the unfolding of the graph by Walk, which does not   *)
(*                enter a group that is already on its path (the repaired code)   *)
(* TLC: "graph" satisfies CompleteAlways and LoadsLinear on every graph, cycles   *)
(* included; "memo" satisfies Complete (acyclic) but not CompleteAlways;          *)
(* "visited" violates Complete on the smallest diamond; "inprogress" violates     *)
(* LoadsLinear.                                                                  *)
EXTENDS Integers, Sequences, FiniteSets

CONSTANTS Nodes, MaxOut, Policy

VARIABLES links,    \* node -> sequence of target nodes (the i-th link of the group; its name is i)
          stack,    \* recursion: sequence of [n, i, path]: group, next link index, path of link indices from the root
          done,     \* groups loaded completely
          entered,  \* groups entered at least once (file-wide)
          listed,   \* set of paths (sequences of <<node, link index>>) reported so far
          loads,    \* number of group loads
          rel,      \* "memo": group -> the paths found below it when it was loaded (relative to it)
          status
vars == <<links, stack, done, entered, listed, loads, rel, status>>

Root == CHOOSE n \in Nodes : \A m \in Nodes : n <= m

Init == /\ links \in [Nodes -> UNION {[1..j -> Nodes] : j \in 0..MaxOut}]
        /\ stack = <<[n |-> Root, i |-> 1, path |-> <<>>]>>
        /\ done = {} /\ entered = {Root} /\ listed = {<<>>} /\ loads = 1 /\ status = "walking"
        /\ rel = [n \in Nodes |-> {}]

OnPath(n) == \E k \in 1..Len(stack) : stack[k].n = n

\* every path of the file that does not pass through a group twice, and the first step back into such a group
\* (the reader lists the group that closes a cycle, without members)
RECURSIVE PathsFrom(_, _, _)
PathsFrom(n, path, onpath) ==
  {path} \cup UNION {IF links[n][i] \in onpath
                     THEN {Append(path, <<n, i>>)}
                     ELSE PathsFrom(links[n][i], Append(path, <<n, i>>), onpath \cup {links[n][i]}) : i \in 1..Len(links[n])}
AllPaths == PathsFrom(Root, <<>>, {Root})

IsPrefix(a, b) == Len(a) <= Len(b) /\ SubSeq(b, 1, Len(a)) = a
\* no group is reachable from itself
RECURSIVE Reach(_, _)
Reach(front, seen) == LET nxt == UNION {{links[n][i] : i \in 1..Len(links[n])} : n \in front}
                      IN IF nxt \subseteq seen THEN seen ELSE Reach(nxt \ seen, seen \cup nxt)
Acyclic == \A n \in Nodes : n \notin Reach({n}, {})
\* a listed path is a path of the file
RealPath(p) == /\ (p # <<>> => p[1][1] = Root)
               /\ \A k \in 1..Len(p) : p[k][2] \in 1..Len(links[p[k][1]])
               /\ \A k \in 1..(Len(p) - 1) : links[p[k][1]][p[k][2]] = p[k + 1][1]

Step ==
  /\ status = "walking" /\ stack # <<>>
  /\ LET top == stack[Len(stack)] IN
       IF top.i > Len(links[top.n])
       THEN /\ done' = done \cup {top.n}
            /\ stack' = SubSeq(stack, 1, Len(stack) - 1)
            \* what was found below this group, relative to it: shared with every later path to it
            /\ rel' = [rel EXCEPT ![top.n] = {SubSeq(q, Len(top.path) + 1, Len(q)) : q \in {q \in listed : IsPrefix(top.path, q)}}]
            /\ UNCHANGED <<links, entered, listed, loads, status>>
       ELSE LET t == links[top.n][top.i]
                p == Append(top.path, <<top.n, top.i>>)
                adv == [stack EXCEPT ![Len(stack)].i = top.i + 1]
            IN
            IF OnPath(t) /\ Policy # "graph"                \* a cycle: listed, never followed
            THEN /\ listed' = listed \cup {p} /\ stack' = adv /\ UNCHANGED <<links, done, entered, loads, rel, status>>
            ELSE IF Policy = "visited" /\ t \in entered      \* met again: no members
            THEN /\ listed' = listed \cup {p} /\ stack' = adv /\ UNCHANGED <<links, done, entered, loads, rel, status>>
            ELSE IF Policy = "graph" /\ t \in entered       \* in the graph already (loaded, or being loaded): an edge, no load
            THEN /\ stack' = adv /\ UNCHANGED <<links, done, entered, listed, loads, rel, status>>
            ELSE IF Policy = "memo" /\ t \in done            \* loaded before: members shared, nothing loaded
            THEN /\ listed' = listed \cup {p \o q : q \in rel[t]}
                 /\ stack' = adv /\ UNCHANGED <<links, done, entered, loads, rel, status>>
            ELSE /\ listed' = listed \cup {p}
                 /\ stack' = Append(adv, [n |-> t, i |-> 1, path |-> p])
                 /\ entered' = entered \cup {t} /\ loads' = loads + 1
                 /\ UNCHANGED <<links, done, rel, status>>
\* "graph": the listing is what Walk produces from the loaded graph - the unfolding that refuses a group on its own path.
\* Only groups that were loaded are in the graph.
Finish == /\ status = "walking" /\ stack = <<>> /\ status' = "done"
          /\ listed' = IF Policy = "graph" THEN PathsFrom(Root, <<>>, {Root}) ELSE listed
          /\ UNCHANGED <<links, stack, done, entered, loads, rel>>
Next == Step \/ Finish
Spec == Init /\ [][Next]_vars /\ WF_vars(Next)

TypeOK == status \in {"walking", "done"} /\ loads >= 1
\* without cycles every path of the file is listed; with cycles any finite listing is a truncation, and which
\* truncation is not specified - but every listed path exists
Complete == (status = "done" /\ Acyclic) => listed = AllPaths
CompleteAlways == status = "done" => listed = AllPaths
\* "graph": every group that can be reached was loaded (so that the unfolding at Finish ranges over the real links)
AllLoaded == (status = "done" /\ Policy = "graph") => entered = Reach({Root}, {Root})
Sound == \A p \in listed : RealPath(p)
LoadsLinear == loads <= Cardinality(Nodes)
Terminates == <>(status = "done")
=============================================================================

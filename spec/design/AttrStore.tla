----------------------------- MODULE AttrStore -----------------------------
(* Design specification of attribute storage in scigolib/hdf5, shaped like      *)
(* attribute_write.go / internal/core/attribute_modify.go:                      *)
(*   compact : attribute messages inside the object header (at most MaxCompact  *)
(*             of them, and at most HdrCap units of message bytes),             *)
(*   dense   : objects in a fractal heap + a name index ordered by name hash;   *)
(*             entered when the MaxCompact+1-th attribute arrives or when the   *)
(*             header is full; never left again (DenseIsSticky).                *)
(* One action per code path.  Deviations of the code from the intended design   *)
(* are named CODE_ switches:  FALSE = intended design (TLC proves refinement    *)
(* of AttrMap), TRUE = what the code does (TLC yields the counterexample that   *)
(* the harness materialises against the real code).                             *)
EXTENDS Naturals, Sequences, FiniteSets, TLC

CONSTANTS Names, Vals, NoVal,
          MaxCompact,            \* 8 in the code
          HdrCap,                \* capacity of header chunk 0 in size units
          Size,                  \* [Vals -> Nat]  message size of a value in units
          Hash,                  \* [Names -> Nat] name hash (lookup3 in the code)
          CODE_SearchByHashOnly  \* dense lookup compares hashes only (btreev2_write.go SearchRecord)

VARIABLES mode,      \* "compact" | "dense"
          hdr,       \* compact: sequence of [n, v] in header order
          heap,      \* dense: set of [id, n, v]  (fractal heap objects)
          idx,       \* dense: sequence of [h, id] ordered by h (B-tree v2 leaf)
          nextId     \* next heap offset

vars == <<mode, hdr, heap, idx, nextId>>

-----------------------------------------------------------------------------
SeqRange(s) == {s[i] : i \in DOMAIN s}
HdrNames    == {e.n : e \in SeqRange(hdr)}
HdrBytes    == LET RECURSIVE Sum(_)
                   Sum(i) == IF i = 0 THEN 0 ELSE Size[hdr[i].v] + Sum(i - 1)
               IN Sum(Len(hdr))
HdrPos(n)   == CHOOSE i \in DOMAIN hdr : hdr[i].n = n
HeapObj(id) == CHOOSE o \in heap : o.id = id

\* dense lookup: position in idx of the record for name n, 0 if none
ByName(n)   == {i \in DOMAIN idx : HeapObj(idx[i].id).n = n}
ByHash(n)   == {i \in DOMAIN idx : idx[i].h = Hash[n]}
Min(S)      == CHOOSE x \in S : \A y \in S : x <= y
Find(n)     == LET S == IF CODE_SearchByHashOnly THEN ByHash(n) ELSE ByName(n)
               IN IF S = {} THEN 0 ELSE Min(S)

\* insert [h,id] keeping idx ordered by h (after equal hashes, like insertRecordSorted)
InsertSorted(s, r) ==
  LET k == Cardinality({i \in DOMAIN s : s[i].h <= r.h})
  IN SubSeq(s, 1, k) \o <<r>> \o SubSeq(s, k + 1, Len(s))
RemoveAt(s, i) == SubSeq(s, 1, i - 1) \o SubSeq(s, i + 1, Len(s))

TypeOK ==
  /\ mode \in {"compact", "dense"}
  /\ \A e \in SeqRange(hdr) : e.n \in Names /\ e.v \in Vals
  /\ \A o \in heap : o.n \in Names /\ o.v \in Vals /\ o.id \in Nat
  /\ nextId \in Nat

Init == /\ mode = "compact" /\ hdr = <<>> /\ heap = {} /\ idx = <<>> /\ nextId = 1

-----------------------------------------------------------------------------
(* compact storage *)
CompactInsert(n, v) ==
  /\ mode = "compact" /\ n \notin HdrNames
  /\ Len(hdr) < MaxCompact
  /\ HdrBytes + Size[v] <= HdrCap
  /\ hdr' = Append(hdr, [n |-> n, v |-> v])
  /\ UNCHANGED <<mode, heap, idx, nextId>>

CompactReplace(n, v) ==
  /\ mode = "compact" /\ n \in HdrNames
  /\ LET i == HdrPos(n) IN
       /\ HdrBytes - Size[hdr[i].v] + Size[v] <= HdrCap
       /\ hdr' = [hdr EXCEPT ![i] = [n |-> n, v |-> v]]
  /\ UNCHANGED <<mode, heap, idx, nextId>>

\* replacing a compact attribute by a value that no longer fits: the call is refused
CompactReplaceNoRoom(n, v) ==
  /\ mode = "compact" /\ n \in HdrNames
  /\ HdrBytes - Size[hdr[HdrPos(n)].v] + Size[v] > HdrCap
  /\ UNCHANGED vars

\* all compact attributes plus the new one move to heap + index; header keeps only the info message
Migrate(n, v) ==
  LET all == hdr \o <<[n |-> n, v |-> v]>>
      ids == [i \in DOMAIN all |-> nextId + i - 1]
      RECURSIVE Build(_, _)
      Build(i, acc) == IF i > Len(all) THEN acc
                       ELSE Build(i + 1, InsertSorted(acc, [h |-> Hash[all[i].n], id |-> ids[i]]))
  IN /\ heap' = {[id |-> ids[i], n |-> all[i].n, v |-> all[i].v] : i \in DOMAIN all}
     /\ idx' = Build(1, <<>>)
     /\ nextId' = nextId + Len(all)
     /\ hdr' = <<>> /\ mode' = "dense"

MigrateOnCount(n, v) ==
  /\ mode = "compact" /\ n \notin HdrNames /\ Len(hdr) >= MaxCompact
  /\ Migrate(n, v)

MigrateOnHeaderFull(n, v) ==
  /\ mode = "compact" /\ n \notin HdrNames /\ Len(hdr) < MaxCompact
  /\ HdrBytes + Size[v] > HdrCap
  /\ Migrate(n, v)

CompactDelete(n) ==
  /\ mode = "compact" /\ n \in HdrNames
  /\ hdr' = RemoveAt(hdr, HdrPos(n))
  /\ UNCHANGED <<mode, heap, idx, nextId>>

-----------------------------------------------------------------------------
(* dense storage *)
DenseInsert(n, v) ==
  /\ mode = "dense" /\ Find(n) = 0
  /\ heap' = heap \cup {[id |-> nextId, n |-> n, v |-> v]}
  /\ idx' = InsertSorted(idx, [h |-> Hash[n], id |-> nextId])
  /\ nextId' = nextId + 1
  /\ UNCHANGED <<mode, hdr>>

\* same encoded size: the heap object is overwritten in place, the index is untouched
DenseOverwriteSameSize(n, v) ==
  /\ mode = "dense" /\ Find(n) # 0
  /\ LET id == idx[Find(n)].id  o == HeapObj(id) IN
       /\ Size[o.v] = Size[v]
       /\ heap' = (heap \ {o}) \cup {[id |-> id, n |-> n, v |-> v]}
  /\ UNCHANGED <<mode, hdr, idx, nextId>>

\* different size: old object deleted, new object inserted, index record re-pointed
DenseReplaceDiffSize(n, v) ==
  /\ mode = "dense" /\ Find(n) # 0
  /\ LET i == Find(n)  o == HeapObj(idx[i].id) IN
       /\ Size[o.v] # Size[v]
       /\ heap' = (heap \ {o}) \cup {[id |-> nextId, n |-> n, v |-> v]}
       /\ idx' = [idx EXCEPT ![i] = [h |-> idx[i].h, id |-> nextId]]
       /\ nextId' = nextId + 1
  /\ UNCHANGED <<mode, hdr>>

DenseDelete(n) ==
  /\ mode = "dense" /\ Find(n) # 0
  /\ LET i == Find(n) IN
       /\ heap' = heap \ {HeapObj(idx[i].id)}
       /\ idx' = RemoveAt(idx, i)
  /\ UNCHANGED <<mode, hdr, nextId>>

DeleteAbsent(n) ==
  /\ \/ mode = "compact" /\ n \notin HdrNames
     \/ mode = "dense" /\ Find(n) = 0
  /\ UNCHANGED vars

-----------------------------------------------------------------------------
PutOp(n, v) == \/ CompactInsert(n, v) \/ CompactReplace(n, v) \/ CompactReplaceNoRoom(n, v)
               \/ MigrateOnCount(n, v) \/ MigrateOnHeaderFull(n, v)
               \/ DenseInsert(n, v) \/ DenseOverwriteSameSize(n, v) \/ DenseReplaceDiffSize(n, v)
DelOp(n)    == CompactDelete(n) \/ DenseDelete(n) \/ DeleteAbsent(n)

Next == \/ \E n \in Names, v \in Vals : PutOp(n, v)
        \/ \E n \in Names : DelOp(n)

Spec == Init /\ [][Next]_vars

-----------------------------------------------------------------------------
(* refinement mapping and design invariants *)
Live == IF mode = "compact" THEN {[n |-> e.n, v |-> e.v] : e \in SeqRange(hdr)}
        ELSE {[n |-> HeapObj(idx[i].id).n, v |-> HeapObj(idx[i].id).v] : i \in DOMAIN idx}

absmap == [n \in Names |->
             IF \E p \in Live : p.n = n THEN (CHOOSE p \in Live : p.n = n).v ELSE NoVal]

A == INSTANCE AttrMap WITH map <- absmap
Refines == A!Spec

NamesUnique   == \A p, q \in Live : p.n = q.n => p = q
IndexSorted   == \A i, j \in DOMAIN idx : i < j => idx[i].h <= idx[j].h
IndexHeapBij  == /\ Cardinality({idx[i].id : i \in DOMAIN idx}) = Len(idx)
                 /\ {idx[i].id : i \in DOMAIN idx} = {o.id : o \in heap}
IndexHashOK   == \A i \in DOMAIN idx : idx[i].h = Hash[HeapObj(idx[i].id).n]
CompactBounds == mode = "compact" => Len(hdr) <= MaxCompact /\ HdrBytes <= HdrCap
DenseIsSticky == [][mode = "dense" => mode' = "dense"]_vars
DenseHdrEmpty == mode = "dense" => hdr = <<>>
CompactNoHeap == mode = "compact" => heap = {} /\ idx = <<>>
=============================================================================

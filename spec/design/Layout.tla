------------------------------- MODULE Layout -------------------------------
(* The allocation discipline of the low-level file writer (internal/writer):    *)
(* what the library may do to the bytes of the file it is writing.              *)
(*                                                                             *)
(* A session starts with Create(base) - a new file, the allocator starts behind *)
(* the superblock - or Open(base) - an existing file, the allocator starts at   *)
(* its end.  Space is handed out by Alloc(n) at the end of the allocated space  *)
(* (the allocator never reuses space).  Write(a, n) puts n bytes at address a.  *)
(* The discipline (what keeps two structures from damaging each other, C04/C05): *)
(*   Owned        every write lies inside the region that existed when the       *)
(*                session began ([0, base): superblock, or the old file, whose   *)
(*                structures are updated in place) or inside ONE block handed    *)
(*                out by Alloc - never beyond the end of the block it starts in  *)
(*   Disjoint     blocks do not overlap each other or the old region            *)
(*   Monotone     the end of allocated space never decreases                    *)
(*   Quiet        nothing is allocated or written after Close                   *)
(* CODE_WriteRoundedUp reproduces a deviation seen in seeded code: a structure   *)
(* is allocated at its exact size and written out rounded up to a block size.    *)
EXTENDS Integers, FiniteSets

CONSTANTS MaxAddr, Sizes, Bases, Round, CODE_WriteRoundedUp

VARIABLES base, eoa, blocks, last, state      \* last: the most recent write as <<a, n>>; state: "none" | "open" | "closed"
vars == <<base, eoa, blocks, last, state>>

Init == base = 0 /\ eoa = 0 /\ blocks = {} /\ last = <<0, 0>> /\ state = "none"

Begin(b) == /\ state \in {"none", "closed"} /\ b \in Bases /\ b >= eoa
            /\ base' = b /\ eoa' = b /\ blocks' = {} /\ last' = <<0, 0>> /\ state' = "open"
Alloc(n) == /\ state = "open" /\ eoa + n <= MaxAddr
            /\ blocks' = blocks \cup {<<eoa, eoa + n>>} /\ eoa' = eoa + n
            /\ UNCHANGED <<base, last, state>>
RoundUp(n) == ((n + Round - 1) \div Round) * Round
\* a write of a whole block (the library serialises a structure and writes it at the address it allocated for it)
WriteBlock(b) == /\ state = "open" /\ b \in blocks
                 /\ last' = <<b[1], IF CODE_WriteRoundedUp THEN RoundUp(b[2] - b[1]) ELSE b[2] - b[1]>>
                 /\ UNCHANGED <<base, eoa, blocks, state>>
\* an update in place: part of a block, or part of what was there when the session began
WritePart(a, n) == /\ state = "open" /\ n > 0
                   /\ \/ a + n <= base
                      \/ \E b \in blocks : b[1] <= a /\ a + n <= b[2]
                   /\ last' = <<a, n>> /\ UNCHANGED <<base, eoa, blocks, state>>
Close == state = "open" /\ state' = "closed" /\ UNCHANGED <<base, eoa, blocks, last>>
Next == \/ \E b \in Bases : Begin(b)
        \/ \E n \in Sizes : Alloc(n)
        \/ \E b \in blocks : WriteBlock(b)
        \/ \E a \in 0..MaxAddr, n \in Sizes : WritePart(a, n)
        \/ Close
Spec == Init /\ [][Next]_vars

Owned == last[2] = 0 \/ last[1] + last[2] <= base \/ \E b \in blocks : b[1] <= last[1] /\ last[1] + last[2] <= b[2]
Disjoint == \A b, c \in blocks : b = c \/ b[2] <= c[1] \/ c[2] <= b[1]
InsideSpace == \A b \in blocks : base <= b[1] /\ b[2] <= eoa
Monotone == [][eoa' >= eoa]_vars
=============================================================================

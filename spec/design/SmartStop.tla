------------------------------ MODULE SmartStop ------------------------------
(* The stop protocol of rebalancing.SmartRebalancer with respect to the background  *)
(* work it switches on and off.  The monitor goroutine re-evaluates the workload     *)
(* (slow: it asks for the file size) and, when the decision changes, switches mode:  *)
(* entering incremental mode starts the B-tree's background rebalancing, leaving it   *)
(* stops it.  Stop cancels the monitor, waits for it, and then stops the background    *)
(* work if the mode is incremental.  C18 demands: when Stop has returned, no          *)
(* background work is left running.                                                  *)
(*                                                                                  *)
(* That holds only if Stop looks at the mode AFTER it has waited for the monitor:     *)
(* a re-evaluation that is in flight when Stop is called may still switch into         *)
(* incremental mode.  CODE_StopReadsModeEarly = TRUE reads the mode before the wait    *)
(* (a change that looks like a data-race repair, since the mode is protected by the    *)
(* mutex); TLC then returns the interleaving, which the C18 scenario                   *)
(* smart-stop-inflight replays on the real code with a gate in GetFileSize.            *)
(*                                                                                  *)
(* The caller's context may also end before Stop is called: the monitor leaves, the   *)
(* rebalancer is still started, and the later Stop must still switch the background    *)
(* work off.  CODE_MonitorClearsStarted = TRUE lets the leaving monitor mark the       *)
(* rebalancer as stopped (which makes the later Stop return at once): TLC returns      *)
(* ParentCancel, Exit, Stop with the background work still running - replayed by the   *)
(* scenario smart-parent-cancel.                                                      *)
EXTENDS Naturals, TLC

CONSTANTS MaxTicks, CODE_StopReadsModeEarly, CODE_MonitorClearsStarted

VARIABLES mode,      \* "none" | "incr": current mode (under the mutex)
          bg,        \* the B-tree's background rebalancing is running
          mon,       \* monitor goroutine: "off" | "loop" | "eval" (re-evaluation in flight) | "switch"
          cancelled, \* the monitor's context
          stop,      \* Stop call: "idle" | "wait" | "after" | "done"
          seen,      \* the mode Stop acts on
          started,   \* the rebalancer counts as started (Stop returns at once otherwise)
          ticks
vars == <<mode, bg, mon, cancelled, stop, seen, started, ticks>>

Init == mode = "none" /\ bg = FALSE /\ mon = "loop" /\ cancelled = FALSE /\ stop = "idle" /\ seen = "none" /\ started = TRUE /\ ticks = 0

\* monitor: tick -> evaluate (slow, outside the lock) -> switch (under the lock) -> loop; exits when cancelled
Tick   == mon = "loop" /\ ~cancelled /\ ticks < MaxTicks /\ mon' = "eval" /\ ticks' = ticks + 1 /\ UNCHANGED <<mode, bg, cancelled, stop, seen, started>>
Eval   == mon = "eval" /\ mon' = "switch" /\ UNCHANGED <<mode, bg, cancelled, stop, seen, started, ticks>>
Switch == /\ mon = "switch" /\ mon' = "loop"
          /\ \E m \in {"none", "incr"} : mode' = m /\ bg' = (IF m = "incr" THEN TRUE ELSE IF mode = "incr" THEN FALSE ELSE bg)
          /\ UNCHANGED <<cancelled, stop, seen, started, ticks>>
Exit   == /\ mon = "loop" /\ cancelled /\ mon' = "off"
          /\ started' = IF CODE_MonitorClearsStarted THEN FALSE ELSE started
          /\ UNCHANGED <<mode, bg, cancelled, stop, seen, ticks>>
\* the context the caller passed to Start ends (before Stop is called)
ParentCancel == stop = "idle" /\ ~cancelled /\ cancelled' = TRUE /\ UNCHANGED <<mode, bg, mon, stop, seen, started, ticks>>

\* Stop: cancel under the lock (reading the mode there if the code does so), wait for the monitor, act on the mode
StopBegin == /\ stop = "idle"
             /\ IF started
                THEN /\ stop' = "wait" /\ cancelled' = TRUE
                     /\ seen' = IF CODE_StopReadsModeEarly THEN mode ELSE seen
                ELSE stop' = "done" /\ UNCHANGED <<cancelled, seen>>        \* "not started": nothing to do
             /\ UNCHANGED <<mode, bg, mon, started, ticks>>
StopWaited == /\ stop = "wait" /\ mon = "off" /\ stop' = "after"
              /\ seen' = IF CODE_StopReadsModeEarly THEN seen ELSE mode
              /\ UNCHANGED <<mode, bg, mon, cancelled, started, ticks>>
StopAct == /\ stop = "after" /\ stop' = "done" /\ started' = FALSE
           /\ bg' = IF seen = "incr" THEN FALSE ELSE bg
           /\ UNCHANGED <<mode, mon, cancelled, seen, ticks>>

Next == Tick \/ Eval \/ Switch \/ Exit \/ ParentCancel \/ StopBegin \/ StopWaited \/ StopAct \/ (stop = "done" /\ UNCHANGED vars)
Spec == Init /\ [][Next]_vars /\ WF_vars(Eval \/ Switch \/ Exit \/ StopWaited \/ StopAct)

\* C18: after Stop has returned no background work is running, and the monitor is gone
QuietAfterStop == stop = "done" => (~bg /\ mon = "off")
StopReturns == (stop = "wait") ~> (stop = "done")
=============================================================================

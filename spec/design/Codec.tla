------------------------------- MODULE Codec -------------------------------
(* Value spaces of the metadata elements the library both encodes and decodes, *)
(* and the round-trip law of C11:                                               *)
(*                                                                             *)
(*      Accepted(k, v)  =>  Decode(k, Encode(k, v)) = Exp(k, v)                *)
(*                          /\ Encode(k, v) is a function of v (deterministic)  *)
(*                                                                             *)
(* `Exp` is the identity on the fields both sides have, plus the few            *)
(* normalisations the file format itself imposes (version numbers the encoder   *)
(* fixes, padding of opaque tags and version 1 header messages to 8 bytes,      *)
(* member offsets of a packed compound).  Everything else in Exp is the value    *)
(* that went in.  The byte layouts are not modelled here (TLC is the wrong tool   *)
(* for bit layouts, see DESIGN.md); the model contributes the enumeration of the  *)
(* value space, the well-formedness predicates (what must be encodable, what      *)
(* cannot fit) and the expected decoded value, field by field.                    *)
(*                                                                             *)
(* 64-bit quantities are decimal strings (TLC integers are 32 bit); small        *)
(* quantities that the model computes with are integers.  A field has the same    *)
(* type in every value of a kind.                                               *)
EXTENDS Integers, Sequences, FiniteSets, TLC, Json

CONSTANTS Kinds,     \* which element kinds this run enumerates
          Wide       \* TRUE: the larger value sets (thorough)

-----------------------------------------------------------------------------
(* atoms *)
Undef  == "18446744073709551615"
Small  == {"0", "48", "2048"}
Big64  == {"4294967296", Undef}                       \* need 8-byte offsets
Addrs  == Small \cup {"4294967295"} \cup Big64
FitsIn(a, osz) == osz = 8 \/ a \notin Big64
Sb     == {[osz |-> 8, lsz |-> 8], [osz |-> 4, lsz |-> 4]}
Pad8(n) == ((n + 7) \div 8) * 8

SeqsOf(S, lo, hi) == UNION {[1..k -> S] : k \in lo..hi}

\* names are described by their length; the driver builds the bytes (deterministically from
\* the length) and reports whether the decoded name is byte-identical
NameLens == {1, 7, 8, 9, 255, 256} \cup (IF Wide THEN {65534, 65535, 65536} ELSE {65535})

-----------------------------------------------------------------------------
(* datatypes: a basic type is what can be nested as base or member *)
FixedT  == [c : {0}, size : {1, 2, 4, 8}, bits : {0, 8} \cup (IF Wide THEN {1, 9} ELSE {})]
FloatT  == [c : {1}, size : {4, 8}, bits : {32} \cup (IF Wide THEN {33} ELSE {})]   \* 0x20: IEEE sign position as written by the library
StrT    == [c : {3}, size : {1, 5} \cup (IF Wide THEN {255, 256, 65536} ELSE {}), bits : {0} \cup (IF Wide THEN {1, 2, 16, 17} ELSE {})]
RefT    == [c : {7}, size : {8}, bits : {0}] \cup [c : {7}, size : {12}, bits : {1}]
Basic   == FixedT \cup FloatT \cup StrT \cup RefT
PropLen(t) == CASE t.c = 0 -> 4 [] t.c = 1 -> 12 [] t.c = 3 -> 1 [] t.c = 7 -> 0

DtBasic  == {[kind |-> "dt_basic", t |-> t] : t \in Basic}
ExpDtBasic(v) == [class |-> v.t.c, ver |-> 1, size |-> v.t.size, bits |-> v.t.bits]

\* a tag of more than 9 bytes is its one-byte seed repeated n times (the driver builds it and reports the seed when the decoded tag
\* is exactly that).  The class bit field holds the padded tag length in 8 bits: 248 is the longest tag the format can hold.
Tags     == {[s |-> "a", n |-> 1], [s |-> "abcdefg", n |-> 7], [s |-> "abcdefgh", n |-> 8], [s |-> "abcdefghi", n |-> 9],
             [s |-> "z", n |-> 248], [s |-> "z", n |-> 249], [s |-> "z", n |-> 255], [s |-> "z", n |-> 256]}
DtOpaque == {[kind |-> "dt_opaque", size |-> s, tag |-> t] : s \in {1, 16, 65536}, t \in Tags}
ExpDtOpaque(v) == [class |-> 5, ver |-> 1, size |-> v.size, bits |-> Pad8(v.tag.n), tag |-> v.tag.s, taglen |-> v.tag.n]

\* variable length: bits = type (0 sequence, 1 string) + 256*padding + 65536*charset
DtVlen   == {[kind |-> "dt_vlen", bits |-> b, base |-> t] : b \in {0, 1, 65537} \cup (IF Wide THEN {257, 513} ELSE {}),
                                                           t \in {x \in Basic : x.c \in {0, 1} \/ (x.c = 3 /\ x.size = 1)}}
ExpDtVlen(v) == [class |-> 9, ver |-> 1, size |-> 16, bits |-> v.bits,
                 base |-> [class |-> v.base.c, size |-> v.base.size, bits |-> v.base.bits]]

ArrDims  == SeqsOf({1, 3, 10}, 1, IF Wide THEN 3 ELSE 2)
Prod(s)  == IF Len(s) = 1 THEN s[1] ELSE IF Len(s) = 2 THEN s[1] * s[2] ELSE s[1] * s[2] * s[3]
DtArray  == {[kind |-> "dt_array", base |-> t, dims |-> d] : t \in {x \in Basic : x.c \in {0, 1}}, d \in ArrDims}
ExpDtArray(v) == [class |-> 10, ver |-> 3, size |-> Prod(v.dims) * v.base.size, bits |-> 0,
                  dims |-> v.dims, base |-> [class |-> v.base.c, size |-> v.base.size, bits |-> v.base.bits]]

EnumNames == <<"R", "GREEN12", "BLUE1234", "X23456789">>
DtEnum   == {[kind |-> "dt_enum", base |-> t, n |-> n] : t \in {x \in FixedT : x.bits \in {0, 8}}, n \in 1..4}
ExpDtEnum(v) == [class |-> 8, ver |-> 3, size |-> v.base.size, bits |-> v.n,
                 base |-> [class |-> v.base.c, size |-> v.base.size, bits |-> v.base.bits],
                 names |-> [i \in 1..v.n |-> EnumNames[i]]]

\* compound: members by position; names of lengths 1, 7, 8, 9 exercise the version 1 padding
MemberT  == {[c |-> 0, size |-> 4, bits |-> 8], [c |-> 1, size |-> 8, bits |-> 32], [c |-> 0, size |-> 1, bits |-> 0],
             [c |-> 3, size |-> 5, bits |-> 0], [c |-> 7, size |-> 8, bits |-> 0], [c |-> 6, size |-> 12, bits |-> 0]}   \* c = 6: nested {int32, float64}
MemberNames == <<"a", "bcdefgh", "ijklmnop", "qrstuvwxy">>
DtCompound == {[kind |-> "dt_compound", ver |-> ver, members |-> m] :
                 ver \in {1, 3}, m \in SeqsOf(MemberT, 1, IF Wide THEN 4 ELSE 3)}
Offset(m, i) == LET RECURSIVE Sum(_)
                    Sum(k) == IF k = 0 THEN 0 ELSE m[k].size + Sum(k - 1)
                IN Sum(i - 1)
\* compounds with many members (the member count is a 16-bit field of the class bits; 255/256/257 cross its low byte): int32 members
\* named m0, m1, ... at offsets 0, 4, ...
DtCompoundN == {[kind |-> "dt_compound_n", ver |-> ver, n |-> n] : ver \in {1, 3}, n \in {255, 256, 257}}
ExpDtCompoundN(v) == [class |-> 6, ver |-> v.ver, size |-> 4 * v.n, n |-> v.n, lastoff |-> 4 * (v.n - 1), lastname |-> "m" \o ToString(v.n - 1)]
ExpDtCompound(v) == [class |-> 6, ver |-> v.ver, size |-> Offset(v.members, Len(v.members) + 1),
                     members |-> [i \in 1..Len(v.members) |->
                                    [name |-> MemberNames[i], off |-> Offset(v.members, i),
                                     class |-> v.members[i].c, size |-> v.members[i].size]]]

-----------------------------------------------------------------------------
(* dataspace *)
DimAtoms == {"0", "1", "3", "4294967295", "4294967296"}
Ranks    == {0, 1, 2} \cup (IF Wide THEN {3, 4, 32} ELSE {32})
DimSeqs(r) == IF r <= 2 THEN [1..r -> DimAtoms]
              ELSE {[i \in 1..r |-> "3"], [i \in 1..r |-> IF i = r THEN "4294967296" ELSE "1"], [i \in 1..r |-> IF i = 1 THEN "0" ELSE "2"]}
MaxOf(d) == {<<>>,                                   \* no maximum stored
             d,                                      \* maximum = current
             [i \in 1..Len(d) |-> Undef],            \* unlimited
             [i \in 1..Len(d) |-> IF i = 1 THEN Undef ELSE d[i]]}
DimsAll == UNION {DimSeqs(r) : r \in Ranks}
Dataspace == UNION {{[kind |-> "dataspace", dims |-> d, max |-> m] : m \in MaxOf(d)} : d \in DimsAll}
ExpDataspace(v) == [ver |-> 1, type |-> 1, dims |-> v.dims, max |-> v.max]

-----------------------------------------------------------------------------
(* data layout *)
ChunkAtoms == {"1", "10", "4294967295"} \cup (IF Wide THEN {"4294967296"} ELSE {})
\* the layout decoder also looks at the superblock version (size of chunk dimensions): all written versions
SbV == {[osz |-> b.osz, lsz |-> b.lsz, ver |-> v] : b \in Sb, v \in {0, 2, 3}}
Layout == {[kind |-> "layout", class |-> 1, addr |-> a, size |-> s, cdims |-> <<>>, sb |-> b] :
             a \in Addrs, s \in Addrs \ {Undef}, b \in SbV}
          \cup {[kind |-> "layout", class |-> 2, addr |-> a, size |-> "0", cdims |-> c, sb |-> b] :
             a \in Addrs, c \in SeqsOf(ChunkAtoms, 1, IF Wide THEN 3 ELSE 2), b \in SbV}
WfLayout(v) == FitsIn(v.addr, v.sb.osz) /\ FitsIn(v.size, v.sb.lsz)
ExpLayout(v) == [ver |-> 3, class |-> v.class, addr |-> v.addr, size |-> v.size, cdims |-> v.cdims]

-----------------------------------------------------------------------------
(* filter pipeline: the writer's filter objects, as the public options create them *)
FilterIds == [deflate |-> 1, shuffle |-> 2, fletcher32 |-> 3, lzf |-> 32000]
Pipes == {<<>>} \cup SeqsOf({"deflate", "shuffle", "fletcher32", "lzf"}, 1, IF Wide THEN 3 ELSE 2)
Pipeline == {[kind |-> "pipeline", pipe |-> p, level |-> lv, width |-> w] : p \in {q \in Pipes : Len(q) > 0}, lv \in {1, 9}, w \in {1, 8}}
ExpPipeline(v) == [n |-> Len(v.pipe), ids |-> [i \in 1..Len(v.pipe) |-> FilterIds[v.pipe[i]]]]

-----------------------------------------------------------------------------
(* attribute message *)
AttrTypes == {[c |-> 0, size |-> 4, bits |-> 8], [c |-> 0, size |-> 1, bits |-> 0], [c |-> 1, size |-> 8, bits |-> 32], [c |-> 3, size |-> 5, bits |-> 0]}
Attr == {[kind |-> "attr", name |-> n, t |-> t, dims |-> d] :
           n \in NameLens \cup {0}, t \in AttrTypes, d \in {<<"1">>, <<"3">>, <<"2", "2">>}}
ExpAttr(v) == [name_n |-> v.name, name_ok |-> TRUE, class |-> v.t.c, size |-> v.t.size, bits |-> v.t.bits,
               dims |-> v.dims, data_ok |-> TRUE]

(* attribute info *)
AttrInfo == {[kind |-> "ainfo", flags |-> f, maxci |-> IF f % 2 = 1 THEN m ELSE 0, fh |-> a, bt |-> b,
              bto |-> IF f >= 2 THEN c ELSE "0", sb |-> s] :
               f \in 0..3, m \in {0, 7, 65535}, a \in {"0", "2048", Undef, "4294967296"}, b \in {"48", Undef}, c \in {"4096", Undef}, s \in Sb}
WfAttrInfo(v) == FitsIn(v.fh, v.sb.osz) /\ FitsIn(v.bt, v.sb.osz) /\ FitsIn(v.bto, v.sb.osz)
ExpAttrInfo(v) == [ver |-> 0, flags |-> v.flags, maxci |-> v.maxci, fh |-> v.fh, bt |-> v.bt, bto |-> v.bto]

-----------------------------------------------------------------------------
(* link message.  lsz: code of the name-length field (1, 2, 4, 8 bytes); co / cs: "" when the optional field is absent *)
LinkTargets == {[t |-> 0, addr |-> a, path |-> "", file |-> ""] : a \in {"48", "4294967295", "4294967296"}}
               \cup {[t |-> 1, addr |-> "0", path |-> p, file |-> ""] : p \in {"/a", "rel/b", "/a/very/long/target/path/0123456789"}}
               \cup {[t |-> 64, addr |-> "0", path |-> "/x", file |-> f] : f \in {"o.h5", "dir/other.h5"}}
LenMax(code) == CASE code = 0 -> 255 [] code = 1 -> 65535 [] OTHER -> 2000000000
Link == {[kind |-> "link", lsz |-> z, co |-> co, cs |-> cs, tf |-> tf, target |-> tg, name |-> n, sb |-> s] :
           z \in 0..3, co \in {"", "0", "5", "4294967296"}, cs \in {"", "0", "1"}, tf \in BOOLEAN, tg \in LinkTargets,
           n \in NameLens, s \in Sb}
\* the type field may be omitted for hard links only; the address must fit
WfLink(v) == (v.tf \/ v.target.t = 0) /\ FitsIn(v.target.addr, v.sb.osz)
LinkFlags(v) == v.lsz + (IF v.co # "" THEN 4 ELSE 0) + (IF v.tf THEN 8 ELSE 0) + (IF v.cs # "" THEN 16 ELSE 0)
NameFits(v) == v.name <= LenMax(v.lsz)
ExpLink(v) == [flags |-> LinkFlags(v), type |-> v.target.t, co |-> IF v.co = "" THEN "0" ELSE v.co,
               cs |-> IF v.cs = "" THEN "0" ELSE v.cs, name_n |-> v.name, name_ok |-> TRUE,
               value_ok |-> TRUE,                         \* the LinkValue bytes that went in come out
               addr |-> v.target.addr, path |-> v.target.path, file |-> v.target.file]

(* link info *)
LinkInfo == {[kind |-> "linfo", flags |-> f, maxco |-> IF f % 2 = 1 THEN m ELSE "0", fh |-> a, bt |-> b,
              bto |-> IF f >= 2 THEN c ELSE "0", sb |-> s] :
               f \in 0..3, m \in {"0", "7", "4294967296"}, a \in {"2048", Undef, "4294967296"}, b \in {"48", Undef}, c \in {"4096", Undef}, s \in Sb}
WfLinkInfo(v) == FitsIn(v.fh, v.sb.osz) /\ FitsIn(v.bt, v.sb.osz) /\ FitsIn(v.bto, v.sb.osz)
ExpLinkInfo(v) == [ver |-> 0, flags |-> v.flags, maxco |-> v.maxco, fh |-> v.fh, bt |-> v.bt, bto |-> v.bto]

-----------------------------------------------------------------------------
(* superblock *)
Super == {[kind |-> "sb", ver |-> 0, base |-> b, root |-> r, eof |-> e, ext |-> "0", rbt |-> t, rheap |-> h] :
            b \in {"0", "2048"}, r \in Addrs, e \in {"2048", "4294967296"}, t \in {"136", Undef}, h \in {"680", Undef}}
         \cup {[kind |-> "sb", ver |-> ver, base |-> b, root |-> r, eof |-> e, ext |-> x, rbt |-> "0", rheap |-> "0"] :
            ver \in {2, 3}, b \in {"0", "2048"}, r \in Addrs, e \in {"2048", "4294967296"}, x \in {"0", "4096", Undef}}
\* address 0 holds the superblock itself: as extension address it is the writer's way of saying "none",
\* which the format stores as the undefined address (versions 2 and 3; version 0 has no such field)
ExpSuper(v) == [ver |-> v.ver, osz |-> 8, lsz |-> 8, base |-> v.base, root |-> v.root,
                ext |-> IF v.ver # 0 /\ v.ext = "0" THEN Undef ELSE v.ext, rbt |-> v.rbt, rheap |-> v.rheap]

-----------------------------------------------------------------------------
(* object header: messages by type and data length; the driver fills the data *)
MsgLens  == {1, 7, 8, 9, 24} \cup (IF Wide THEN {100, 240} ELSE {})
MsgTypes == {1, 3, 8, 17}
Msgs     == [t : MsgTypes, len : MsgLens]
OHeader  == {[kind |-> "ohdr", ver |-> ver, rc |-> rc, msgs |-> m] :
               ver \in {1, 2}, rc \in {1, 3}, m \in {<<>>} \cup SeqsOf(Msgs, 1, 2)
                                                  \cup (IF Wide THEN {<<[t |-> 1, len |-> 24], [t |-> 3, len |-> 9], [t |-> 8, len |-> 7], x>> : x \in Msgs} ELSE {})}
\* version 1: message data is stored padded to 8 bytes, and the stored size may be either; version 2: exact
ExpMsgLens(v, i) == IF v.ver = 1 THEN {v.msgs[i].len, Pad8(v.msgs[i].len)} ELSE {v.msgs[i].len}
ExpOHeader(v) == [ver |-> v.ver, n |-> Len(v.msgs), rc |-> IF v.ver = 1 THEN v.rc ELSE 1]

-----------------------------------------------------------------------------
Values(k) ==
  CASE k = "dt_basic" -> DtBasic [] k = "dt_opaque" -> DtOpaque [] k = "dt_vlen" -> DtVlen [] k = "dt_array" -> DtArray
    [] k = "dt_enum" -> DtEnum [] k = "dt_compound" -> DtCompound [] k = "dt_compound_n" -> DtCompoundN [] k = "dataspace" -> Dataspace
    [] k = "layout" -> {v \in Layout : WfLayout(v)} [] k = "pipeline" -> Pipeline [] k = "attr" -> Attr
    [] k = "ainfo" -> {v \in AttrInfo : WfAttrInfo(v)} [] k = "link" -> {v \in Link : WfLink(v)}
    [] k = "linfo" -> {v \in LinkInfo : WfLinkInfo(v)} [] k = "sb" -> Super [] k = "ohdr" -> OHeader

Exp(v) ==
  CASE v.kind = "dt_basic" -> ExpDtBasic(v) [] v.kind = "dt_opaque" -> ExpDtOpaque(v) [] v.kind = "dt_vlen" -> ExpDtVlen(v)
    [] v.kind = "dt_array" -> ExpDtArray(v) [] v.kind = "dt_enum" -> ExpDtEnum(v) [] v.kind = "dt_compound" -> ExpDtCompound(v) [] v.kind = "dt_compound_n" -> ExpDtCompoundN(v)
    [] v.kind = "dataspace" -> ExpDataspace(v) [] v.kind = "layout" -> ExpLayout(v) [] v.kind = "pipeline" -> ExpPipeline(v)
    [] v.kind = "attr" -> ExpAttr(v) [] v.kind = "ainfo" -> ExpAttrInfo(v) [] v.kind = "link" -> ExpLink(v)
    [] v.kind = "linfo" -> ExpLinkInfo(v) [] v.kind = "sb" -> ExpSuper(v) [] v.kind = "ohdr" -> ExpOHeader(v)

\* values the encoder has to accept (everything the writer itself produces lies inside); the rest
\* may be refused, but if it is accepted the round trip must hold all the same
MustEncode(v) ==
  CASE v.kind = "dataspace" -> Len(v.dims) >= 1
    [] v.kind = "layout"    -> \A i \in DOMAIN v.cdims : v.cdims[i] # "4294967296"
    [] v.kind = "attr"      -> v.name >= 1 /\ v.name <= 65534
    [] v.kind = "link"      -> NameFits(v)
    [] v.kind = "dt_opaque" -> Pad8(v.tag.n) <= 255
    [] v.kind = "ohdr"      -> v.ver = 1 \/ (LET RECURSIVE S(_)
                                                 S(i) == IF i = 0 THEN 0 ELSE 4 + v.msgs[i].len + S(i - 1)
                                             IN S(Len(v.msgs)) <= 255)
    [] OTHER -> TRUE

\* values that cannot be represented at all: the encoder must refuse them
MustRefuse(v) ==
  CASE v.kind = "dataspace" -> FALSE
    [] v.kind = "layout"    -> \E i \in DOMAIN v.cdims : v.cdims[i] = "4294967296"
    [] v.kind = "attr"      -> v.name = 0 \/ v.name >= 65535      \* the size field (2 bytes) counts the terminator
    [] v.kind = "link"      -> ~NameFits(v)
    [] v.kind = "dt_opaque" -> Pad8(v.tag.n) > 255          \* the length field of the tag has 8 bits
    [] OTHER -> FALSE

=============================================================================

------------------------------- MODULE FaultIO -------------------------------
(* Fault model for C17.  An API call performs a sequence of I/O operations; at     *)
(* most one of them fails (a failing ReadAt/WriteAt, or a read beyond the end of    *)
(* a truncated file).  The call answers with a set of items (members of a group,    *)
(* attributes of an object, elements of a dataset).  FaultOutcome: the answer is    *)
(* either an error or exactly the intact answer - never a smaller or different      *)
(* one.  The intended design propagates every I/O error; the code swallows some      *)
(* (CODE_ switches): then a fault at the I/O that loads item k yields the intact     *)
(* answer minus k, without an error.                                                *)
EXTENDS Integers, FiniteSets, Sequences, TLC

CONSTANTS Items,                 \* what the call should return, e.g. {"m1", "m2", "m3"}
          CODE_SwallowChildError,  \* group.go: a child that fails to load is skipped (link-message groups)
          CODE_SwallowAttrError    \* objectheader.go: an attribute that fails to parse is skipped

VARIABLES pending,   \* items still to be loaded (one I/O each)
          answer,    \* items loaded so far
          status,    \* "running" | "ok" | "err"
          faulted    \* has the single fault been injected already?

vars == <<pending, answer, status, faulted>>
Init == pending = Items /\ answer = {} /\ status = "running" /\ faulted = FALSE

LoadOk(i) == /\ status = "running" /\ i \in pending
             /\ pending' = pending \ {i} /\ answer' = answer \cup {i} /\ UNCHANGED <<status, faulted>>
\* the I/O for item i fails
LoadFault(i) ==
  /\ status = "running" /\ i \in pending /\ ~faulted /\ faulted' = TRUE
  /\ IF CODE_SwallowChildError \/ CODE_SwallowAttrError
     THEN /\ pending' = pending \ {i} /\ UNCHANGED <<answer, status>>       \* skipped silently
     ELSE /\ status' = "err" /\ UNCHANGED <<pending, answer>>               \* propagated
Finish == /\ status = "running" /\ pending = {} /\ status' = "ok" /\ UNCHANGED <<pending, answer, faulted>>

Next == (\E i \in Items : LoadOk(i) \/ LoadFault(i)) \/ Finish
Spec == Init /\ [][Next]_vars /\ WF_vars(Next)

\* C17: an error, or exactly the intact answer
FaultOutcome == status = "ok" => answer = Items
Terminates == <>(status \in {"ok", "err"})
=============================================================================

---------------------------- MODULE SelectorCore ----------------------------
(* The gate logic of ConfigSelector.SelectConfig as a pure operator (shared by   *)
(* the design specification Selector and the trace specification C19SelTrace).   *)
EXTENDS Integers, FiniteSets

IsAllowedIn(allowed, m) == allowed = {} \/ m \in allowed

\* returns [mode, gate, lastMode, lastTime] for a raw decision arriving at time t
Decide(allowed, minconf, period, lastMode, lastTime, t, raw, conf) ==
  IF conf < minconf THEN [mode |-> "none", gate |-> "low-confidence", lastMode |-> lastMode, lastTime |-> lastTime]
  ELSE IF ~IsAllowedIn(allowed, raw) THEN [mode |-> "none", gate |-> "not-allowed", lastMode |-> lastMode, lastTime |-> lastTime]
  ELSE IF lastTime # -1 /\ t - lastTime < period /\ raw # lastMode
       THEN [mode |-> lastMode, gate |-> "stability", lastMode |-> lastMode, lastTime |-> lastTime]
  ELSE [mode |-> raw, gate |-> "passed", lastMode |-> raw, lastTime |-> t]
=============================================================================

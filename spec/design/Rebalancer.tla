------------------------------ MODULE Rebalancer ------------------------------
(* Design specification of the incremental rebalancer's concurrency               *)
(* (internal/structures/btreev2_incremental.go, btreev2_lazy.go): one background   *)
(* goroutine Bg (ticker loop) and foreground goroutines Fg calling the index's      *)
(* operations.  Every shared-memory access is one labelled step that announces      *)
(* what it is about to do: [site, var, write, locked].  A state in which two        *)
(* processes are each about to perform conflicting accesses (same variable, at      *)
(* least one write) that are not both made under the mutex is a data race.          *)
(* Channels are flags; closing a closed channel is the error state Panic.           *)
(* CODE_Unlocked = TRUE models the code as it is (lazy state and `running` read     *)
(* and written without the mutex, Stop closing the channel outside the lock);        *)
(* FALSE models the intended design (every access under the mutex, the close         *)
(* guarded): TLC proves NoRace / NoPanic / StopReturns / NoLeak for it.              *)
EXTENDS Integers, Sequences, FiniteSets, TLC, Json

CONSTANTS Fgs,            \* foreground processes, e.g. {"f1", "f2"}
          MaxOps,         \* foreground calls per process
          MaxTicks,       \* ticker firings
          CODE_Unlocked

Procs == Fgs \cup {"bg"}
FgOps == {"delete", "batch", "progress", "enabled", "stop"}

VARIABLES pc,          \* per process: current label
          op,          \* per foreground process: the call being executed ("" between calls)
          nops,        \* per foreground process: calls made
          mu,          \* holder of the mutex or "none"
          running, stopClosed, stoppedClosed, panic,
          ticks,
          stopsReturned

vars == <<pc, op, nops, mu, running, stopClosed, stoppedClosed, panic, ticks, stopsReturned>>

\* what a process is about to access at its current label: [site, var, write, locked] or NoAcc
NoAcc == [site |-> "", var |-> "", write |-> FALSE, locked |-> FALSE]
L == ~CODE_Unlocked        \* in the intended design these accesses are made under the mutex
Acc(p) ==
  IF p = "bg" THEN
    CASE pc[p] = "tick_read"   -> [site |-> "rebalanceIncremental", var |-> "lazy", write |-> FALSE, locked |-> L]
      [] pc[p] = "tick_write"  -> [site |-> "rebalanceIncremental", var |-> "lazy", write |-> TRUE, locked |-> L]
      [] pc[p] = "tick_count"  -> [site |-> "rebalanceIncremental", var |-> "nodes", write |-> TRUE, locked |-> TRUE]
      [] pc[p] = "stop_flag"   -> [site |-> "rebalancingLoop", var |-> "running", write |-> TRUE, locked |-> TRUE]
      [] OTHER -> NoAcc
  ELSE
    CASE pc[p] = "del_write"   -> [site |-> "DeleteRecordLazy", var |-> "lazy", write |-> TRUE, locked |-> L]
      [] pc[p] = "batch_write" -> [site |-> "BatchRebalance", var |-> "lazy", write |-> TRUE, locked |-> L]
      [] pc[p] = "prog_ptr"    -> [site |-> "GetIncrementalRebalancingProgress", var |-> "ir", write |-> FALSE, locked |-> L]
      [] pc[p] = "en_ptr"      -> [site |-> "IsIncrementalRebalancingEnabled", var |-> "ir", write |-> FALSE, locked |-> L]
      [] pc[p] = "stop_ptr"    -> [site |-> "StopIncrementalRebalancing", var |-> "ir", write |-> FALSE, locked |-> L]
      [] pc[p] = "stop_nil"    -> [site |-> "StopIncrementalRebalancing", var |-> "ir", write |-> TRUE, locked |-> L]
      [] pc[p] = "prog_nodes"  -> [site |-> "GetProgress", var |-> "nodes", write |-> FALSE, locked |-> TRUE]
      [] pc[p] = "prog_lazy"   -> [site |-> "GetProgress", var |-> "lazy", write |-> FALSE, locked |-> TRUE]
      [] pc[p] = "en_read"     -> [site |-> "IsIncrementalRebalancingEnabled", var |-> "running", write |-> FALSE, locked |-> L]
      [] pc[p] = "stop_read"   -> [site |-> "Stop", var |-> "running", write |-> FALSE, locked |-> TRUE]
      [] OTHER -> NoAcc

NeedsLock(p) == Acc(p).locked
\* an access step can be taken when no lock is needed, or the mutex is free / held by p
CanAccess(p) == ~NeedsLock(p) \/ mu \in {"none", p}

Init == /\ pc = [p \in Procs |-> IF p = "bg" THEN "loop" ELSE "idle"]
        /\ op = [p \in Fgs |-> ""] /\ nops = [p \in Fgs |-> 0]
        /\ mu = "none" /\ running = TRUE /\ stopClosed = FALSE /\ stoppedClosed = FALSE /\ panic = FALSE
        /\ ticks = 0 /\ stopsReturned = 0

Goto(p, l) == pc' = [pc EXCEPT ![p] = l]
\* take/release the mutex around a locked access (one atomic step per access keeps the model small:
\* the access itself is the critical section)
Locked(p) == IF NeedsLock(p) THEN mu = "none" ELSE TRUE

-----------------------------------------------------------------------------
(* background goroutine *)
BgLoop ==
  /\ pc["bg"] = "loop"
  /\ \/ /\ stopClosed /\ Goto("bg", "stop_flag")
        /\ UNCHANGED <<ticks>>
     \/ /\ ~stopClosed /\ ticks < MaxTicks /\ ticks' = ticks + 1 /\ Goto("bg", "tick_read")
  /\ UNCHANGED <<op, nops, mu, running, stopClosed, stoppedClosed, panic, stopsReturned>>
BgStep(from, to) ==
  /\ pc["bg"] = from /\ Locked("bg") /\ Goto("bg", to)
  /\ UNCHANGED <<op, nops, mu, running, stopClosed, stoppedClosed, panic, ticks, stopsReturned>>
BgStopFlag ==
  /\ pc["bg"] = "stop_flag" /\ Locked("bg") /\ running' = FALSE /\ Goto("bg", "close_stopped")
  /\ UNCHANGED <<op, nops, mu, stopClosed, stoppedClosed, panic, ticks, stopsReturned>>
BgCloseStopped ==
  /\ pc["bg"] = "close_stopped" /\ stoppedClosed' = TRUE /\ Goto("bg", "done")
  /\ UNCHANGED <<op, nops, mu, running, stopClosed, panic, ticks, stopsReturned>>
Bg == BgLoop \/ BgStep("tick_read", "tick_write") \/ BgStep("tick_write", "tick_count") \/ BgStep("tick_count", "loop")
      \/ BgStopFlag \/ BgCloseStopped

-----------------------------------------------------------------------------
(* foreground goroutines *)
Begin(p) ==
  /\ pc[p] = "idle" /\ nops[p] < MaxOps
  /\ \E o \in FgOps :
       /\ op' = [op EXCEPT ![p] = o] /\ nops' = [nops EXCEPT ![p] = @ + 1]
       /\ Goto(p, CASE o = "delete" -> "del_write" [] o = "batch" -> "batch_write" [] o = "progress" -> "prog_ptr"
                    [] o = "enabled" -> "en_ptr" [] o = "stop" -> "stop_ptr")
  /\ UNCHANGED <<mu, running, stopClosed, stoppedClosed, panic, ticks, stopsReturned>>
FgStep(p, from, to) ==
  /\ pc[p] = from /\ Locked(p) /\ Goto(p, to)
  /\ op' = IF to = "idle" THEN [op EXCEPT ![p] = ""] ELSE op
  /\ UNCHANGED <<nops, mu, running, stopClosed, stoppedClosed, panic, ticks, stopsReturned>>
\* Stop: read running under the mutex; if set, (CODE: outside the lock) close stopChan, then wait for stoppedChan
StopRead(p) ==
  /\ pc[p] = "stop_read" /\ Locked(p)
  /\ IF running
     THEN IF CODE_Unlocked THEN Goto(p, "stop_close") /\ UNCHANGED <<stopClosed, panic>>
          ELSE \* intended design: test-and-close in one critical section
               /\ stopClosed' = TRUE /\ panic' = (panic \/ FALSE) /\ Goto(p, "stop_wait")
     ELSE Goto(p, "stop_ret") /\ UNCHANGED <<stopClosed, panic>>
  /\ UNCHANGED <<op, nops, mu, running, stoppedClosed, ticks, stopsReturned>>
StopClose(p) ==
  /\ pc[p] = "stop_close"
  /\ IF stopClosed THEN panic' = TRUE /\ UNCHANGED stopClosed ELSE stopClosed' = TRUE /\ UNCHANGED panic
  /\ Goto(p, "stop_wait")
  /\ UNCHANGED <<op, nops, mu, running, stoppedClosed, ticks, stopsReturned>>
StopWait(p) ==
  /\ pc[p] = "stop_wait" /\ stoppedClosed /\ Goto(p, "stop_ret") /\ stopsReturned' = stopsReturned + 1
  /\ UNCHANGED <<op, nops, mu, running, stopClosed, stoppedClosed, panic, ticks>>
StopRet(p) ==
  /\ pc[p] = "stop_ret" /\ Goto(p, "stop_nil")            \* bt.incrementalRebalancer = nil
  /\ UNCHANGED <<op, nops, mu, running, stopClosed, stoppedClosed, panic, ticks, stopsReturned>>
\* in the intended design a second Stop finds the channel already closed and only waits
StopReadFixedSecond(p) ==
  /\ ~CODE_Unlocked /\ pc[p] = "stop_read" /\ mu = "none" /\ running /\ stopClosed
  /\ Goto(p, "stop_wait")
  /\ UNCHANGED <<op, nops, mu, running, stopClosed, stoppedClosed, panic, ticks, stopsReturned>>
StopSteps(p) == FgStep(p, "stop_ptr", "stop_read") \/ FgStep(p, "stop_nil", "idle") \/ (IF ~CODE_Unlocked /\ pc[p] = "stop_read" /\ running /\ stopClosed THEN StopReadFixedSecond(p) ELSE StopRead(p))
                \/ StopClose(p) \/ StopWait(p) \/ StopRet(p)
Fg(p) == Begin(p) \/ FgStep(p, "del_write", "idle") \/ FgStep(p, "batch_write", "idle")
         \/ FgStep(p, "prog_ptr", "prog_nodes") \/ FgStep(p, "en_ptr", "en_read") \/ FgStep(p, "stop_ptr", "stop_read")
         \/ FgStep(p, "stop_nil", "idle")
         \/ FgStep(p, "prog_nodes", "prog_lazy") \/ FgStep(p, "prog_lazy", "idle") \/ FgStep(p, "en_read", "idle")
         \/ (IF ~CODE_Unlocked /\ pc[p] = "stop_read" /\ running /\ stopClosed THEN StopReadFixedSecond(p) ELSE StopRead(p))
         \/ StopClose(p) \/ StopWait(p) \/ StopRet(p)

Next == Bg \/ \E p \in Fgs : Fg(p)
Spec == Init /\ [][Next]_vars /\ WF_vars(Bg) /\ \A p \in Fgs : WF_vars(StopSteps(p))

-----------------------------------------------------------------------------
Conflict(p, q) == /\ p # q /\ Acc(p).var # "" /\ Acc(p).var = Acc(q).var
                  /\ (Acc(p).write \/ Acc(q).write)
                  /\ ~(Acc(p).locked /\ Acc(q).locked)
RacePairs == {<<Acc(p).site, Acc(q).site, Acc(p).var>> : <<p, q>> \in {<<a, b>> \in Procs \X Procs : Conflict(a, b)}}
NoRace == RacePairs = {}
NoPanic == ~panic
\* a Stop that was called returns: no foreground process stays in Stop forever
StopReturns == \A p \in Fgs : (pc[p] \in {"stop_ptr", "stop_read", "stop_close", "stop_wait"}) ~> (pc[p] = "idle")
\* once a Stop that waited for the goroutine has returned, the background goroutine has finished
NoLeak == stopsReturned > 0 => pc["bg"] = "done"
\* prints every racing pair the model reaches (deduplicated by the caller)
EmitRaces == RacePairs # {} => PrintT(<<"RACE", ToJson(RacePairs)>>)
=============================================================================

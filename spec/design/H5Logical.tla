------------------------------ MODULE H5Logical ------------------------------
(* Behaviour specification of the write API at the logical level: which calls    *)
(* exist, when each must succeed or be rejected, and what a successful call      *)
(* does to the abstract file (H5Model).  TLC explores it exhaustively within     *)
(* the bounds of a configuration, checks the design-level invariants below, and  *)
(* prints every behaviour (history variable `hist`) as one JSON line; the Go     *)
(* driver replays the lines against the real library and H5LogicalTrace judges   *)
(* what the code did.  One action per API call and outcome class.                *)
EXTENDS H5Model, TLC, Json

CONSTANTS Names,        \* path component alphabet
          MaxDepth,     \* longest path
          Shapes,       \* dataset shapes: [dt, dims, chunk, max, flt]
          DataClasses,  \* data classes for Write
          AttrNames, AttrVals,
          ResizeTo,     \* candidate new extents
          Ops,          \* enabled call kinds
          Depth,        \* longest history
          EmitLens,     \* history lengths that are emitted
          Sbs,          \* superblock versions
          MaxObjs,      \* bound on created objects
          Tag,          \* scenario tag carried into the trace
          SoftTargets,  \* candidate targets of soft links
          HardTargets,  \* candidate targets of hard links
          LinkCounts,   \* sizes of the link sets given to a group that is created with links
          SureCases,    \* mark the emitted cases: every call valid by the model must succeed
          OnlyLastMayFail \* prune histories in which a call that changed nothing is followed by more calls

VARIABLES hist,      \* sequence of calls made so far (the driver's input format)
          cfgv,      \* file-level configuration
          handles,   \* object ids with a live writer handle in the current session
          touched,   \* ids the last call was allowed to change (Frame)
          lastok     \* the last call changed the abstract state

mvars == <<objs, nid, created, fclosed>>
vars  == <<mvars, hist, cfgv, handles, touched, lastok>>

Paths == UNION {[1..k -> Names] : k \in 1..MaxDepth}

LInit == /\ objs = [i \in {Root} |-> Obj("group")] /\ nid = 1 /\ created = {} /\ fclosed = FALSE
         /\ hist = <<>> /\ handles = {Root} /\ touched = {} /\ lastok = TRUE
         /\ cfgv \in [sb : Sbs, rb : {""}, style : {0}, tag : {Tag}]

Log(r) == hist' = Append(hist, r @@ [sure |-> SureCases])
Can(op) == op \in Ops /\ Len(hist) < Depth /\ (OnlyLastMayFail => lastok)
NoChange == UNCHANGED mvars

-----------------------------------------------------------------------------
(* object creation: valid requests succeed, invalid ones are rejected unchanged *)
CreateOk(pc, o) ==
  /\ ~fclosed /\ CreateDefect(pc) = "" /\ nid <= MaxObjs
  /\ AddObj(pc, o)
  /\ handles' = handles \cup {nid}
  /\ touched' = {nid, ParentOf(pc)}
  /\ UNCHANGED fclosed
CreateRejected(pc) ==
  /\ fclosed \/ CreateDefect(pc) # ""
  /\ NoChange /\ UNCHANGED handles /\ touched' = {}

MkGroup(pc) == /\ Can("mkgroup") /\ Log([op |-> "mkgroup", pc |-> pc])
               /\ (CreateOk(pc, Obj("group")) \/ CreateRejected(pc))

MkDs(pc, s) == /\ Can("mkds")
               /\ Log([op |-> "mkds", pc |-> pc, dt |-> s.dt, dims |-> s.dims, chunk |-> s.chunk, max |-> s.max, flt |-> s.flt])
               /\ \/ CreateOk(pc, [Obj("dataset") EXCEPT !.dims = s.dims, !.max = s.max, !.chunk = s.chunk])
                  \/ CreateRejected(pc)

SLink(pc, tc) == /\ Can("slink") /\ Log([op |-> "slink", pc |-> pc, tc |-> tc])
                 /\ (CreateOk(pc, [Obj("soft") EXCEPT !.t = tc]) \/ CreateRejected(pc))
XLink(pc)     == /\ Can("xlink") /\ Log([op |-> "xlink", pc |-> pc, f |-> "other.h5", t |-> "/x"])
                 /\ (CreateOk(pc, Obj("ext")) \/ CreateRejected(pc))

HLink(pc, tc) ==
  /\ Can("hlink") /\ Log([op |-> "hlink", pc |-> pc, tc |-> tc])
  /\ IF ~fclosed /\ CreateDefect(pc) = "" /\ Resolve(tc) # -1
     THEN /\ AddLink(pc, Resolve(tc)) /\ touched' = {ParentOf(pc), Resolve(tc)}   \* target: reference count
          /\ UNCHANGED <<handles, fclosed>>
     ELSE NoChange /\ UNCHANGED handles /\ touched' = {}

\* a group created together with n hard links l1..ln, all to the object that tc names (CreateGroupWithLinks:
\* up to 8 links the group is a symbol table, above that it uses dense link storage).  All or nothing.
LinkNames == <<"l1", "l2", "l3", "l4", "l5", "l6", "l7", "l8", "l9", "l10", "l11", "l12">>
MkGroupL(pc, n, tc) ==
  /\ Can("mkgroupl") /\ Log([op |-> "mkgroupl", pc |-> pc, nlinks |-> n, tc |-> tc])
  /\ \/ /\ ~fclosed /\ CreateDefect(pc) = "" /\ nid <= MaxObjs /\ (n = 0 \/ Resolve(tc) # -1)
        /\ AddObjL(pc, [i \in {LinkNames[k] : k \in 1..n} |-> Resolve(tc)])
        /\ touched' = {nid, ParentOf(pc)} \cup (IF n = 0 THEN {} ELSE {Resolve(tc)})
        /\ UNCHANGED <<handles, fclosed>>
     \* rejected: invalid request - or 1..8 links, which the implementation may refuse as not supported (all or nothing either way)
     \/ /\ fclosed \/ CreateDefect(pc) # "" \/ (n > 0 /\ Resolve(tc) = -1) \/ n \in 1..8
        /\ NoChange /\ UNCHANGED handles /\ touched' = {}

-----------------------------------------------------------------------------
(* calls on an existing object through its handle *)
Live(pc, kinds) == LET id == Resolve(pc) IN id # -1 /\ id \in handles /\ objs[id].k \in kinds

Write(pc, dc) ==
  /\ Can("write") /\ Live(pc, {"dataset"})
  /\ Log([op |-> "write", pc |-> pc, data |-> dc])
  /\ LET id == Resolve(pc) IN
       IF fclosed THEN NoChange /\ touched' = {}
       ELSE /\ objs' = [objs EXCEPT ![id].written = TRUE] /\ touched' = {id}
            /\ UNCHANGED <<nid, created, fclosed>>
  /\ UNCHANGED handles

\* a write whose data cannot match the dataset: always rejected, nothing changes
BadWrite(pc, why) ==
  /\ Can("badwrite") /\ Live(pc, {"dataset"})
  /\ Log([op |-> "write", pc |-> pc, data |-> why])
  /\ NoChange /\ UNCHANGED handles /\ touched' = {}

Attr(pc, n, v) ==
  /\ Can("attr") /\ Live(pc, {"dataset", "group"}) /\ Resolve(pc) # Root
  /\ Log([op |-> "attr", pc |-> pc, n |-> n, v |-> v])
  /\ LET id == Resolve(pc) IN
       IF fclosed \/ v = "bad" THEN NoChange /\ touched' = {}
       ELSE /\ objs' = [objs EXCEPT ![id].attrs = FnPut(@, n, v)] /\ touched' = {id}
            /\ UNCHANGED <<nid, created, fclosed>>
  /\ UNCHANGED handles

DelAttr(pc, n) ==
  /\ Can("delattr") /\ Live(pc, {"dataset"})
  /\ Log([op |-> "delattr", pc |-> pc, n |-> n])
  /\ LET id == Resolve(pc) IN
       IF fclosed \/ n \notin DOMAIN objs[id].attrs THEN NoChange /\ touched' = {}
       ELSE /\ objs' = [objs EXCEPT ![id].attrs = FnDel(@, n)] /\ touched' = {id}
            /\ UNCHANGED <<nid, created, fclosed>>
  /\ UNCHANGED handles

Resize(pc, d) ==
  /\ Can("resize") /\ Live(pc, {"dataset"})
  /\ Log([op |-> "resize", pc |-> pc, dims |-> d])
  /\ LET id == Resolve(pc)  m == objs[id] IN
       IF ~fclosed /\ m.chunk # <<>> /\ m.max # <<>> /\ Len(d) = Len(m.dims) /\ WithinMax(d, m.max)
       THEN /\ objs' = [objs EXCEPT ![id].dims = d] /\ touched' = {id}
            /\ UNCHANGED <<nid, created, fclosed>>
       ELSE NoChange /\ touched' = {}
  /\ UNCHANGED handles

-----------------------------------------------------------------------------
(* file-level calls *)
FClose == /\ Can("fclose") /\ Log([op |-> "fclose"])
          /\ fclosed' = TRUE /\ UNCHANGED <<objs, nid, created, handles>> /\ touched' = {}

\* close (if needed) and reopen for modification: content unchanged, all handles gone
Session == /\ Can("session") /\ Log([op |-> "session"])
           /\ fclosed' = FALSE /\ handles' = {} /\ UNCHANGED <<objs, nid, created>> /\ touched' = {}

OpenDs(pc) == /\ Can("opends") /\ ~fclosed
              /\ Resolve(pc) # -1 /\ objs[Resolve(pc)].k = "dataset" /\ Resolve(pc) \notin handles
              /\ Log([op |-> "opends", pc |-> pc])
              /\ handles' = handles \cup {Resolve(pc)} /\ NoChange /\ touched' = {}

LStep ==
  \/ \E pc \in Paths : MkGroup(pc) \/ XLink(pc)
  \/ \E pc \in Paths, s \in Shapes : MkDs(pc, s)
  \/ \E pc \in Paths, tc \in HardTargets : HLink(pc, tc)
  \/ \E pc \in Paths, tc \in SoftTargets : SLink(pc, tc)
  \/ \E pc \in Paths, n \in LinkCounts, tc \in HardTargets : MkGroupL(pc, n, tc)
  \/ \E pc \in Paths, dc \in DataClasses : Write(pc, dc)
  \/ \E pc \in Paths, w \in {"short", "long", "wrongtype"} : BadWrite(pc, w)
  \/ \E pc \in Paths, n \in AttrNames, v \in AttrVals : Attr(pc, n, v)
  \/ \E pc \in Paths, n \in AttrNames : DelAttr(pc, n)
  \/ \E pc \in Paths, d \in ResizeTo : Resize(pc, d)
  \/ \E pc \in Paths : OpenDs(pc)
  \/ FClose \/ Session

LNext == /\ LStep /\ UNCHANGED cfgv
         /\ lastok' = (mvars' # mvars \/ handles' # handles)

LSpec == LInit /\ [][LNext]_vars

-----------------------------------------------------------------------------
(* design-level properties, checked by TLC on the behaviour specification itself *)
TypeOK ==
  /\ \A i \in DOMAIN objs : objs[i].k \in {"group", "dataset", "soft", "ext"}
  /\ nid \in Nat /\ fclosed \in BOOLEAN /\ handles \subseteq DOMAIN objs

\* links always lead to existing objects, every created path still resolves
WellFormed ==
  /\ \A i \in DOMAIN objs : \A n \in DOMAIN objs[i].links : objs[i].links[n] \in DOMAIN objs
  /\ \A pc \in created : Resolve(pc) # -1

\* only groups have members; the root is never re-linked
OnlyGroupsHaveLinks == \A i \in DOMAIN objs : objs[i].k # "group" => objs[i].links = EmptyFn

\* C04 at design level: a call changes only the objects it is aimed at
Frame == [][\A i \in DOMAIN objs : i \notin touched' => objs'[i] = objs[i]]_vars

\* C16 at design level: nothing changes once the writer is closed (until a new session)
ClosedIsFrozen == [][fclosed /\ fclosed' => UNCHANGED <<objs, nid, created>>]_vars

\* objects are never destroyed and ids never reused
Monotone == [][DOMAIN objs \subseteq DOMAIN objs' /\ created \subseteq created']_vars

Emit == Len(hist) \in EmitLens => PrintT(<<"CASE", ToJson([cfg |-> cfgv, ops |-> hist])>>)
=============================================================================

---------------------------- MODULE HeaderShapes ----------------------------
(* Object header shapes and what a reader owes for them (no variables, no      *)
(* constants: shared by the design specification HeaderChain and by the trace  *)
(* specification HdrChainTrace).  A shape is a sequence of blocks, a block a    *)
(* sequence of entries [k |-> "m" | "nil" | "cont", to |-> block].              *)
EXTENDS Integers, Sequences, FiniteSets

\* payload messages are numbered in file order of their blocks: block b, entry e -> id
MsgId(h, b, e) ==
  LET before(bb) == Cardinality({x \in 1..Len(h[bb]) : h[bb][x].k = "m"})
      RECURSIVE Sum(_)
      Sum(bb) == IF bb = 0 THEN 0 ELSE before(bb) + Sum(bb - 1)
  IN Sum(b - 1) + Cardinality({x \in 1..e : h[b][x].k = "m"})

ContsOf(h, b) == [i \in 1..Cardinality({x \in 1..Len(h[b]) : h[b][x].k = "cont"}) |->
                    LET idx == CHOOSE x \in 1..Len(h[b]) : h[b][x].k = "cont"
                                  /\ Cardinality({y \in 1..x : h[b][y].k = "cont"}) = i
                    IN h[b][idx].to]
MsgsOf(h, b) == [i \in 1..Cardinality({x \in 1..Len(h[b]) : h[b][x].k = "m"}) |->
                    LET idx == CHOOSE x \in 1..Len(h[b]) : h[b][x].k = "m"
                                  /\ Cardinality({y \in 1..x : h[b][y].k = "m"}) = i
                    IN MsgId(h, b, idx)]

Slots(h) == UNION {{<<b, e>> : e \in 1..Len(h[b])} : b \in 1..Len(h)}
Announcers(h, j) == {s \in Slots(h) : h[s[1]][s[2]].k = "cont" /\ h[s[1]][s[2]].to = j}
\* a tree rooted at block 1: every other block announced exactly once, block 1 never, and every block reachable
RECURSIVE ReachFrom(_, _, _)
ReachFrom(h, frontier, seen) ==
  IF frontier = {} THEN seen
  ELSE LET nxt == {h[s[1]][s[2]].to : s \in {s \in Slots(h) : s[1] \in frontier /\ h[s[1]][s[2]].k = "cont"}}
       IN ReachFrom(h, nxt \ seen, seen \cup nxt)
WellFormed(h) == /\ Announcers(h, 1) = {}
                 /\ \A j \in 2..Len(h) : Cardinality(Announcers(h, j)) = 1
                 /\ ReachFrom(h, {1}, {1}) = 1..Len(h)

\* the reference order: blocks first in, first out
RECURSIVE Load(_, _, _)
Load(h, queue, acc) ==
  IF queue = <<>> THEN acc
  ELSE LET b == Head(queue) IN Load(h, Tail(queue) \o ContsOf(h, b), acc \o MsgsOf(h, b))
Expected(h) == Load(h, <<1>>, <<>>)
TotalMsgs(h) == LET RECURSIVE S(_) S(b) == IF b = 0 THEN 0 ELSE Len(MsgsOf(h, b)) + S(b - 1) IN S(Len(h))

=============================================================================

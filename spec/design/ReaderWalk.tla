----------------------------- MODULE ReaderWalk -----------------------------
(* The reader as a walk over an arbitrary pointer graph.                        *)
(*                                                                             *)
(* A file presented to the reader is, structurally, a set of on-disk structures *)
(* (object header blocks, continuation blocks, group B-tree nodes, symbol table *)
(* nodes, chunk B-tree nodes, heap blocks) that point at each other by address. *)
(* In a well-formed file the pointers form a tree (plus hard links); in an      *)
(* arbitrary byte string - C07 quantifies over all of them - every pointer can  *)
(* lead anywhere, including to the structure that holds it.  The reader follows *)
(* pointers by recursion (children of groups, B-tree children, heap indirect    *)
(* blocks) or by a work list (continuation blocks).  It terminates on every     *)
(* input iff every pointer kind it follows is guarded: a visited set, or a      *)
(* depth bound that the structure itself supplies.                              *)
(*                                                                             *)
(* Graph: chosen arbitrarily by Init (all graphs over Nodes with at most MaxOut *)
(* pointers per node; pointer kinds in Kinds).  Walk: the reader's traversal    *)
(* with one guard switch per pointer kind.  Each sizes[n] is a size field that  *)
(* governs an allocation; CheckedSizes says whether the reader compares it with *)
(* what the file can hold before allocating.                                    *)
(*                                                                             *)
(* Properties:                                                                 *)
(*   Terminates   - steps never exceed the number of (node, kind) pairs: every   *)
(*                  structure is entered at most once per pointer kind           *)
(*   StackBounded - recursion depth never exceeds the number of nodes            *)
(*   AllocBounded - nothing larger than FileSize is ever allocated               *)
(* With all guards on (the design the property demands) TLC verifies all three   *)
(* over every graph; with the guards the code has (CODE_ configurations) it       *)
(* returns the shapes that defeat the reader: self-referential continuation,     *)
(* a group that contains itself through link messages, a chunk B-tree node that   *)
(* is its own child, an oversized heap.  The C07 check materialises exactly these  *)
(* shapes in real files (pointer-class mutations: every pointer-holding window     *)
(* redirected to every structure, itself included) and size-class mutations.       *)
EXTENDS Integers, Sequences, FiniteSets, TLC

CONSTANTS Nodes,          \* structure ids
          Kinds,          \* pointer kinds: "link", "stab", "cont", "gbt", "cbt", "fhib"
          MaxOut,         \* pointers per structure
          FileSize,       \* what the file can hold
          SizeVals,       \* candidate values of a size field
          Guarded,        \* pointer kinds the reader guards with a visited set
          CheckedSizes    \* TRUE: size fields are validated before allocation

VARIABLES ptrs,      \* node -> sequence of [k, to]
          sizes,     \* node -> size field governing an allocation when the node is loaded
          stack,     \* recursion: sequence of [n, i] (node, next pointer index)
          work,      \* work list (continuation blocks): sequence of nodes
          visited,   \* set of <<kind, node>> entered through a guarded pointer kind
          steps,     \* structures entered so far
          maxalloc,  \* largest allocation so far
          status     \* "walking" | "done" | "error"
vars == <<ptrs, sizes, stack, work, visited, steps, maxalloc, status>>

Root == CHOOSE n \in Nodes : \A m \in Nodes : n <= m
Ptr  == [k : Kinds, to : Nodes]
\* work-list kinds are followed by a loop, the others by recursion
Loop(k) == k = "cont"

Init == /\ ptrs \in [Nodes -> UNION {[1..j -> Ptr] : j \in 0..MaxOut}]
        /\ sizes \in [Nodes -> SizeVals]
        /\ stack = <<[n |-> Root, i |-> 1]>> /\ work = <<>> /\ visited = {}
        /\ steps = 1 /\ maxalloc = 0 /\ status = "walking"

\* loading a structure allocates what its size field says - unless the size is checked first
Load(n) == IF CheckedSizes /\ sizes[n] > FileSize THEN [ok |-> FALSE, alloc |-> 0]
           ELSE [ok |-> TRUE, alloc |-> sizes[n]]

Enter(n, rest) ==
  LET ld == Load(n) IN
  IF ~ld.ok THEN /\ status' = "error" /\ UNCHANGED <<stack, work, visited, steps, maxalloc>>
  ELSE /\ steps' = steps + 1
       /\ maxalloc' = IF ld.alloc > maxalloc THEN ld.alloc ELSE maxalloc
       /\ stack' = rest \o <<[n |-> n, i |-> 1]>>
       /\ UNCHANGED <<work, visited, status>>

Step ==
  /\ status = "walking"
  /\ IF stack = <<>> THEN
       IF work = <<>> THEN status' = "done" /\ UNCHANGED <<stack, work, visited, steps, maxalloc>>
       ELSE \* take the next continuation block from the work list
            LET n == Head(work) IN
            /\ work' = Tail(work)
            /\ LET ld == Load(n) IN
               IF ~ld.ok THEN status' = "error" /\ UNCHANGED <<stack, visited, steps, maxalloc>>
               ELSE /\ steps' = steps + 1
                    /\ maxalloc' = IF ld.alloc > maxalloc THEN ld.alloc ELSE maxalloc
                    /\ stack' = <<[n |-> n, i |-> 1]>> /\ UNCHANGED <<visited, status>>
     ELSE
       LET top == stack[Len(stack)]
           base == SubSeq(stack, 1, Len(stack) - 1) IN
       IF top.i > Len(ptrs[top.n]) THEN            \* structure done: return
         /\ stack' = base /\ UNCHANGED <<work, visited, steps, maxalloc, status>>
       ELSE
         LET p == ptrs[top.n][top.i]
             adv == base \o <<[n |-> top.n, i |-> top.i + 1]>> IN
         IF p.k \in Guarded /\ <<p.k, p.to>> \in visited THEN    \* seen before: skip
           /\ stack' = adv /\ UNCHANGED <<work, visited, steps, maxalloc, status>>
         ELSE
           /\ visited' = IF p.k \in Guarded THEN visited \cup {<<p.k, p.to>>} ELSE visited
           /\ IF Loop(p.k)
              THEN /\ work' = Append(work, p.to) /\ stack' = adv
                   /\ UNCHANGED <<steps, maxalloc, status>>
              ELSE /\ work' = work
                   /\ LET ld == Load(p.to) IN
                      IF ~ld.ok THEN status' = "error" /\ UNCHANGED <<stack, steps, maxalloc>>
                      ELSE /\ steps' = steps + 1
                           /\ maxalloc' = IF ld.alloc > maxalloc THEN ld.alloc ELSE maxalloc
                           /\ stack' = adv \o <<[n |-> p.to, i |-> 1]>>
                           /\ UNCHANGED status
  /\ UNCHANGED <<ptrs, sizes>>

Next == Step \/ (status # "walking" /\ UNCHANGED vars)
Spec == Init /\ [][Next]_vars /\ WF_vars(Step)

-----------------------------------------------------------------------------
Bound == 1 + Cardinality(Nodes) * Cardinality(Kinds)
Terminates   == steps <= Bound
StackBounded == Len(stack) <= Cardinality(Nodes) * Cardinality(Kinds) + 1
AllocBounded == maxalloc <= FileSize
Finishes     == <>(status # "walking")
\* exploration bound for the CODE_ configurations (the walk is infinite there)
Explored == steps <= Bound + 2 /\ Len(work) <= Bound + 2
=============================================================================

---------------------------- MODULE HeaderChain ----------------------------
(* Object header message chains (format specification IV.A.1: version 1 and 2     *)
(* object headers, continuation message IV.A.2.q).                                 *)
(*                                                                                 *)
(* An object header is a first block of messages plus any number of continuation   *)
(* blocks, each announced by a continuation message in a block read before it.     *)
(* The continuation messages of a well-formed header make the blocks a TREE        *)
(* rooted at the first block: a block may announce several further blocks, not     *)
(* just one (the reference library appends a continuation message to whichever     *)
(* block has room).  The reader must return the messages of ALL blocks - in the    *)
(* order in which the reference library loads them: block by block, in the order   *)
(* in which the continuation messages were met (first in, first out).              *)
(*                                                                                 *)
(* This module has (1) the value space of small header shapes, (2) the expected    *)
(* result, (3) the reader's traversal as a state machine whose guards can be       *)
(* switched to the deviations seen in code (CODE_ constants), so that TLC shows    *)
(* each deviation as a counterexample:                                             *)
(*   CODE_FirstBlockOnly   the version 2 reader that never follows continuations   *)
(*   CODE_LinearChain      a reader that follows only one continuation per block   *)
(*   CODE_NoVisitedGuard   a reader without the "each block once" guard            *)
(*                                                                                 *)
(* Shapes that are not trees (a block announced twice, by itself, by a later       *)
(* block; a block nobody announces) are part of the value space as well: on those  *)
(* the reader owes termination and an answer or an error, nothing else (C07).      *)
EXTENDS HeaderShapes

CONSTANTS MaxBlocks,           \* shapes have 1..MaxBlocks blocks
          MaxEntries,          \* 0..MaxEntries entries per block
          CODE_FirstBlockOnly, CODE_LinearChain, CODE_NoVisitedGuard

\* An entry is a payload message ("m"), a null message ("nil": the reference library leaves them where a message
\* was removed) or a continuation message naming the block it announces.
Entries(n) == {[k |-> "m"], [k |-> "nil"]} \cup {[k |-> "cont", to |-> j] : j \in 1..n}
Blocks(n) == UNION {[1..len -> Entries(n)] : len \in 0..MaxEntries}
Shapes == UNION {[1..n -> Blocks(n)] : n \in 1..MaxBlocks}

(* ------------------------------------------------------------------------ *)
(* the reader's traversal                                                    *)
VARIABLES shape, queue, visited, out, status      \* status: "run" | "done" | "refused"
vars == <<shape, queue, visited, out, status>>

Init == /\ shape \in Shapes
        /\ queue = <<1>> /\ visited = {} /\ out = <<>> /\ status = "run"

FollowedConts(b) ==
  IF CODE_FirstBlockOnly THEN <<>>
  ELSE IF CODE_LinearChain THEN (IF ContsOf(shape, b) = <<>> THEN <<>> ELSE <<ContsOf(shape, b)[Len(ContsOf(shape, b))]>>)
  ELSE ContsOf(shape, b)

ReadBlock ==
  /\ status = "run" /\ queue # <<>>
  /\ LET b == Head(queue) IN
       IF b \in visited /\ ~CODE_NoVisitedGuard
       THEN /\ status' = "refused" /\ UNCHANGED <<shape, queue, visited, out>>       \* a block announced twice: not a header
       ELSE /\ visited' = visited \cup {b}
            /\ out' = out \o MsgsOf(shape, b)
            /\ queue' = Tail(queue) \o FollowedConts(b)
            /\ UNCHANGED <<shape, status>>
Finish == /\ status = "run" /\ queue = <<>> /\ status' = "done" /\ UNCHANGED <<shape, queue, visited, out>>
Next == ReadBlock \/ Finish
Spec == Init /\ [][Next]_vars /\ WF_vars(Next)

TypeOK == status \in {"run", "done", "refused"} /\ visited \subseteq 1..Len(shape)
\* a finished read of a well-formed header returns every message, in the reference order, and is never refused
Complete == (status = "done" /\ WellFormed(shape)) => out = Expected(shape)
NeverRefusesWellFormed == WellFormed(shape) => status # "refused"
\* the work is bounded by the header itself (with the guard each block is read at most once)
Bounded == Len(out) <= TotalMsgs(shape) /\ Len(queue) <= Len(shape) * MaxEntries + 1
Terminates == <>(status \in {"done", "refused"})
=============================================================================

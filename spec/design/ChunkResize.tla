---------------------------- MODULE ChunkResize ----------------------------
(* What Resize owes to a chunked dataset of rank 1 (C13), at the level of the chunk index.                       *)
(*                                                                                                               *)
(* Storage: the dataspace extent n and an index chunk number -> the C stored values of that chunk (a chunk that   *)
(* is not in the index reads as zeros).  The abstract value is a vector of n values: Write replaces it, Resize    *)
(* truncates it or appends zeros.  The reader returns, for i < n, the stored value of chunk i div C at i mod C.   *)
(*                                                                                                               *)
(* Shrinking can be implemented in two ways:                                                                      *)
(*   prune     chunks that lie beyond the new extent leave the index, the part of the edge chunk beyond the new   *)
(*             extent is overwritten with zeros (what the reference library does: H5D__chunk_prune_by_extent)     *)
(*   CODE_NoPrune   only the dataspace message changes (the pinned code, finding C13-shrink-then-grow-            *)
(*             resurrects-data): a later Resize that grows again shows the old values instead of zeros           *)
(* TLC: with prune the storage refines the abstract vector on every history; with CODE_NoPrune it finds            *)
(* Write <<1,2,3>>, Resize 1, Resize 2 -> read <<1,2>>, owed <<1,0>>.                                              *)
EXTENDS Integers, Sequences, TLC

CONSTANTS MaxN,          \* largest extent (the maximum dimension)
          C,             \* chunk extent
          Vals,          \* values a Write may store (non-zero)
          CODE_NoPrune

VARIABLES n, index, abs, steps
vars == <<n, index, abs, steps>>

NChunks(m) == (m + C - 1) \div C
Zeros == [j \in 1..C |-> 0]

Init == /\ n \in 1..MaxN /\ index = [k \in {} |-> Zeros] /\ abs = [i \in 1..n |-> 0] /\ steps = 0

\* a whole-dataset Write: every chunk of the current extent is stored, the edge chunk padded with zeros
Write(v) ==
  /\ Len(v) = n
  /\ index' = [k \in 0..(NChunks(n) - 1) |-> [j \in 1..C |-> IF k * C + j <= n THEN v[k * C + j] ELSE 0]]
               @@ [k \in {x \in DOMAIN index : x >= NChunks(n)} |-> index[k]]
  /\ abs' = v /\ steps' = steps + 1 /\ UNCHANGED n

Resize(m) ==
  /\ m \in 1..MaxN /\ m # n
  /\ n' = m /\ steps' = steps + 1
  /\ abs' = [i \in 1..m |-> IF i <= n THEN abs[i] ELSE 0]
  /\ IF m > n \/ CODE_NoPrune
     THEN UNCHANGED index
     ELSE index' = [k \in {x \in DOMAIN index : x < NChunks(m)} |->
                      [j \in 1..C |-> IF k * C + j <= m THEN index[k][j] ELSE 0]]

Next == \/ \E v \in [1..n -> Vals] : Write(v)
        \/ \E m \in 1..MaxN : Resize(m)
Spec == Init /\ [][Next]_vars
Bounded == steps <= 4

\* what a full read returns
ReadBack == [i \in 1..n |-> LET k == (i - 1) \div C  j == ((i - 1) % C) + 1
                            IN IF k \in DOMAIN index THEN index[k][j] ELSE 0]
TypeOK == n \in 1..MaxN /\ Len(abs) = n
Faithful == ReadBack = abs
\* nothing is stored beyond the extent: no chunk beyond it in the index, zeros in the edge chunk beyond it
NothingBeyond == /\ \A k \in DOMAIN index : k < NChunks(n)
                 /\ \A k \in DOMAIN index : \A j \in 1..C : k * C + j > n => index[k][j] = 0
=============================================================================

----------------------------- MODULE FractalHeap -----------------------------
(* Design specification of the writable fractal heap                              *)
(* (internal/structures/fractalheap_write.go) with a single direct block: objects  *)
(* are appended at freeOff (bump allocation, an id is the object's offset and      *)
(* length), deleted space is counted as free but not reused, the block is written  *)
(* out as prefix + object area + checksum into BlockSize bytes.                    *)
(* The id handed out carries the offset in a field of fixed width (idoff).          *)
EXTENDS Naturals, Sequences, FiniteSets, TLC

CONSTANTS Blobs, NoBlob, LenOf,
          BlockSize, Prefix, Cksum,
          CODE_CapacityIgnoresPrefix,  \* the code checks freeOff + len <= BlockSize (no room left for prefix/checksum)
          OffMod                       \* an id stores the object's offset in a field of fixed width: off % OffMod.  The design
                                       \* needs OffMod > BlockSize; the pinned code had 2^16 whatever the block size
                                       \* (a 512 KiB block for dense groups): C15_code_offwidth.cfg, repaired in 09ac40f

VARIABLES objs,       \* set of [off, idoff, len, val, sq]  (sq: ghost, number of the insert that created the object)
          freeOff, nObjs, freeSpace, nIns,
          disk        \* image written out: the object area bytes that fit into the block, as a set of [off,len,val]

vars == <<objs, freeOff, nObjs, freeSpace, nIns, disk>>

Room     == BlockSize - Prefix - Cksum                 \* bytes of object area that a written block really holds
Capacity == IF CODE_CapacityIgnoresPrefix THEN BlockSize ELSE Room
Offs     == 0..BlockSize

Init == /\ objs = {} /\ freeOff = 0 /\ nObjs = 0 /\ freeSpace = Capacity /\ nIns = 0 /\ disk = NoBlob

Insert(b) ==
  /\ freeOff + LenOf[b] <= Capacity
  /\ objs' = objs \cup {[off |-> freeOff, idoff |-> freeOff % OffMod, len |-> LenOf[b], val |-> b, sq |-> nIns + 1]}
  /\ freeOff' = freeOff + LenOf[b] /\ nObjs' = nObjs + 1 /\ freeSpace' = freeSpace - LenOf[b]
  /\ nIns' = nIns + 1 /\ UNCHANGED disk
InsertNoFit(b) == /\ freeOff + LenOf[b] > Capacity /\ UNCHANGED vars

OverwriteSameSize(o, b) ==
  /\ o \in objs /\ LenOf[b] = o.len
  /\ objs' = (objs \ {o}) \cup {[o EXCEPT !.val = b]}
  /\ UNCHANGED <<freeOff, nObjs, freeSpace, nIns, disk>>
OverwriteWrongSize(o, b) == /\ o \in objs /\ LenOf[b] # o.len /\ UNCHANGED vars

Delete(o) ==
  /\ o \in objs
  /\ objs' = objs \ {o} /\ nObjs' = nObjs - 1 /\ freeSpace' = freeSpace + o.len
  /\ UNCHANGED <<freeOff, nIns, disk>>

\* only the first Room bytes of the object area survive in a block of BlockSize bytes
Survives(o) == o.off + o.len <= Room
WriteOut == /\ disk' = [objs |-> {o \in objs : Survives(o)}, lost |-> {o \in objs : ~Survives(o)},
                        freeOff |-> freeOff, nObjs |-> nObjs, freeSpace |-> freeSpace]
            /\ UNCHANGED <<objs, freeOff, nObjs, freeSpace, nIns>>
LoadBack == /\ disk # NoBlob
            /\ objs' = disk.objs \cup {[o EXCEPT !.val = NoBlob] : o \in disk.lost}    \* truncated objects read back as garbage
            /\ freeOff' = disk.freeOff /\ nObjs' = disk.nObjs /\ freeSpace' = disk.freeSpace
            /\ UNCHANGED <<disk, nIns>>

Next == \/ \E b \in Blobs : Insert(b) \/ InsertNoFit(b)
        \/ \E o \in objs, b \in Blobs : OverwriteSameSize(o, b) \/ OverwriteWrongSize(o, b)
        \/ \E o \in objs : Delete(o)
        \/ WriteOut \/ LoadBack
Spec == Init /\ [][Next]_vars

-----------------------------------------------------------------------------
StoreOf(S) == [i \in Offs |-> IF \E o \in S : o.off = i THEN (CHOOSE o \in S : o.off = i).val ELSE NoBlob]
absStore == StoreOf(objs)
absSnap  == IF disk = NoBlob THEN NoBlob ELSE StoreOf(disk.objs \cup disk.lost)
B == INSTANCE BlobStore WITH Ids <- Offs, store <- absStore, snap <- absSnap
Refines == B!Spec

IdsDistinct    == \A o1, o2 \in objs : o1.idoff = o2.idoff => o1 = o2
\* a get through the id reads at the offset the id carries: it must be the object's own
IdResolves     == \A o \in objs : o.idoff = o.off
RangesDisjoint == \A o1, o2 \in objs : o1 # o2 => (o1.off + o1.len <= o2.off \/ o2.off + o2.len <= o1.off)
Accounting     == /\ nObjs = Cardinality(objs)
                  /\ freeSpace + (LET RECURSIVE S(_) S(T) == IF T = {} THEN 0 ELSE LET o == CHOOSE o \in T : TRUE IN o.len + S(T \ {o}) IN S(objs)) = Capacity
NoByteLost     == \A o \in objs : o.off + o.len <= Room     \* every stored byte fits beside prefix and checksum
NothingGarbled == \A o \in objs : o.val # NoBlob
=============================================================================

------------------------------ MODULE BTreeV2 ------------------------------
(* Design specification of the writable B-tree v2 name index                    *)
(* (internal/structures/btreev2_write.go, _rebalance.go, _lazy.go,               *)
(* _incremental.go): one leaf of records [hash, heap id] kept ordered by hash,  *)
(* header counters, four deletion modes, write-out and load-back.  The record   *)
(* format has no name: the spec keeps the name in each record (field n) as a    *)
(* ghost so that refinement of KVIndex (keyed by NAME) can be stated.           *)
EXTENDS Naturals, Sequences, FiniteSets, TLC

CONSTANTS Keys, Vals, NoVal, Cap,
          Hash,                   \* [Keys -> Nat]
          Modes,                  \* deletion modes in use
          CODE_SearchByHashOnly,  \* lookups compare the hash only (what the code does)
          CODE_InsertPresentAdds  \* InsertRecord of a present name adds a second record (what the code does)

VARIABLES recs,      \* sequence of [h, n, v]
          numRoot, total,          \* header counters
          mode,      \* current deletion mode
          pending,   \* lazy mode: deletions since the last batch rebalance
          disk       \* last image written out: [recs, numRoot, total] or NoVal

vars == <<recs, numRoot, total, mode, pending, disk>>

ByName(k) == {i \in DOMAIN recs : recs[i].n = k}
ByHash(k) == {i \in DOMAIN recs : recs[i].h = Hash[k]}
MinOf(S)  == CHOOSE x \in S : \A y \in S : x <= y
Find(k)   == LET S == IF CODE_SearchByHashOnly THEN ByHash(k) ELSE ByName(k)
             IN IF S = {} THEN 0 ELSE MinOf(S)

\* insertRecordSorted: before the first record whose hash is >= the new one
InsertSorted(s, r) ==
  LET k == Cardinality({i \in DOMAIN s : s[i].h < r.h})
  IN SubSeq(s, 1, k) \o <<r>> \o SubSeq(s, k + 1, Len(s))
RemoveAt(s, i) == SubSeq(s, 1, i - 1) \o SubSeq(s, i + 1, Len(s))

Init == /\ recs = <<>> /\ numRoot = 0 /\ total = 0 /\ mode \in Modes /\ pending = 0 /\ disk = NoVal

InsertAbsent(k, v) ==
  /\ Find(k) = 0 /\ Len(recs) < Cap
  /\ recs' = InsertSorted(recs, [h |-> Hash[k], n |-> k, v |-> v])
  /\ numRoot' = numRoot + 1 /\ total' = total + 1
  /\ UNCHANGED <<mode, pending, disk>>

InsertFull(k, v) == /\ Len(recs) >= Cap /\ UNCHANGED vars

\* InsertRecord does not look the name up: intended design refuses, the code adds a duplicate
InsertPresent(k, v) ==
  /\ ByName(k) # {} /\ Len(recs) < Cap
  /\ IF CODE_InsertPresentAdds
     THEN /\ recs' = InsertSorted(recs, [h |-> Hash[k], n |-> k, v |-> v])
          /\ numRoot' = numRoot + 1 /\ total' = total + 1 /\ UNCHANGED <<mode, pending, disk>>
     ELSE UNCHANGED vars

UpdatePresent(k, v) ==
  /\ Find(k) # 0
  /\ recs' = [recs EXCEPT ![Find(k)].v = v, ![Find(k)].n = IF CODE_SearchByHashOnly THEN recs[Find(k)].n ELSE k]
  /\ UNCHANGED <<numRoot, total, mode, pending, disk>>
UpdateAbsent(k, v) == /\ Find(k) = 0 /\ UNCHANGED vars

DeletePresent(k) ==
  /\ Find(k) # 0
  /\ recs' = RemoveAt(recs, Find(k))
  /\ numRoot' = numRoot - 1 /\ total' = total - 1
  /\ pending' = IF mode \in {"lazy", "incremental"} THEN pending + 1 ELSE pending
  /\ UNCHANGED <<mode, disk>>
DeleteAbsent(k) == /\ Find(k) = 0 /\ UNCHANGED vars

\* batch / background rebalancing of a single-leaf tree changes no record
Rebalance == /\ pending' = 0 /\ UNCHANGED <<recs, numRoot, total, mode, disk>>

WriteOut == /\ disk' = [recs |-> recs, numRoot |-> numRoot, total |-> total]
            /\ UNCHANGED <<recs, numRoot, total, mode, pending>>
\* loading replaces the in-memory tree by the written image (ghost names survive: they are in the heap)
LoadBack == /\ disk # NoVal
            /\ recs' = disk.recs /\ numRoot' = disk.numRoot /\ total' = disk.total
            /\ pending' = 0 /\ UNCHANGED <<mode, disk>>

Next == \/ \E k \in Keys, v \in Vals : InsertAbsent(k, v) \/ InsertFull(k, v) \/ InsertPresent(k, v)
                                       \/ UpdatePresent(k, v) \/ UpdateAbsent(k, v)
        \/ \E k \in Keys : DeletePresent(k) \/ DeleteAbsent(k)
        \/ Rebalance \/ WriteOut \/ LoadBack
Spec == Init /\ [][Next]_vars

-----------------------------------------------------------------------------
MapOf(rs) == [k \in Keys |-> LET S == {i \in DOMAIN rs : rs[i].n = k}
                             IN IF S = {} THEN NoVal ELSE rs[MinOf(S)].v]
absKV == MapOf(recs)
absSnap == IF disk = NoVal THEN NoVal ELSE MapOf(disk.recs)
K == INSTANCE KVIndex WITH kv <- absKV, snap <- absSnap
Refines == K!Spec

Sorted       == \A i, j \in DOMAIN recs : i < j => recs[i].h <= recs[j].h
CountsOK     == numRoot = Len(recs) /\ total = Len(recs)
WithinCap    == Len(recs) <= Cap
NamesUnique  == \A i, j \in DOMAIN recs : recs[i].n = recs[j].n => i = j
HashOK       == \A i \in DOMAIN recs : recs[i].h = Hash[recs[i].n]
SearchSound  == \A k \in Keys : (Find(k) # 0) <=> (ByName(k) # {})      \* finds every present name and no absent one
RoundTrip    == [][LoadBack => recs' = disk.recs]_vars
=============================================================================

----------------------------- MODULE ChunkIndex -----------------------------
(* The chunk index (B-tree version 1, node type 1) as the writer builds it for a dataset of n chunks, and what a reader    *)
(* recovers from it (C01).  A node declares its number of entries in a field of fixed width: it can hold at most Cap       *)
(* entries (Cap + 1 = the modulus of the field; 65535 in the format).  The index is complete when the reader, following   *)
(* the declared counts from the root down, reaches every chunk exactly once.                                               *)
(*                                                                                                                         *)
(*   design            the chunks, in key order, are cut into leaves of at most Cap entries; the leaves are the entries of  *)
(*                     the level above, cut in the same way, until one node is left (the root)                              *)
(*   CODE_SingleLeaf   the pinned code: every chunk in one leaf, the count stored modulo Cap + 1 - TLC finds n = Cap + 1,  *)
(*                     a dataset whose index declares 0 entries (repaired in a2aecef)                                       *)
EXTENDS Integers, Sequences, FiniteSets

CONSTANTS MaxN, Cap, CODE_SingleLeaf

VARIABLE n
Init == n \in 1..MaxN
Next == UNCHANGED n
Spec == Init /\ [][Next]_n

Mod == Cap + 1
\* one level: the items 1..m cut into consecutive groups of at most Cap; group g holds items (g-1)*Cap+1 .. min(g*Cap, m)
NGroups(m) == (m + Cap - 1) \div Cap
GroupOf(m, g) == ((g - 1) * Cap + 1)..(IF g * Cap < m THEN g * Cap ELSE m)

\* the nodes of the index, level by level: Level(0) has the chunks as items; a node is [level, items, declared]
RECURSIVE LevelsFrom(_, _)
LevelsFrom(m, lv) ==
  IF CODE_SingleLeaf
  THEN {[level |-> 0, items |-> 1..m, declared |-> m % Mod, root |-> TRUE]}
  ELSE LET nodes == {[level |-> lv, items |-> GroupOf(m, g), declared |-> Cardinality(GroupOf(m, g)), root |-> NGroups(m) = 1] : g \in 1..NGroups(m)}
       IN IF NGroups(m) = 1 THEN nodes ELSE nodes \cup LevelsFrom(NGroups(m), lv + 1)
Index == LevelsFrom(n, 0)

\* what a reader sees of a node: its first `declared` items
Visible(nd) == {i \in nd.items : Cardinality({j \in nd.items : j <= i}) <= nd.declared}
\* the nodes a reader reaches at a level: the root, then the visible items of the reached nodes one level up are the nodes below
NodeAt(lv, k) == CHOOSE nd \in Index : nd.level = lv /\ ((k - 1) * Cap + 1) \in nd.items
Top == CHOOSE lv \in 0..MaxN : \E nd \in Index : nd.level = lv /\ nd.root
RECURSIVE Reached(_)
Reached(lv) == IF lv = Top THEN {nd \in Index : nd.level = lv}
               ELSE {NodeAt(lv, k) : k \in UNION {Visible(up) : up \in Reached(lv + 1)}}
ChunksRead == UNION {Visible(nd) : nd \in Reached(0)}

Complete == ChunksRead = 1..n                                   \* every chunk is found
FitsField == \A nd \in Index : Cardinality(nd.items) <= Cap       \* no node holds more than its count field can say
OneRoot == Cardinality({nd \in Index : nd.root}) = 1
=============================================================================

------------------------------ MODULE ChunkGeom ------------------------------
(* Chunk geometry of an N-dimensional dataset (pure operators).  dims and chunk  *)
(* are sequences of positive integers of equal length.  A chunk is named by its  *)
(* scaled coordinate; the chunk index key is the element offset of its first    *)
(* element; edge chunks are stored at full nominal size.                        *)
EXTENDS Integers, Sequences, FiniteSets

Ceil(a, b) == (a + b - 1) \div b
Rank(dims) == Len(dims)

Max(s) == CHOOSE m \in {s[i] : i \in DOMAIN s} : \A i \in DOMAIN s : s[i] <= m

\* all index vectors below a bound vector
Coords(dims) == {c \in [1..Len(dims) -> 0..(Max(dims))] : \A k \in 1..Len(dims) : c[k] < dims[k]}
NChunks(dims, chunk) == [k \in 1..Len(dims) |-> Ceil(dims[k], chunk[k])]
ChunkSet(dims, chunk) == Coords(NChunks(dims, chunk))          \* scaled coordinates
KeyOf(c, chunk) == [k \in 1..Len(chunk) |-> c[k] * chunk[k]]   \* element offset stored in the index
ChunkOf(coord, chunk) == [k \in 1..Len(chunk) |-> coord[k] \div chunk[k]]
PosInChunk(coord, chunk) == [k \in 1..Len(chunk) |-> coord[k] % chunk[k]]
InChunk(coord, c, chunk) == \A k \in 1..Len(chunk) : c[k] * chunk[k] <= coord[k] /\ coord[k] < (c[k] + 1) * chunk[k]

Prod(d) == LET RECURSIVE P(_) P(i) == IF i > Len(d) THEN 1 ELSE d[i] * P(i + 1) IN P(1)
NumChunks(dims, chunk) == Prod(NChunks(dims, chunk))

\* the laws the writer and the reader both rely on
TilesExactlyOnce(dims, chunk) ==
  \A x \in Coords(dims) : Cardinality({c \in ChunkSet(dims, chunk) : InChunk(x, c, chunk)}) = 1
ChunkOfIsTheTile(dims, chunk) ==
  \A x \in Coords(dims) : ChunkOf(x, chunk) \in ChunkSet(dims, chunk) /\ InChunk(x, ChunkOf(x, chunk), chunk)
KeysDistinct(dims, chunk) ==
  \A c1, c2 \in ChunkSet(dims, chunk) : KeyOf(c1, chunk) = KeyOf(c2, chunk) => c1 = c2
CountOK(dims, chunk) == Cardinality(ChunkSet(dims, chunk)) = NumChunks(dims, chunk)
\* every chunk holds at least one element of the dataset (no empty chunk is indexed)
NoEmptyChunk(dims, chunk) ==
  \A c \in ChunkSet(dims, chunk) : \E x \in Coords(dims) : InChunk(x, c, chunk)

GeomOK(dims, chunk) == /\ TilesExactlyOnce(dims, chunk) /\ ChunkOfIsTheTile(dims, chunk)
                       /\ KeysDistinct(dims, chunk) /\ CountOK(dims, chunk) /\ NoEmptyChunk(dims, chunk)
=============================================================================

------------------------------ MODULE GlobalHeap ------------------------------
(* Design specification of the global heap writer (global_heap_write.go): vlen    *)
(* elements are appended to the current collection (4 KiB minimum, header 16      *)
(* bytes, each object a 16-byte header plus its data padded to a multiple of 8);   *)
(* when an object does not fit, the current collection is flushed and a new one     *)
(* is allocated, large enough for the object; Close flushes the last one.           *)
(* Every element keeps a reference (collection, index).                            *)
EXTENDS Integers, Sequences, FiniteSets

CONSTANTS MinColl,     \* 4096
          Lens         \* element lengths in use

VARIABLES cur,        \* current collection: [size, free, objs (sequence of data lengths)] or NoColl
          flushed,    \* sequence of flushed collections
          refs,       \* per element: [coll, idx, len]; coll = number of the collection (1-based, in creation order)
          closed

vars == <<cur, flushed, refs, closed>>
NoColl == [size |-> 0, free |-> 0, objs |-> <<>>]
Align8(n) == ((n + 7) \div 8) * 8
ObjSize(n) == 16 + Align8(n)
CollNo == Len(flushed) + 1            \* number of the current collection

Init == cur = NoColl /\ flushed = <<>> /\ refs = <<>> /\ closed = FALSE

NewCollSize(n) == LET need == 16 + ObjSize(n) + 16 IN
                  IF need > MinColl THEN ((need + 4095) \div 4096) * 4096 ELSE MinColl

PutFits(n) ==
  /\ ~closed /\ cur # NoColl /\ cur.free >= ObjSize(n)
  /\ cur' = [cur EXCEPT !.free = @ - ObjSize(n), !.objs = Append(@, n)]
  /\ refs' = Append(refs, [coll |-> CollNo, idx |-> Len(cur.objs) + 1, len |-> n])
  /\ UNCHANGED <<flushed, closed>>

\* roll-over (or first use): flush what there is, open a collection sized for the object
PutRollOver(n) ==
  /\ ~closed /\ (cur = NoColl \/ cur.free < ObjSize(n))
  /\ flushed' = IF cur = NoColl THEN flushed ELSE Append(flushed, cur)
  /\ LET sz == NewCollSize(n) IN
       cur' = [size |-> sz, free |-> sz - 16 - ObjSize(n), objs |-> <<n>>]
  /\ refs' = Append(refs, [coll |-> Len(flushed') + 1, idx |-> 1, len |-> n])
  /\ UNCHANGED closed

Close == /\ ~closed /\ closed' = TRUE
         /\ flushed' = IF cur = NoColl THEN flushed ELSE Append(flushed, cur)
         /\ cur' = NoColl /\ UNCHANGED refs

Next == (\E n \in Lens : PutFits(n) \/ PutRollOver(n)) \/ Close
Spec == Init /\ [][Next]_vars

-----------------------------------------------------------------------------
AllColls == IF cur = NoColl THEN flushed ELSE Append(flushed, cur)
SumObjs(c) == LET RECURSIVE S(_) S(i) == IF i = 0 THEN 0 ELSE ObjSize(c.objs[i]) + S(i - 1) IN S(Len(c.objs))

\* collection accounting: header + objects + free = declared size, nothing negative, size a multiple of 4096
Accounting == \A i \in DOMAIN AllColls : LET c == AllColls[i] IN
                 /\ 16 + SumObjs(c) + c.free = c.size /\ c.free >= 0 /\ c.size % 4096 = 0 /\ c.size >= MinColl
\* every reference resolves to an object of the element's length
RefsResolve == \A k \in DOMAIN refs : LET r == refs[k] IN
                 /\ r.coll \in DOMAIN AllColls
                 /\ r.idx \in DOMAIN AllColls[r.coll].objs
                 /\ AllColls[r.coll].objs[r.idx] = r.len
\* after Close nothing is left unflushed: every element's collection is on disk
ClosedMeansFlushed == closed => cur = NoColl /\ \A k \in DOMAIN refs : refs[k].coll \in DOMAIN flushed
\* references are never rewritten
RefsStable == [][\A k \in DOMAIN refs : refs'[k] = refs[k]]_vars
=============================================================================

------------------------------ MODULE Selector ------------------------------
(* Design specification of rebalancing.ConfigSelector.SelectConfig: a raw         *)
(* decision (mode, confidence) proposed by the strategy passes three gates in      *)
(* order - confidence, allowed modes, stability - and only a decision that passes  *)
(* all of them updates the selector's memory (lastMode, lastTime).  Confidence is  *)
(* in hundredths, time in seconds.                                                *)
EXTENDS Integers, Sequences, FiniteSets, SelectorCore

CONSTANTS Modes,        \* {"none", "lazy", "incremental"}
          Allowed,      \* subset of Modes; {} = all allowed
          MinConf,      \* 0..100
          Period        \* stability period P

VARIABLES lastMode, lastTime,      \* lastTime = -1: no decision has passed the gates yet
          now,
          out                      \* the decision returned by the last call: [mode, conf, gate]

vars == <<lastMode, lastTime, now, out>>
IsAllowed(m) == Allowed = {} \/ m \in Allowed

Init == /\ lastMode = "none" /\ lastTime = -1 /\ now = 0
        /\ out = [mode |-> "none", conf |-> 0, gate |-> "init", raw |-> "none"]

Select(raw, conf, dt) ==
  LET d == Decide(Allowed, MinConf, Period, lastMode, lastTime, now + dt, raw, conf) IN
  /\ now' = now + dt
  /\ out' = [mode |-> d.mode, conf |-> conf, gate |-> d.gate, raw |-> raw]
  /\ lastMode' = d.lastMode /\ lastTime' = d.lastTime

\* the four clauses of C19b, on the spec itself
ModeAllowedOrNone == out.mode = "none" \/ IsAllowed(out.mode)
LowConfidenceIsNone == out.gate # "init" /\ out.conf < MinConf => out.mode = "none"
ConfidenceInRange == out.conf >= 0 /\ out.conf <= 100
\* among decisions that pass the confidence and allowed gates, the mode does not change within the period
Stable == [][(out'.gate \in {"passed", "stability"} /\ lastTime # -1 /\ now' - lastTime < Period) => out'.mode = lastMode]_vars
MemoryOnlyOnPass == [][(lastMode' # lastMode \/ lastTime' # lastTime) => out'.gate = "passed"]_vars
=============================================================================

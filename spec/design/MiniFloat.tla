------------------------------ MODULE MiniFloat ------------------------------
(* Reference semantics of the low-precision formats of C20 as exact integer      *)
(* arithmetic.  An FP8 code means what the library's DECODER says it means        *)
(* (sign, exponent field, mantissa field, bias; exponent all ones: mantissa all   *)
(* ones = infinity, anything else = NaN; exponent zero = subnormal).  Every       *)
(* finite value is M * 2^E with small integers, so its float32 bit pattern can    *)
(* be computed exactly, and the midpoint of two neighbours is again exactly a     *)
(* float32.  The rounding table derived here (value bits, midpoint bits, tie      *)
(* winner) is the oracle for the conversion float32 -> code: nearest, ties to     *)
(* even, overflow to infinity.  bfloat16 = upper half of a float32 with           *)
(* round-to-nearest-even on the lower half.                                       *)
EXTENDS Integers, Sequences, FiniteSets, TLC, Json

Pow2(n) == LET RECURSIVE P(_) P(k) == IF k = 0 THEN 1 ELSE 2 * P(k - 1) IN P(n)

E4M3 == [name |-> "e4m3", eb |-> 4, mb |-> 3, bias |-> 7]
E5M2 == [name |-> "e5m2", eb |-> 5, mb |-> 2, bias |-> 15]

MaxExpField(f) == Pow2(f.eb) - 1
ExpOf(f, c) == (c \div Pow2(f.mb)) % Pow2(f.eb)          \* c in 0..127: magnitude codes
ManOf(f, c) == c % Pow2(f.mb)
Kind(f, c)  == IF ExpOf(f, c) = MaxExpField(f)
               THEN (IF ManOf(f, c) = Pow2(f.mb) - 1 THEN "inf" ELSE "nan")
               ELSE "fin"
\* finite magnitude = MOf * 2^EOf
MOf(f, c) == IF ExpOf(f, c) = 0 THEN ManOf(f, c) ELSE Pow2(f.mb) + ManOf(f, c)
EOf(f, c) == (IF ExpOf(f, c) = 0 THEN 1 ELSE ExpOf(f, c)) - f.bias - f.mb

HiBit(m) == CHOOSE p \in 0..10 : Pow2(p) <= m /\ m < Pow2(p + 1)
\* bit pattern of the (normal) float32 m * 2^e, m >= 1
F32Bits(m, e) == LET p == HiBit(m) IN (e + p + 127) * Pow2(23) + (m - Pow2(p)) * Pow2(23 - p)

FiniteCodes(f) == {c \in 0..127 : Kind(f, c) = "fin"}
MaxFinite(f) == CHOOSE c \in FiniteCodes(f) : \A d \in FiniteCodes(f) : d <= c
InfCode(f) == CHOOSE c \in 0..127 : Kind(f, c) = "inf"
NaNCodes(f) == {c \in 0..127 : Kind(f, c) = "nan"}

BitsOf(f, c) == IF c = 0 THEN 0 ELSE F32Bits(MOf(f, c), EOf(f, c))
\* midpoint between code c and the next larger magnitude (c+1, or the would-be value above the largest finite one)
MidBits(f, c) ==
  LET m1 == MOf(f, c)  e1 == EOf(f, c)
      nextfin == c + 1 \in FiniteCodes(f)
      m2 == IF nextfin THEN MOf(f, c + 1) ELSE m1 + 1
      e2 == IF nextfin THEN EOf(f, c + 1) ELSE e1
      m2s == m2 * Pow2(e2 - e1)
  IN F32Bits(m1 + m2s, e1 - 1)
\* the winner of an exact tie: the neighbour whose code is even (infinity above the largest finite code)
TieWinner(f, c) == IF c % 2 = 0 THEN c ELSE IF c + 1 \in FiniteCodes(f) THEN c + 1 ELSE InfCode(f)

Row(f, c) == [code |-> c, bits |-> BitsOf(f, c), mid |-> MidBits(f, c), tie |-> TieWinner(f, c),
              up |-> IF c + 1 \in FiniteCodes(f) THEN c + 1 ELSE InfCode(f)]
Table(f) == [c \in 0..MaxFinite(f) |-> Row(f, c)]
\* evaluated once per format (TLC caches constant definitions without parameters)
TabE4M3 == Table(E4M3)
TabE5M2 == Table(E5M2)
TableOf(f) == IF f.name = "e4m3" THEN TabE4M3 ELSE TabE5M2

\* reference conversion of a non-negative, finite, non-NaN float32 bit pattern x to a magnitude code
RoundRef(f, x) ==
  LET T == TableOf(f)
      below == {c \in DOMAIN T : T[c].bits <= x}
      c == CHOOSE c \in below : \A d \in below : d <= c
  IN IF x < T[c].mid THEN c ELSE IF x > T[c].mid THEN T[c].up ELSE T[c].tie

\* laws of the reference itself (checked by TLC before it is used as an oracle)
DecodeMonotone(f) == \A c, d \in FiniteCodes(f) : c < d => TableOf(f)[c].bits < TableOf(f)[d].bits
MidBetween(f)     == \A c \in FiniteCodes(f) : TableOf(f)[c].bits < TableOf(f)[c].mid
                                               /\ (c + 1 \in FiniteCodes(f) => TableOf(f)[c].mid < TableOf(f)[c + 1].bits)
RoundTripRef(f)   == \A c \in FiniteCodes(f) : RoundRef(f, TableOf(f)[c].bits) = c
RoundMonotone(f)  == \A c \in FiniteCodes(f) :
                        LET r == TableOf(f)[c] IN
                        /\ RoundRef(f, r.mid - 1) = c
                        /\ RoundRef(f, r.mid + 1) = r.up
                        /\ RoundRef(f, r.mid) \in {c, r.up}
OneInfManyNaN(f)  == Cardinality({c \in 0..127 : Kind(f, c) = "inf"}) = 1

FormatLaws(f) == DecodeMonotone(f) /\ MidBetween(f) /\ RoundTripRef(f) /\ RoundMonotone(f) /\ OneInfManyNaN(f)

-----------------------------------------------------------------------------
(* bfloat16: hi = upper 16 bits (magnitude part 0..32767), lo = lower 16 bits *)
BFExp(hi) == (hi \div 128) % 256
BFMan(hi) == hi % 128
BFIsNaNIn(hi, lo) == BFExp(hi) = 255 /\ (BFMan(hi) # 0 \/ lo # 0)
BFIsNaNCode(hi)   == BFExp(hi) = 255 /\ BFMan(hi) # 0
\* expected magnitude code for a non-NaN input; NaN inputs must give some NaN code
BFRound(hi, lo) == IF lo > 32768 \/ (lo = 32768 /\ hi % 2 = 1) THEN hi + 1 ELSE hi
BFLaws == /\ \A hi \in 0..32767 : ~BFIsNaNIn(hi, 0) => BFRound(hi, 0) = hi                  \* codes are fixed points
          /\ \A hi \in 0..32639 : BFRound(hi, 32767) = hi /\ BFRound(hi, 32769) = hi + 1    \* nearest
          /\ \A hi \in 0..32639 : BFRound(hi, 32768) % 2 = 0                                \* ties to even
          /\ BFRound(32639, 32768) = 32640                                                  \* overflow to infinity (0x7F80)
=============================================================================

------------------------------ MODULE Hyperslab ------------------------------
(* Hyperslab selections over an N-dimensional dataset (pure operators, C09).     *)
(* A selection gives per dimension [start, count, stride, block]: count blocks   *)
(* of block consecutive indices, the k-th block starting at start + k*stride.    *)
(* The selected coordinates are the row-major product of the per-dimension index *)
(* lists; a partial read must return exactly the elements at those coordinates   *)
(* in that order.  With element value = linear index, the expected result is the *)
(* sequence of linear indices.                                                   *)
EXTENDS Integers, Sequences, FiniteSets

Prod(d) == LET RECURSIVE P(_) P(i) == IF i > Len(d) THEN 1 ELSE d[i] * P(i + 1) IN P(1)
StrideOf(dims, k) == LET RECURSIVE S(_) S(i) == IF i > Len(dims) THEN 1 ELSE dims[i] * S(i + 1) IN S(k + 1)

\* one dimension: s = [start, count, stride, block]
Valid1D(n, s) == /\ s.count >= 1 /\ s.stride >= 1 /\ s.block >= 1
                 /\ s.start + (s.count - 1) * s.stride + s.block <= n
\* blocks that overlap (block > stride with more than one block) select an index twice: not a selection
Proper1D(s) == s.count = 1 \/ s.block <= s.stride
Idx1D(s) == [j \in 1..(s.count * s.block) |-> s.start + ((j - 1) \div s.block) * s.stride + ((j - 1) % s.block)]

SelValid(dims, sel) == Len(sel) = Len(dims) /\ \A k \in 1..Len(dims) : Valid1D(dims[k], sel[k])
SelProper(sel) == \A k \in 1..Len(sel) : Proper1D(sel[k])

\* expected linear indices, row-major over the selection
Expected(dims, sel) ==
  LET RECURSIVE E(_, _)
      E(k, base) == IF k > Len(dims) THEN <<base>>
                    ELSE LET ix == Idx1D(sel[k])
                             RECURSIVE Cat(_)
                             Cat(j) == IF j > Len(ix) THEN <<>> ELSE E(k + 1, base + ix[j] * StrideOf(dims, k)) \o Cat(j + 1)
                         IN Cat(1)
  IN E(1, 0)

\* A dataset that was written with extents wdims (element value = its linear index at that time) and resized to dims
\* afterwards: an element inside both extents keeps its value, an element that Resize added is zero (C13); the full
\* read returns exactly that, and a partial read must agree with it (C09).  With wdims = dims the value is the index.
CoordOf(i, dims) == [k \in 1..Len(dims) |-> (i \div StrideOf(dims, k)) % dims[k]]
ValueAt(i, dims, wdims) ==
  LET c == CoordOf(i, dims)
      RECURSIVE L(_) L(k) == IF k > Len(dims) THEN 0 ELSE c[k] * StrideOf(wdims, k) + L(k + 1)
  IN IF \A k \in 1..Len(dims) : c[k] < wdims[k] THEN L(1) ELSE 0
ExpectedVals(dims, wdims, sel) == LET ix == Expected(dims, sel) IN [j \in DOMAIN ix |-> ValueAt(ix[j], dims, wdims)]

\* laws of the selection algebra (checked by TLC on the bounded parameter sets)
CountLaw(dims, sel) == SelValid(dims, sel) =>
                         Len(Expected(dims, sel)) = Prod([k \in 1..Len(sel) |-> sel[k].count * sel[k].block])
InBoundsLaw(dims, sel) == SelValid(dims, sel) => \A i \in DOMAIN Expected(dims, sel) :
                            Expected(dims, sel)[i] >= 0 /\ Expected(dims, sel)[i] < Prod(dims)
IncreasingLaw(dims, sel) == (SelValid(dims, sel) /\ SelProper(sel)) =>
                              \A i \in 1..(Len(Expected(dims, sel)) - 1) : Expected(dims, sel)[i] < Expected(dims, sel)[i + 1]
FullLaw(dims) == Expected(dims, [k \in 1..Len(dims) |-> [start |-> 0, count |-> dims[k], stride |-> 1, block |-> 1]])
                   = [i \in 1..Prod(dims) |-> i - 1]

\* Chunked storage: which chunks a partial read has to visit.  Chunks are named by their scaled coordinates (element
\* coordinate \div chunk extent, per dimension).  The chunks that hold at least one selected element are the
\* combinations of the chunks touched per dimension; their number is bounded by the number of selected elements,
\* whatever the strides are.  The pinned code visited every chunk of the selection's bounding box instead (first chunk
\* .. last chunk per dimension) and sized a slice by their number: BBoxBoundLaw is what that would need, and TLC
\* refutes it with a selection of two elements a large stride apart.
Touched1D(ch, s) == {Idx1D(s)[j] \div ch : j \in DOMAIN Idx1D(s)}
BBox1D(ch, s) == (s.start \div ch)..((s.start + (s.count - 1) * s.stride + s.block - 1) \div ch)
ChunkProduct(r, S(_)) == {c \in [1..r -> UNION {S(k) : k \in 1..r}] : \A k \in 1..r : c[k] \in S(k)}
TouchedChunks(chunk, sel) == ChunkProduct(Len(sel), LAMBDA k : Touched1D(chunk[k], sel[k]))
BBoxChunks(chunk, sel) == ChunkProduct(Len(sel), LAMBDA k : BBox1D(chunk[k], sel[k]))
ChunkOfIndex(i, dims, chunk) == [k \in 1..Len(dims) |-> CoordOf(i, dims)[k] \div chunk[k]]
\* every selected element lies in a touched chunk, and every touched chunk holds a selected element
TouchedCoverLaw(dims, chunk, sel) == SelValid(dims, sel) =>
  {ChunkOfIndex(Expected(dims, sel)[i], dims, chunk) : i \in DOMAIN Expected(dims, sel)} = TouchedChunks(chunk, sel)
TouchedBoundLaw(dims, chunk, sel) == SelValid(dims, sel) => Cardinality(TouchedChunks(chunk, sel)) <= Len(Expected(dims, sel))
TouchedInBBoxLaw(dims, chunk, sel) == SelValid(dims, sel) => TouchedChunks(chunk, sel) \subseteq BBoxChunks(chunk, sel)
BBoxBoundLaw(dims, chunk, sel) == SelValid(dims, sel) => Cardinality(BBoxChunks(chunk, sel)) <= Len(Expected(dims, sel))

\* which code path of dataset_read_hyperslab.go a selection takes (for the diagnosis only)
PathOf(dims, sel, chunked) ==
  IF chunked THEN "chunked"
  ELSE IF Len(dims) = 1 THEN "contig-1d"
  ELSE LET r == Len(dims) IN
       IF sel[r].stride = 1 /\ sel[r].block = 1 /\ sel[r].count = dims[r] THEN "contig-fast-nd"
       ELSE IF r = 2 THEN "contig-2d" ELSE "contig-bbox-nd"
=============================================================================

------------------------------ MODULE Interleave ------------------------------
(* C04: every interleaving of per-object programs.  Each live object has its    *)
(* own straight-line program of write-API calls (create, write, attributes      *)
(* crossing the compact/dense boundary, resize, hard link to it ...).  A step    *)
(* executes the next call of one object; TLC therefore enumerates every order    *)
(* in which the calls of different objects can be mixed, and the trace           *)
(* specification (H5LogicalTrace) checks after reopen that EVERY object shows    *)
(* exactly the effect of its own program: nothing an operation on X did may be   *)
(* visible on Y.                                                                *)
EXTENDS Integers, Sequences, FiniteSets, TLC, Json

CONSTANTS Programs,   \* function: object name -> sequence of op records (field pc filled in here)
          Sbs, Tag, EmitFinalOnly

VARIABLES at,     \* object name -> number of calls already made
          hist, cfgv

vars == <<at, hist, cfgv>>
Objs == DOMAIN Programs

Init == /\ at = [o \in Objs |-> 0] /\ hist = <<>>
        /\ cfgv \in [sb : Sbs, rb : {""}, style : {0}, tag : {Tag}]

Step(o) == /\ at[o] < Len(Programs[o])
           /\ at' = [at EXCEPT ![o] = @ + 1]
           /\ hist' = Append(hist, Programs[o][at[o] + 1])
           /\ UNCHANGED cfgv

Next == \E o \in Objs : Step(o)
Spec == Init /\ [][Next]_vars

Done == \A o \in Objs : at[o] = Len(Programs[o])

\* design-level facts about the interleaving space itself
ProgramOrder ==      \* the calls of one object appear in hist in program order
  \A o \in Objs : \A i \in 1..at[o] : \E k \in DOMAIN hist : hist[k] = Programs[o][i]
LengthOK == Len(hist) = LET RECURSIVE S(_) S(T) == IF T = {} THEN 0 ELSE LET x == CHOOSE x \in T : TRUE IN at[x] + S(T \ {x}) IN S(Objs)

Emit == (IF EmitFinalOnly THEN Done ELSE Len(hist) >= 1) =>
          PrintT(<<"CASE", ToJson([cfg |-> cfgv, ops |-> hist])>>)
=============================================================================

---------------------------- MODULE SmartLifecycle ----------------------------
(* Design specification of rebalancing.SmartRebalancer's lifecycle and of the      *)
(* shared ConfigSelector: Start launches the monitor goroutine (WaitGroup), Stop    *)
(* cancels its context and waits for it; Evaluate - called by the monitor loop and   *)
(* by foreground goroutines - runs ConfigSelector.SelectConfig, which reads and      *)
(* writes the selector's memory (lastMode, lastDecisionTime) without any lock        *)
(* (CODE_SelectorUnlocked), and updates the statistics under the RWMutex.            *)
EXTENDS Integers, FiniteSets, TLC, Json

CONSTANTS Fgs, MaxOps, MaxTicks, CODE_SelectorUnlocked

Procs == Fgs \cup {"mon"}
VARIABLES pc, nops, started, cancelled, wg, ticks, stopsReturned
vars == <<pc, nops, started, cancelled, wg, ticks, stopsReturned>>

NoAcc == [site |-> "", var |-> "", write |-> FALSE, locked |-> FALSE]
SL == ~CODE_SelectorUnlocked
Acc(p) == CASE pc[p] = "sel_read"  -> [site |-> "SelectConfig", var |-> "selector", write |-> FALSE, locked |-> SL]
            [] pc[p] = "sel_write" -> [site |-> "SelectConfig", var |-> "selector", write |-> TRUE, locked |-> SL]
            [] pc[p] = "stats"     -> [site |-> "Evaluate", var |-> "stats", write |-> TRUE, locked |-> TRUE]
            [] pc[p] = "getstats"  -> [site |-> "GetStats", var |-> "stats", write |-> FALSE, locked |-> TRUE]
            [] OTHER -> NoAcc

Init == /\ pc = [p \in Procs |-> IF p = "mon" THEN "off" ELSE "idle"]
        /\ nops = [p \in Fgs |-> 0] /\ started = FALSE /\ cancelled = FALSE /\ wg = 0 /\ ticks = 0 /\ stopsReturned = 0

Goto(p, l) == pc' = [pc EXCEPT ![p] = l]
\* monitor goroutine: launched by Start, loops until cancelled
\* (a WaitGroup releases its waiters at the instant the counter reaches zero)
Waiters == {p \in Fgs : pc[p] = "stop_wait"}
MonLoop == /\ pc["mon"] = "loop"
           /\ \/ /\ cancelled /\ wg' = wg - 1 /\ UNCHANGED ticks
                 /\ pc' = [p \in Procs |-> IF p = "mon" THEN "off" ELSE IF wg = 1 /\ p \in Waiters THEN "idle" ELSE pc[p]]
                 /\ stopsReturned' = stopsReturned + (IF wg = 1 THEN Cardinality(Waiters) ELSE 0)
              \/ /\ ~cancelled /\ ticks < MaxTicks /\ ticks' = ticks + 1 /\ Goto("mon", "sel_read") /\ UNCHANGED <<wg, stopsReturned>>
           /\ UNCHANGED <<nops, started, cancelled>>
Step(p, from, to) == /\ pc[p] = from /\ Goto(p, to) /\ UNCHANGED <<nops, started, cancelled, wg, ticks, stopsReturned>>
Mon == MonLoop \/ Step("mon", "sel_read", "sel_write") \/ Step("mon", "sel_write", "stats") \/ Step("mon", "stats", "loop")

Begin(p) ==
  /\ pc[p] = "idle" /\ nops[p] < MaxOps /\ nops' = [nops EXCEPT ![p] = @ + 1]
  /\ \/ /\ Goto(p, "sel_read") /\ UNCHANGED <<started, cancelled, wg, stopsReturned>>                      \* Evaluate
     \/ /\ Goto(p, "getstats") /\ UNCHANGED <<started, cancelled, wg, stopsReturned>>                       \* GetStats
     \/ /\ ~started /\ pc["mon"] = "off" /\ started' = TRUE /\ cancelled' = FALSE /\ wg' = wg + 1           \* Start (under the mutex)
        /\ pc' = [pc EXCEPT !["mon"] = "loop"] /\ UNCHANGED stopsReturned
     \/ /\ started /\ started' = FALSE /\ cancelled' = TRUE /\ Goto(p, "stop_wait")                          \* Stop: cancel under the mutex
        /\ UNCHANGED <<wg, stopsReturned>>
  /\ UNCHANGED ticks
FgEval(p) == Step(p, "sel_read", "sel_write") \/ Step(p, "sel_write", "stats") \/ Step(p, "stats", "idle") \/ Step(p, "getstats", "idle")
StopWait(p) == /\ pc[p] = "stop_wait" /\ wg = 0 /\ Goto(p, "idle") /\ stopsReturned' = stopsReturned + 1
               /\ UNCHANGED <<nops, started, cancelled, wg, ticks>>
Fg(p) == Begin(p) \/ FgEval(p) \/ StopWait(p)
Next == Mon \/ \E p \in Fgs : Fg(p)
Spec == Init /\ [][Next]_vars /\ WF_vars(Mon) /\ \A p \in Fgs : WF_vars(StopWait(p))

Conflict(p, q) == /\ p # q /\ Acc(p).var # "" /\ Acc(p).var = Acc(q).var /\ (Acc(p).write \/ Acc(q).write)
                  /\ ~(Acc(p).locked /\ Acc(q).locked)
RacePairs == {<<Acc(p).site, Acc(q).site, Acc(p).var>> : <<p, q>> \in {<<a, b>> \in Procs \X Procs : Conflict(a, b)}}
NoRace == RacePairs = {}
StopReturns == \A p \in Fgs : (pc[p] = "stop_wait") ~> (pc[p] = "idle")
\* when a Stop has returned and nothing was started since, the monitor goroutine is gone
NoLeak == (~started /\ \A p \in Fgs : pc[p] # "stop_wait") => (wg = 0 /\ pc["mon"] = "off")
StartStopMatched == wg \in {0, 1}
EmitRaces == RacePairs # {} => PrintT(<<"RACE", ToJson(RacePairs)>>)
=============================================================================

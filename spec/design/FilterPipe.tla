------------------------------ MODULE FilterPipe ------------------------------
(* Filter pipelines as term rewriting (C08).  A pipeline is a sequence of         *)
(* distinct filters; encoding a payload wraps it with each filter in order,        *)
(* decoding unwraps from the outside in.  A Fletcher-32 wrapper carries the         *)
(* checksum of what it wraps: if anything below it is altered, unwrapping it must   *)
(* fail.  The laws: Decode(Encode(p)) = p for every pipeline; a corrupted           *)
(* Fletcher-protected term decodes to Err; a corrupted unprotected term decodes to  *)
(* something (no guarantee).                                                        *)
EXTENDS Integers, Sequences, FiniteSets

CONSTANTS Kinds      \* filter kinds, e.g. {"deflate", "shuffle", "fletcher32", "lzf"}

\* all sequences of distinct kinds (ordered subsets), the empty one included
Pipelines == UNION {{s \in [1..n -> Kinds] : \A i, j \in 1..n : i # j => s[i] # s[j]} : n \in 0..Cardinality(Kinds)}

\* a term: [layers |-> sequence of kinds applied so far (innermost first), dirty |-> index of the outermost layer below which bytes were altered, 0 if none]
Encode(p) == [layers |-> p, dirty |-> 0]
\* corrupting the stored bytes alters everything under all layers
Corrupt(t) == [t EXCEPT !.dirty = Len(t.layers) + 1]
\* unwrap the outermost layer; a fletcher32 layer above altered bytes reports an error
Err == [layers |-> <<>>, dirty |-> -1]
IsErr(t) == t.dirty = -1
Unwrap(t) == IF IsErr(t) THEN Err
             ELSE LET n == Len(t.layers) IN
                  IF t.layers[n] = "fletcher32" /\ t.dirty > 0 THEN Err
                  ELSE [layers |-> SubSeq(t.layers, 1, n - 1), dirty |-> t.dirty]
Decode(t) == LET RECURSIVE D(_) D(x) == IF IsErr(x) THEN Err ELSE IF Len(x.layers) = 0 THEN x ELSE D(Unwrap(x)) IN D(t)

Lossless == \A p \in Pipelines : Decode(Encode(p)) = [layers |-> <<>>, dirty |-> 0]
DetectsCorruption == \A p \in Pipelines : (\E i \in DOMAIN p : p[i] = "fletcher32") => IsErr(Decode(Corrupt(Encode(p))))
HasFletcher(p) == \E i \in DOMAIN p : p[i] = "fletcher32"
=============================================================================

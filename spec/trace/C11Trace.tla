------------------------------ MODULE C11Trace ------------------------------
(* Trace specification for C11: for every value of Codec.tla the driver reports   *)
(* what the library's encoder and decoder did; the round-trip law is evaluated     *)
(* here, field by field, against Exp(v) computed by the specification from the     *)
(* value that went in (the driver does not know what is expected).                 *)
EXTENDS TraceCommon, Codec, SequencesExt

VARIABLES l, bad, stats
tvars == <<l, bad, stats>>
TInit == l = 1 /\ bad = 0 /\ stats = [cases |-> 0, roundtrips |-> 0, refused |-> 0, fields |-> 0]

\* fields of the expectation that the decoded record lacks or has different
Mismatch(exp, d) == {f \in DOMAIN exp : ~Has(d, f) \/ d[f] # exp[f]}

\* object header messages: type exact, data intact, stored length in the allowed set
OhdrItems(v, d) ==
  IF ~Has(d, "msgs") \/ Len(d.msgs) # Len(v.msgs) THEN <<[diag |-> "field-mismatch", kind |-> "ohdr", field |-> "msgs", ver |-> v.ver, got |-> d, want |-> Len(v.msgs)]>>
  ELSE LET wrong == {i \in DOMAIN v.msgs : d.msgs[i].t # v.msgs[i].t \/ ~d.msgs[i].ok \/ d.msgs[i].len \notin ExpMsgLens(v, i)}
       IN IF wrong = {} THEN <<>>
          ELSE <<[diag |-> "field-mismatch", kind |-> "ohdr", field |-> "msgs", ver |-> v.ver, at |-> CHOOSE i \in wrong : TRUE, got |-> d.msgs, want |-> v.msgs]>>

\* the group reader's own link decoder must agree on what it extracts
SecondItems(v, d) ==
  IF ~Has(d, "second") THEN <<>>
  ELSE LET s == d.second IN
       IF s.res # "ok" THEN <<[diag |-> IF s.res = "panic" THEN "panic" ELSE "decode-error", kind |-> "link", decoder |-> "structures", type |-> v.target.t, msg |-> s.msg]>>
       ELSE LET e == ExpLink(v)
                bads == {f \in {"type", "name_ok", "co", "cs"} : s[f] # e[f]}
                        \cup (IF v.target.t = 0 /\ s.addr # e.addr THEN {"addr"} ELSE {})
                        \cup (IF v.target.t = 1 /\ s.path # e.path THEN {"path"} ELSE {})
                BB == SetToSeq(bads)
            IN [i \in 1..Len(BB) |-> [diag |-> "field-mismatch", kind |-> "link", decoder |-> "structures", type |-> v.target.t,
                                        field |-> BB[i], got |-> s[BB[i]], want |-> e[BB[i]]]]

Items(e) ==
  LET v == e.v IN
  IF e.enc = "panic" THEN <<[diag |-> "panic", kind |-> e.kind, side |-> "encode", msg |-> e.msg]>>
  ELSE IF e.enc # "ok" THEN
       (IF e.must THEN <<[diag |-> "encoder-refused-wellformed", kind |-> e.kind, msg |-> e.msg]>> ELSE <<>>)
  ELSE
    (IF e.refuse THEN <<[diag |-> "encoder-accepted-unrepresentable", kind |-> e.kind, v |-> v]>> ELSE <<>>)
    \o (IF ~e.det THEN <<[diag |-> "nondeterministic", kind |-> e.kind]>> ELSE <<>>)
    \o (IF e.dec = "panic" THEN <<[diag |-> "panic", kind |-> e.kind, side |-> "decode", msg |-> e.msg]>>
        ELSE IF e.dec # "ok" THEN (IF e.refuse THEN <<>> ELSE <<[diag |-> "decode-error", kind |-> e.kind, msg |-> e.msg, v |-> v]>>)
        ELSE IF e.refuse THEN <<>>          \* already reported above; what the decoder makes of it is irrelevant
        ELSE LET exp == Exp(v)
                 mm  == Mismatch(exp, e.d)
                 MM  == SetToSeq(mm)
             IN [i \in 1..Len(MM) |-> [diag |-> "field-mismatch", kind |-> e.kind, field |-> MM[i],
                                        got |-> IF Has(e.d, MM[i]) THEN e.d[MM[i]] ELSE "absent", want |-> exp[MM[i]], v |-> v]]
                \o (IF e.kind = "ohdr" THEN OhdrItems(v, e.d) ELSE <<>>)
                \o (IF e.kind = "link" THEN SecondItems(v, e.d) ELSE <<>>))

Step(e) ==
  IF e.op # "codec" THEN UNCHANGED <<bad, stats>>
  ELSE LET items == Items(e) IN
       IF items # <<>>
       THEN /\ PrintT(<<"BAD", ToJson([case |-> e.case, at |-> l, items |-> items])>>)
            /\ bad' = bad + 1 /\ UNCHANGED stats
       ELSE /\ stats' = IF e.enc = "ok"
                        THEN [stats EXCEPT !.roundtrips = @ + 1, !.fields = @ + Cardinality(DOMAIN Exp(e.v))]
                        ELSE [stats EXCEPT !.refused = @ + 1]
            /\ UNCHANGED bad

Consume ==
  /\ l <= Len(Trace) /\ l' = l + 1
  /\ LET e == Trace[l] IN
       IF e.op = "reset" THEN /\ bad' = bad /\ stats' = [stats EXCEPT !.cases = @ + 1]
       ELSE Step(e)
TSpec == TInit /\ [][Consume]_tvars
Verdict == l = Len(Trace) + 1 =>
             PrintT(<<"VERDICT", ToJson([bad |-> bad, stats |-> stats, events |-> Len(Trace)])>>)
=============================================================================

------------------------------ MODULE C06Trace ------------------------------
(* Trace specification for C06 (ReaderObs): what the reader returned for the files  *)
(* of the reference corpus, object by object, against what the reference            *)
(* implementation's h5dump reports state.  One event per file ("file"), per object   *)
(* the reports describe ("obj") and per attribute ("attr"); both sides are already   *)
(* canonical (tokens formatted the way h5dump formats them).  The laws:              *)
(*                                                                                  *)
(*   Answered   - whatever the reader returns without error equals the report:       *)
(*                kind, element type (class, size, sign, byte order), shape, values   *)
(*   NoSilentLoss - every member and attribute the report lists is returned by the   *)
(*                reader, unless the reader reported an error on the way to it         *)
(*                (open failed, the group or attribute list failed)                    *)
(*   Errors are always acceptable: an unsupported feature must surface as one.        *)
EXTENDS TraceCommon, Integers, SequencesExt

VARIABLES l, bad, stats, fileok
tvars == <<l, bad, stats, fileok>>
Init == l = 1 /\ bad = 0 /\ fileok = FALSE
        /\ stats = [files |-> 0, opened |-> 0, objects |-> 0, attrs |-> 0, values |-> 0, elements |-> 0, errors |-> 0]

\* descriptor fields compare only where both sides know them ("?" = not stated / not exposed)
Differs(a, b) == a # "?" /\ b # "?" /\ a # b
TypeItems(e, what) ==
  LET fs == SetToSeq({f \in {"cls", "size", "sign", "order"} : Differs(e.texp[f], e.tgot[f])})
  IN [i \in 1..Len(fs) |-> [diag |-> "type-mismatch", what |-> what, field |-> fs[i], want |-> e.texp[fs[i]], got |-> e.tgot[fs[i]],
                             cls |-> e.texp.cls, size |-> e.texp.size, order |-> e.texp.order, sign |-> e.texp.sign]]

ValueItems(e, what) ==
  IF e.vres # "ok" THEN <<>>                                  \* error (or not comparable): nothing was answered
  ELSE IF Len(e.vexp) # Len(e.vgot) \/ e.nexp # e.ngot
       THEN <<[diag |-> "value-count-mismatch", what |-> what, want |-> e.nexp, got |-> e.ngot, api |-> e.api,
               cls |-> e.texp.cls, size |-> e.texp.size, order |-> e.texp.order, sign |-> e.texp.sign]>>
  ELSE IF e.vexp = e.vgot /\ e.dexp = e.dgot THEN <<>>
  ELSE LET ds == {i \in DOMAIN e.vexp : e.vexp[i] # e.vgot[i]}
           at == IF ds = {} THEN e.firstdiff ELSE CHOOSE i \in ds : \A j \in ds : i <= j
       IN <<[diag |-> "value-mismatch", what |-> what, api |-> e.api, at |-> at, how |-> e.mkind,
             want |-> IF ds = {} THEN e.wantat ELSE e.vexp[at], got |-> IF ds = {} THEN e.gotat ELSE e.vgot[at],
             cls |-> e.texp.cls, size |-> e.texp.size, order |-> e.texp.order, sign |-> e.texp.sign, layout |-> e.layout]>>

ObjItems(e) ==
  IF ~fileok THEN <<>>                                        \* the reader refused the file: an error, acceptable
  ELSE IF e.kgot = "absent"
       THEN (IF e.parent_err THEN <<>>
             ELSE <<[diag |-> "silently-missing-member", kind |-> e.kexp, link |-> e.link]>>)
  ELSE (IF e.kexp \in {"group", "dataset"} /\ e.kgot # e.kexp
        THEN <<[diag |-> "wrong-kind", want |-> e.kexp, got |-> e.kgot]>> ELSE <<>>)
       \o (IF e.kexp = "dataset" /\ e.kgot = "dataset" /\ e.info = "ok"
           THEN TypeItems(e, "dataset")
                \o (IF e.dimsexp # <<"?">> /\ e.dimsexp # e.dimsgot
                    THEN <<[diag |-> "shape-mismatch", what |-> "dataset", want |-> e.dimsexp, got |-> e.dimsgot]>> ELSE <<>>)
                \o ValueItems(e, "dataset")
           ELSE <<>>)

AttrItems(e) ==
  IF ~fileok \/ e.owner_absent THEN <<>>
  ELSE IF e.list_err THEN <<>>                                \* the attribute list was refused: an error
  ELSE IF e.absent THEN <<[diag |-> "silently-missing-attribute", cls |-> e.texp.cls, storage |-> e.storage]>>
  ELSE TypeItems(e, "attribute")
       \o (IF e.dimsexp # <<"?">> /\ e.dimsexp # e.dimsgot
           THEN <<[diag |-> "shape-mismatch", what |-> "attribute", want |-> e.dimsexp, got |-> e.dimsgot]>> ELSE <<>>)
       \o ValueItems(e, "attribute")

Judge(e, items) ==
  IF items # <<>>
  THEN /\ PrintT(<<"BAD", ToJson([case |-> e.case, at |-> l, file |-> e.file, path |-> e.path, items |-> items])>>)
       /\ bad' = bad + 1
  ELSE bad' = bad

Consume ==
  /\ l <= Len(Trace) /\ l' = l + 1
  /\ LET e == Trace[l] IN
       CASE e.op = "reset" -> UNCHANGED <<bad, stats, fileok>>
         [] e.op = "file" -> /\ fileok' = (e.open = "ok") /\ bad' = bad
                             /\ stats' = [stats EXCEPT !.files = @ + 1, !.opened = @ + (IF e.open = "ok" THEN 1 ELSE 0)]
         [] e.op = "obj"  -> /\ Judge(e, ObjItems(e)) /\ UNCHANGED fileok
                             /\ stats' = [stats EXCEPT !.objects = @ + 1,
                                            !.values = @ + (IF fileok /\ e.vres = "ok" THEN 1 ELSE 0),
                                            !.elements = @ + (IF fileok /\ e.vres = "ok" THEN e.nexp ELSE 0),
                                            !.errors = @ + (IF e.vres = "err" THEN 1 ELSE 0)]
         [] e.op = "attr" -> /\ Judge(e, AttrItems(e)) /\ UNCHANGED fileok
                             /\ stats' = [stats EXCEPT !.attrs = @ + 1,
                                            !.values = @ + (IF fileok /\ e.vres = "ok" THEN 1 ELSE 0),
                                            !.elements = @ + (IF fileok /\ e.vres = "ok" THEN e.nexp ELSE 0),
                                            !.errors = @ + (IF e.vres = "err" THEN 1 ELSE 0)]
         [] OTHER -> UNCHANGED <<bad, stats, fileok>>
Spec == Init /\ [][Consume]_tvars
Verdict == l = Len(Trace) + 1 =>
             PrintT(<<"VERDICT", ToJson([bad |-> bad, stats |-> stats, events |-> Len(Trace)])>>)
=============================================================================

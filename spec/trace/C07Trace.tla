------------------------------ MODULE C07Trace ------------------------------
(* Trace specification for C07.  The driver reports, per base file and mutation  *)
(* class, buckets of inputs by what the isolated reader process did with them:   *)
(* outcome (ok, err, panic, fatal = the process died, hang = no answer within    *)
(* the limit, excess-alloc), the library frame responsible, the largest wall     *)
(* time and the largest number of bytes allocated.  FaultOutcome is the law of   *)
(* the property: every input is answered with a value or an error, in bounded    *)
(* time, with memory proportional to the size of the file.                       *)
EXTENDS TraceCommon, Integers

CONSTANTS TimeBoundUs,   \* wall time allowed for one input
          AllocBase,     \* bytes every input may cost
          AllocPer       \* plus this many bytes per byte of file

VARIABLES l, bad, stats, cur
tvars == <<l, bad, stats, cur>>
Init == l = 1 /\ bad = 0 /\ cur = EmptyFn
        /\ stats = [bases |-> 0, inputs |-> 0, answered |-> 0, buckets |-> 0]

Cap == 2147483647
AllocBound(size) == IF size > (Cap - AllocBase) \div AllocPer THEN Cap ELSE AllocBase + AllocPer * size

FaultOutcome(e) == /\ e.outcome \in {"ok", "err"}
                   /\ e.maxus <= TimeBoundUs
                   /\ e.maxalloc <= AllocBound(e.size)

Diag(e) == IF e.outcome \notin {"ok", "err"} THEN e.outcome
           ELSE IF e.maxus > TimeBoundUs THEN "slow" ELSE "excess-alloc"

Step(e) ==
  IF e.op # "robust" THEN UNCHANGED <<bad, stats>>
  ELSE IF FaultOutcome(e)
       THEN /\ stats' = [stats EXCEPT !.inputs = @ + e.count, !.answered = @ + e.count, !.buckets = @ + 1]
            /\ UNCHANGED bad
       ELSE /\ PrintT(<<"BAD", ToJson([case |-> e.case, at |-> l,
                         items |-> <<[diag |-> Diag(e), site |-> e.site, why |-> e.msg, class |-> e.class, base |-> e.base,
                                      count |-> e.count, maxus |-> e.maxus, maxalloc |-> e.maxalloc, ex |-> e.ex]>>])>>)
            /\ bad' = bad + 1
            /\ stats' = [stats EXCEPT !.inputs = @ + e.count, !.buckets = @ + 1]

Consume ==
  /\ l <= Len(Trace) /\ l' = l + 1
  /\ LET e == Trace[l] IN
       IF e.op = "reset" THEN /\ cur' = e /\ bad' = bad /\ stats' = [stats EXCEPT !.bases = @ + 1]
       ELSE Step(e) /\ UNCHANGED cur
Spec == Init /\ [][Consume]_tvars
Verdict == l = Len(Trace) + 1 =>
             PrintT(<<"VERDICT", ToJson([bad |-> bad, stats |-> stats, events |-> Len(Trace)])>>)
=============================================================================

----------------------------- MODULE AttrJudge -----------------------------
(* Shared judgement of attribute observations against an AttrMap-style model   *)
(* (function from present names to value descriptors).  Used by C02Trace and   *)
(* H5LogicalTrace.  Returns the sequence of ALL failing items, <<>> = accepted. *)
EXTENDS Naturals, Sequences, FiniteSets

NoRec == [none |-> TRUE]

ValDiag(exp, got) ==
  IF got.cls # exp.cls \/ got.size # exp.size \/ got.sign # exp.sign THEN "type-mismatch"
  ELSE IF got.dims # exp.dims THEN "shape-mismatch"
  ELSE IF got.data # exp.data THEN "bytes-mismatch"
  ELSE IF got.rv = "panic" THEN "readvalue-panic"
  ELSE IF got.rv # "err" /\ got.rv # exp.rv THEN "readvalue-mismatch"
  ELSE "ok"

SetToSeq(S, F(_)) ==
  LET RECURSIVE Go(_)
      Go(T) == IF T = {} THEN <<>> ELSE LET x == CHOOSE x \in T : TRUE IN <<F(x)>> \o Go(T \ {x})
  IN Go(S)

\* amap: model map; list: observed sequence of [n, val]; Coll(n): does n's hash collide in this case
AttrItems(amap, list, Coll(_), where) ==
  LET names   == {list[i].n : i \in DOMAIN list}
      dup     == {i \in DOMAIN list : \E j \in DOMAIN list : j < i /\ list[j].n = list[i].n}
      missing == {n \in DOMAIN amap : n \notin names}
      extra   == {i \in DOMAIN list : list[i].n \notin DOMAIN amap}
      wrong   == {i \in DOMAIN list : list[i].n \in DOMAIN amap /\ ValDiag(amap[list[i].n], list[i].val) # "ok"}
      Item(diag, n, exp, got) == [diag |-> diag, n |-> n, exp |-> exp, got |-> got, collides |-> Coll(n), where |-> where]
  IN SetToSeq(dup,     LAMBDA i : Item("duplicate-name", list[i].n, NoRec, list[i].val))
     \o SetToSeq(missing, LAMBDA n : Item("missing-name", n, amap[n], NoRec))
     \o SetToSeq(extra,   LAMBDA i : Item("extra-name", list[i].n, NoRec, list[i].val))
     \o SetToSeq(wrong,   LAMBDA i : Item(ValDiag(amap[list[i].n], list[i].val), list[i].n, amap[list[i].n], list[i].val))
=============================================================================

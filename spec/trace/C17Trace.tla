------------------------------ MODULE C17Trace ------------------------------
(* Trace specification for C17 (FaultOutcome): for every fault (a truncation length *)
(* or the k-th I/O call failing) the result of every API call recorded by the        *)
(* driver is compared with the result of the same call on the intact file with       *)
(* working I/O: it must be an error or identical.  The walk has no error channel,    *)
(* so a tree that differs from the intact one means members were silently omitted.   *)
EXTENDS TraceCommon, Integers

VARIABLES l, cfg, intact, bad, stats
tvars == <<l, cfg, intact, bad, stats>>
Init == l = 1 /\ cfg = EmptyFn /\ intact = EmptyFn /\ bad = 0
        /\ stats = [cases |-> 0, faults |-> 0, errors |-> 0, identical |-> 0, calls |-> 0]

IsErr(r) == r \in {"err", "walk-err"}
Items(e) ==
  LET f == e.res IN
  IF f.open = "panic" \/ f.open = "walk-panic" THEN <<[diag |-> "panic", kind |-> e.kind, k |-> e.k]>>
  ELSE IF f.open # "ok" THEN <<>>                                   \* Open reported the problem
  ELSE
    (IF "walk" \in DOMAIN intact /\ f.walk # intact.walk
     THEN <<[diag |-> "members-silently-omitted", kind |-> e.kind, k |-> e.k]>> ELSE <<>>)
    \o LET keys == {c \in DOMAIN f : c \notin {"open", "walk", "msg"}}
           wrong == {c \in keys : c \in DOMAIN intact /\ f[c] # "err" /\ f[c] # intact[c]}
           pan == {c \in keys : f[c] = "panic"}
           extra == {c \in keys : c \notin DOMAIN intact}
           RECURSIVE Go(_, _)
           Go(S, d) == IF S = {} THEN <<>> ELSE LET c == CHOOSE c \in S : TRUE IN
                         <<[diag |-> d, call |-> c, kind |-> e.kind, k |-> e.k]>> \o Go(S \ {c}, d)
       IN Go(pan, "panic") \o Go(wrong \ pan, "different-answer-without-error") \o Go(extra, "answer-for-unknown-object")

Step(e) ==
  CASE e.op = "intact" -> /\ intact' = e.res /\ UNCHANGED <<cfg, bad, stats>>
    [] e.op = "fault" ->
         LET items == Items(e) IN
         IF items # <<>>
         THEN /\ PrintT(<<"BAD", ToJson([case |-> e.case, at |-> l, cfg |-> cfg, items |-> items])>>)
              /\ bad' = bad + 1 /\ stats' = [stats EXCEPT !.faults = @ + 1] /\ UNCHANGED <<cfg, intact>>
         ELSE /\ stats' = [stats EXCEPT !.faults = @ + 1,
                             !.errors = @ + (IF e.res.open # "ok" THEN 1 ELSE 0),
                             !.identical = @ + (IF e.res = intact THEN 1 ELSE 0),
                             !.calls = @ + Cardinality(DOMAIN e.res)]
              /\ UNCHANGED <<cfg, intact, bad>>
    [] e.op = "wfault" ->     \* writer scenario under a failing write: no panic; if every call reported success the file must be the intact one
         LET items == (IF \E c \in DOMAIN e.calls : e.calls[c] = "panic" THEN <<[diag |-> "panic", kind |-> e.kind, k |-> e.k]>> ELSE <<>>)
                      \o (IF (\A c \in DOMAIN e.calls : e.calls[c] = "ok") /\ DOMAIN e.calls = DOMAIN intact.calls /\ e.readback # intact.readback
                          THEN <<[diag |-> "write-error-swallowed", kind |-> e.kind, k |-> e.k]>> ELSE <<>>)
         IN IF items # <<>>
            THEN /\ PrintT(<<"BAD", ToJson([case |-> e.case, at |-> l, cfg |-> cfg, items |-> items])>>)
                 /\ bad' = bad + 1 /\ stats' = [stats EXCEPT !.faults = @ + 1] /\ UNCHANGED <<cfg, intact>>
            ELSE /\ stats' = [stats EXCEPT !.faults = @ + 1, !.errors = @ + (IF \E c \in DOMAIN e.calls : e.calls[c] = "err" THEN 1 ELSE 0)]
                 /\ UNCHANGED <<cfg, intact, bad>>
    [] OTHER -> UNCHANGED <<cfg, intact, bad, stats>>

Consume == /\ l <= Len(Trace) /\ l' = l + 1
           /\ LET e == Trace[l] IN
                IF e.op = "reset" THEN /\ cfg' = e.cfg /\ intact' = EmptyFn /\ bad' = bad /\ stats' = [stats EXCEPT !.cases = @ + 1]
                ELSE Step(e)
Spec == Init /\ [][Consume]_tvars
Verdict == l = Len(Trace) + 1 =>
             PrintT(<<"VERDICT", ToJson([bad |-> bad, stats |-> stats, events |-> Len(Trace)])>>)
=============================================================================

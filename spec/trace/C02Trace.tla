------------------------------ MODULE C02Trace ------------------------------
(* Trace specification for C02.  Consumes the events the Go driver recorded     *)
(* while replaying attribute histories through the real library and checks them *)
(* against the property specification AttrMap: every successful call applies    *)
(* AttrMap!Put / AttrMap!Del to the model map, every failed call leaves it      *)
(* unchanged, and the observation made after Close + reopen must be exactly the *)
(* model map: same set of names, no duplicates, same type, shape, bytes.        *)
EXTENDS TraceCommon

VARIABLES l,      \* next trace line
          map,    \* AttrMap state: function from present names to value descriptors
          cfg,    \* configuration of the current case
          bad,    \* number of rejected cases (each is printed with its diagnosis when found)
          skip,   \* rest of the current case is skipped
          hs,     \* name -> independent lookup3 hash, for every name used in the current case
          stats   \* [cases, puts, dels, errs, observes, overwrites, delpresent]

tvars == <<l, map, cfg, bad, skip, hs, stats>>

Init == /\ l = 1 /\ map = EmptyFn /\ cfg = EmptyFn /\ bad = 0 /\ skip = FALSE /\ hs = EmptyFn
        /\ stats = [cases |-> 0, puts |-> 0, dels |-> 0, errs |-> 0, observes |-> 0,
                    overwrites |-> 0, delpresent |-> 0, nontrivial |-> 0, putbytes |-> 0]

\* does the name the diagnosis is about share its hash with another name used in this case?
Collides(n) == /\ n \in DOMAIN hs
               /\ \E m \in DOMAIN hs : m # n /\ hs[m] = hs[n]

\* A rejected case is printed with ALL its failing items (one per offending name), so that a
\* listed finding on one attribute can never hide an unlisted failure on another one.
RejectItems(e, items) ==
  /\ PrintT(<<"BAD", ToJson([case |-> e.case, at |-> l, cfg |-> cfg, items |-> items])>>)
  /\ bad' = bad + 1
  /\ skip' = TRUE
  /\ UNCHANGED <<map, cfg>>
\* (the heap appends: space of overwritten and deleted values is not used again, so the load of the heap is the volume of
\* all values ever written to the object - stats.putbytes - as much as the volume of the live ones)
\* bytes the attributes of the object occupy by the model (element size x number of elements, plus about 40 bytes of message
\* header, name, datatype and dataspace each): the dense attribute heap has one direct block of 64 KiB
ValBytes(v) == IF "size" \in DOMAIN v /\ "dims" \in DOMAIN v
               THEN v.size * (LET RECURSIVE P(_) P(i) == IF i > Len(v.dims) THEN 1 ELSE v.dims[i] * P(i + 1) IN P(1)) ELSE 0
HeapBytes == LET RECURSIVE S(_) S(D) == IF D = {} THEN 0 ELSE LET n == CHOOSE n \in D : TRUE IN ValBytes(map[n]) + 40 + S(D \ {n}) IN S(DOMAIN map)
Item(diag, n, exp, got) == [diag |-> diag, n |-> n, exp |-> exp, got |-> got, collides |-> Collides(n), heapover56k |-> HeapBytes > 57344 \/ stats.putbytes > 57344]
Reject(e, diag, detail) == RejectItems(e, <<[diag |-> diag, detail |-> detail, collides |-> FALSE]>>)

-----------------------------------------------------------------------------
(* comparison of an observed attribute with the model value, first differing clause *)
ValDiag(exp, got) ==
  IF got.cls # exp.cls \/ got.size # exp.size \/ got.sign # exp.sign THEN "type-mismatch"
  ELSE IF got.dims # exp.dims THEN "shape-mismatch"
  ELSE IF got.data # exp.data THEN "bytes-mismatch"
  ELSE IF got.rv = "panic" THEN "readvalue-panic"
  ELSE IF got.rv # "err" /\ got.rv # exp.rv THEN "readvalue-mismatch"
  ELSE "ok"

ObsNames(e) == {e.attrs[i].n : i \in DOMAIN e.attrs}
NoRec == [none |-> TRUE]

\* C19: the same history was also run under the default configuration (driver, cfg.vsdef); what the two runs show
\* after reopening - one canonical string per visible attribute - must be identical
DefItems(e) ==
  IF "defsig" \in DOMAIN e /\ e.defsig # e.sig
  THEN LET D == {e.defsig[i] : i \in DOMAIN e.defsig}  C == {e.sig[i] : i \in DOMAIN e.sig}
       IN <<[diag |-> "content-differs-from-default-configuration", collides |-> FALSE,
             detail |-> [onlydefault |-> D \ C, onlyconfigured |-> C \ D]]>>
  ELSE <<>>

\* sequence of failing items of an observation; <<>> = accepted
ModelItems(e) ==
  IF e.open # "ok" THEN <<[diag |-> "file-does-not-open", detail |-> e.open, collides |-> FALSE, heapover56k |-> HeapBytes > 57344 \/ stats.putbytes > 57344]>>
  ELSE IF ~e.found THEN <<[diag |-> "object-missing", detail |-> "", collides |-> FALSE, heapover56k |-> HeapBytes > 57344 \/ stats.putbytes > 57344]>>
  ELSE IF e.attrres # "ok" THEN <<[diag |-> "attribute-list-error", detail |-> e.attrres, collides |-> FALSE, heapover56k |-> HeapBytes > 57344 \/ stats.putbytes > 57344]>>
  ELSE
    LET dup     == {i \in DOMAIN e.attrs : \E j \in DOMAIN e.attrs : j < i /\ e.attrs[j].n = e.attrs[i].n}
        missing == {n \in DOMAIN map : n \notin ObsNames(e)}
        extra   == {i \in DOMAIN e.attrs : e.attrs[i].n \notin DOMAIN map}
        wrong   == {i \in DOMAIN e.attrs : e.attrs[i].n \in DOMAIN map
                                            /\ ValDiag(map[e.attrs[i].n], e.attrs[i].val) # "ok"}
        SetToSeq(S, F(_)) ==
          LET RECURSIVE Go(_)
              Go(T) == IF T = {} THEN <<>> ELSE LET x == CHOOSE x \in T : TRUE IN <<F(x)>> \o Go(T \ {x})
          IN Go(S)
    IN SetToSeq(dup,     LAMBDA i : Item("duplicate-name", e.attrs[i].n, NoRec, e.attrs[i].val))
       \o SetToSeq(missing, LAMBDA n : Item("missing-name", n, map[n], NoRec))
       \o SetToSeq(extra,   LAMBDA i : Item("extra-name", e.attrs[i].n, NoRec, e.attrs[i].val))
       \o SetToSeq(wrong,   LAMBDA i : Item(ValDiag(map[e.attrs[i].n], e.attrs[i].val), e.attrs[i].n,
                                              map[e.attrs[i].n], e.attrs[i].val))

ObserveItems(e) == ModelItems(e) \o DefItems(e)

-----------------------------------------------------------------------------
Bump(f) == [stats EXCEPT ![f] = @ + 1]

Step(e) ==
  CASE e.op = "put" ->
         IF e.res = "ok"
         THEN /\ map' = FnPut(map, e.n, e.val)                     \* AttrMap!Put
              /\ stats' = [stats EXCEPT !.puts = @ + 1, !.putbytes = @ + ValBytes(e.val) + 40,
                                        !.overwrites = @ + (IF e.n \in DOMAIN map THEN 1 ELSE 0)]
              /\ UNCHANGED <<bad, skip, cfg>>
         ELSE IF e.res = "err"
         THEN /\ stats' = Bump("errs") /\ UNCHANGED <<map, bad, skip, cfg>>   \* AttrMap!Rejected
         ELSE Reject(e, "panic", e.msg) /\ UNCHANGED stats
    [] e.op = "del" ->
         IF e.res = "ok"
         THEN /\ map' = FnDel(map, e.n)                            \* AttrMap!Del (or no-op if absent)
              /\ stats' = [stats EXCEPT !.dels = @ + 1,
                                        !.delpresent = @ + (IF e.n \in DOMAIN map THEN 1 ELSE 0)]
              /\ UNCHANGED <<bad, skip, cfg>>
         ELSE IF e.res \in {"err", "unsupported"}
         THEN /\ stats' = Bump("errs") /\ UNCHANGED <<map, bad, skip, cfg>>
         ELSE Reject(e, "panic", e.msg) /\ UNCHANGED stats
    [] e.op = "toggle" ->       \* C19: a configuration change has no effect on the map; it must not panic
         IF e.res = "panic" THEN Reject(e, "panic", e.msg) /\ UNCHANGED stats
         ELSE UNCHANGED <<map, bad, skip, cfg, stats>>
    [] e.op = "close" ->
         IF e.res = "ok" THEN UNCHANGED <<map, bad, skip, cfg, stats>>
         ELSE Reject(e, IF e.res = "panic" THEN "panic" ELSE "close-failed", e.msg) /\ UNCHANGED stats
    [] e.op \in {"setup", "session"} ->
         Reject(e, IF e.res = "panic" THEN "panic" ELSE e.op \o "-failed", e.msg) /\ UNCHANGED stats
    [] e.op = "observe" ->
         LET items == ObserveItems(e) IN
         IF items = <<>>
         THEN /\ stats' = [stats EXCEPT !.observes = @ + 1,
                             !.nontrivial = @ + (IF stats.overwrites + stats.delpresent > 0 THEN 1 ELSE 0)]
              /\ UNCHANGED <<map, bad, skip, cfg>>
         ELSE RejectItems(e, items) /\ UNCHANGED stats
    [] OTHER -> Reject(e, "unknown-event", e.op) /\ UNCHANGED stats

Consume ==
  /\ l <= Len(Trace)
  /\ l' = l + 1
  /\ LET e == Trace[l] IN
       IF e.op = "reset"
       THEN /\ map' = EmptyFn /\ cfg' = e.cfg /\ skip' = FALSE /\ bad' = bad /\ hs' = EmptyFn
            /\ stats' = [stats EXCEPT !.cases = @ + 1, !.overwrites = 0, !.delpresent = 0, !.putbytes = 0]
       ELSE IF skip THEN UNCHANGED <<map, cfg, bad, skip, hs, stats>>
       ELSE /\ Step(e)
            /\ hs' = IF e.op \in {"put", "del"} THEN FnPut(hs, e.n, e.h) ELSE hs

Spec == Init /\ [][Consume]_tvars

\* printed exactly once, when the whole trace has been consumed
Verdict == l = Len(Trace) + 1 =>
             PrintT(<<"VERDICT", ToJson([bad |-> bad, stats |-> stats, events |-> Len(Trace)])>>)
=============================================================================

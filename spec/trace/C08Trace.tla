------------------------------ MODULE C08Trace ------------------------------
(* Trace specification for C08: the outcome of every decode path the driver tried  *)
(* is judged with the laws of FilterPipe: every path that decodes what the writer    *)
(* accepted must return the payload (Lossless / self-compatibility), and a           *)
(* Fletcher-32 protected chunk with any altered byte must be refused                 *)
(* (DetectsCorruption) by both decoders.                                            *)
EXTENDS TraceCommon, Integers

VARIABLES l, cfg, bad, stats
tvars == <<l, cfg, bad, stats>>
Init == l = 1 /\ cfg = EmptyFn /\ bad = 0
        /\ stats = [cases |-> 0, encoded |-> 0, refused |-> 0, p1 |-> 0, p2 |-> 0, p3 |-> 0, p4 |-> 0, corruptions |-> 0]

Has2(p, k) == \E i \in DOMAIN p : p[i] = k
FletcherOutermost == Len(cfg.pipe) > 0 /\ cfg.pipe[Len(cfg.pipe)] = "fletcher32"
PathItems(e, path, outcome) ==
  IF outcome \in {"eq", "skip"} THEN <<>>
  ELSE <<[diag |-> IF outcome = "panic" THEN "panic" ELSE IF outcome = "neq" THEN "decoded-bytes-differ" ELSE "decode-error",
          path |-> path, deflate |-> Has2(cfg.pipe, "deflate"), lzf |-> Has2(cfg.pipe, "lzf"), shuffle |-> Has2(cfg.pipe, "shuffle"),
          fletcher |-> cfg.fletcher, payload |-> cfg.payload, npipe |-> Len(cfg.pipe), msgparse |-> e.msgparse]>>

Step(e) ==
  IF e.op = "setup" THEN /\ PrintT(<<"BAD", ToJson([case |-> e.case, at |-> l, cfg |-> cfg, items |-> <<[diag |-> "setup-failed", msg |-> e.msg]>>])>>)
                         /\ bad' = bad + 1 /\ UNCHANGED <<cfg, stats>>
  ELSE IF e.op # "filter" THEN UNCHANGED <<cfg, bad, stats>>
  ELSE IF e.enc = "panic" THEN /\ PrintT(<<"BAD", ToJson([case |-> e.case, at |-> l, cfg |-> cfg, items |-> <<[diag |-> "panic", path |-> "encode"]>>])>>)
                               /\ bad' = bad + 1 /\ UNCHANGED <<cfg, stats>>
  ELSE IF e.enc = "err" THEN /\ stats' = [stats EXCEPT !.refused = @ + 1] /\ UNCHANGED <<cfg, bad>>     \* not accepted by the writer
  ELSE
    LET items == PathItems(e, "writer-remove", e.p1)
                 \o PathItems(e, "reader-via-message", e.p2)
                 \o PathItems(e, "reader-direct", e.p3)
                 \o PathItems(e, "end-to-end", e.p4)
                 \* Fletcher-32 outermost (the last filter applied): it covers every stored byte, any alteration must be refused.
                 \* Fletcher-32 under a compressor: an alteration that survives decompression unchanged cannot be seen by
                 \* anyone; what must never happen is that decoding returns DIFFERENT data.
                 \o (IF (FletcherOutermost /\ e.wacc > 0) \/ e.wneq > 0
                     THEN <<[diag |-> "corruption-not-detected", path |-> "writer-remove", accepted |-> e.wacc, differing |-> e.wneq,
                             tried |-> e.corrupt, outermost |-> FletcherOutermost,
                             \* what the accepted different data looks like: only zero bytes missing from or added to the end, or anything else
                             shape |-> IF e.wneq > 0 /\ e.wother = 0 THEN "trailing-zeros-only" ELSE "bytes-differ"]>> ELSE <<>>)
                 \o (IF (FletcherOutermost /\ e.racc > 0) \/ e.rneq > 0
                     THEN <<[diag |-> "corruption-not-detected", path |-> "reader-direct", accepted |-> e.racc, differing |-> e.rneq,
                             tried |-> e.corrupt, outermost |-> FletcherOutermost]>> ELSE <<>>)
    IN IF items # <<>>
       THEN /\ PrintT(<<"BAD", ToJson([case |-> e.case, at |-> l, cfg |-> cfg, items |-> items])>>)
            /\ bad' = bad + 1 /\ UNCHANGED <<cfg, stats>>
       ELSE /\ stats' = [stats EXCEPT !.encoded = @ + 1, !.p1 = @ + 1,
                           !.p2 = @ + (IF e.p2 = "eq" THEN 1 ELSE 0), !.p3 = @ + (IF e.p3 = "eq" THEN 1 ELSE 0),
                           !.p4 = @ + (IF e.p4 = "eq" THEN 1 ELSE 0), !.corruptions = @ + e.corrupt]
            /\ UNCHANGED <<cfg, bad>>

Consume ==
  /\ l <= Len(Trace) /\ l' = l + 1
  /\ LET e == Trace[l] IN
       IF e.op = "reset" THEN /\ cfg' = e.cfg /\ bad' = bad /\ stats' = [stats EXCEPT !.cases = @ + 1]
       ELSE Step(e)
Spec == Init /\ [][Consume]_tvars
Verdict == l = Len(Trace) + 1 =>
             PrintT(<<"VERDICT", ToJson([bad |-> bad, stats |-> stats, events |-> Len(Trace)])>>)
=============================================================================

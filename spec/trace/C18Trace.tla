------------------------------ MODULE C18Trace ------------------------------
(* Trace specification for C18: lifecycle facts recorded by the concurrency         *)
(* scenarios (run under the Go race detector) and the access pairs extracted from    *)
(* the detector's reports are judged against the protocol of Rebalancer /            *)
(* SmartLifecycle: no data race, no panic, every Stop returns, no goroutine          *)
(* outlives it, parallel use of independent handles equals sequential use.           *)
(* The set of racing pairs the models predict for the code as it is                  *)
(* (CODE_ switches on) is passed in the reset event, so an observed race that        *)
(* the model does not predict is visible as such.                                   *)
EXTENDS TraceCommon, Integers

VARIABLES l, cfg, bad, stats
tvars == <<l, cfg, bad, stats>>
Init == l = 1 /\ cfg = EmptyFn /\ bad = 0 /\ stats = [scenarios |-> 0, races |-> 0, clean |-> 0]

Predicted(a, b) == \E i \in DOMAIN cfg.predicted : cfg.predicted[i] = <<a, b>> \/ cfg.predicted[i] = <<b, a>>

Step(e) ==
  CASE e.op = "life" ->
         LET items == (IF ~e.returned THEN <<[diag |-> "stop-or-scenario-does-not-return", scenario |-> e.scenario]>> ELSE <<>>)
                      \o (IF e.panic # "" THEN <<[diag |-> "panic", scenario |-> e.scenario, msg |-> e.panic]>> ELSE <<>>)
                      \o (IF e.gafter > e.gbefore THEN <<[diag |-> "goroutine-outlives-stop", scenario |-> e.scenario,
                                                          before |-> e.gbefore, after |-> e.gafter]>> ELSE <<>>)
                      \* SmartStop!QuietAfterStop: no background work is left running when Stop has returned
                      \o (IF Has(e, "bgafter") /\ e.bgafter THEN <<[diag |-> "background-work-after-stop", scenario |-> e.scenario]>> ELSE <<>>)
                      \o (IF Has(e, "note") /\ e.note # "" /\ e.equal /\ e.scenario \in {"smart-stop-inflight", "smart-parent-cancel"}
                          THEN <<[diag |-> "scenario-setup-failed", scenario |-> e.scenario, note |-> e.note]>> ELSE <<>>)
                      \o (IF ~e.equal THEN <<[diag |-> "parallel-differs-from-sequential", scenario |-> e.scenario, note |-> e.note]>> ELSE <<>>)
         IN IF items # <<>>
            THEN /\ PrintT(<<"BAD", ToJson([case |-> e.case, at |-> l, cfg |-> [x |-> 0], items |-> items])>>)
                 /\ bad' = bad + 1 /\ stats' = [stats EXCEPT !.scenarios = @ + 1] /\ UNCHANGED cfg
            ELSE /\ stats' = [stats EXCEPT !.scenarios = @ + 1, !.clean = @ + 1] /\ UNCHANGED <<cfg, bad>>
    [] e.op = "race" ->
         /\ PrintT(<<"BAD", ToJson([case |-> e.case, at |-> l, cfg |-> [x |-> 0],
                      items |-> <<[diag |-> "data-race", scenario |-> e.scenario, a |-> e.a, b |-> e.b, akind |-> e.akind, bkind |-> e.bkind, afields |-> e.afields, bfields |-> e.bfields,
                                   modelled |-> Predicted(e.sa, e.sb)]>>])>>)
         /\ bad' = bad + 1 /\ stats' = [stats EXCEPT !.races = @ + 1] /\ UNCHANGED cfg
    [] OTHER -> UNCHANGED <<cfg, bad, stats>>

Consume == /\ l <= Len(Trace) /\ l' = l + 1
           /\ LET e == Trace[l] IN IF e.op = "reset" THEN cfg' = e.cfg /\ UNCHANGED <<bad, stats>> ELSE Step(e)
Spec == Init /\ [][Consume]_tvars
Verdict == l = Len(Trace) + 1 =>
             PrintT(<<"VERDICT", ToJson([bad |-> bad, stats |-> stats, events |-> Len(Trace)])>>)
=============================================================================

------------------------------ MODULE C12Trace ------------------------------
(* Trace specification for C12: variable-length data.  For every written element  *)
(* list the driver logs (a) what the library's reader reports after reopen and     *)
(* (b) the element references and heap collections decoded independently from the  *)
(* raw file.  Judged here: the dataset is recognised as variable-length data of     *)
(* the written base type; every element resolves to exactly the written bytes;      *)
(* every collection is well-formed (GlobalHeap accounting: header + objects +       *)
(* free = declared size; indices 1..n distinct; object sizes inside the             *)
(* collection; free-space record present iff at least 16 bytes are free).           *)
EXTENDS TraceCommon, Integers

VARIABLES l, cfg, written, bad, skip, stats
tvars == <<l, cfg, written, bad, skip, stats>>
Init == /\ l = 1 /\ cfg = EmptyFn /\ written = <<>> /\ bad = 0 /\ skip = FALSE
        /\ stats = [cases |-> 0, elements |-> 0, collections |-> 0, multicoll |-> 0, empties |-> 0, oversized |-> 0, drift |-> 0]

RejectItems(e, items) ==
  /\ PrintT(<<"BAD", ToJson([case |-> e.case, at |-> l, cfg |-> [base |-> cfg.base, chunked |-> cfg.chunked, sb |-> cfg.sb, n |-> cfg.n], items |-> items])>>)
  /\ bad' = bad + 1 /\ UNCHANGED <<cfg, written, skip>>

Align8(n) == ((n + 7) \div 8) * 8
BaseOf == [cls |-> IF cfg.base = "str" THEN 3 ELSE IF cfg.base \in {"i32", "i64", "u32", "u64"} THEN 0 ELSE 1,
           size |-> IF cfg.base = "str" THEN 1 ELSE IF cfg.base \in {"i32", "u32", "f32"} THEN 4 ELSE 8,
           vl |-> IF cfg.base = "str" THEN 1 ELSE 0,
           sign |-> IF cfg.base \in {"i32", "i64"} THEN 1 ELSE IF cfg.base \in {"u32", "u64"} THEN 0 ELSE -1]   \* -1: not a fixed-point base

CollItems(c) ==
  LET n == Len(c.sizes)
      used == LET RECURSIVE S(_) S(i) == IF i = 0 THEN 0 ELSE 16 + Align8(c.sizes[i]) + S(i - 1) IN S(n)
      free == c.size - 16 - used                    \* what is left after header and objects
  IN (IF c.errs > 0 \/ ~c.infile THEN <<[diag |-> "collection-malformed", addr |-> c.addr]>> ELSE <<>>)
     \o (IF free < 0 THEN <<[diag |-> "collection-objects-exceed-declared-size", addr |-> c.addr]>> ELSE <<>>)
     \o (IF Cardinality({c.idxs[i] : i \in DOMAIN c.idxs}) # n \/ \E i \in DOMAIN c.idxs : c.idxs[i] < 1
         THEN <<[diag |-> "object-indices-not-distinct-positive", addr |-> c.addr]>> ELSE <<>>)
     \o (IF free >= 16 /\ ~c.hasfree THEN <<[diag |-> "free-space-record-missing", addr |-> c.addr, free |-> free]>> ELSE <<>>)
     \* the free-space object describes the remaining space: its size field counts it with (format spec) or without its own header
     \o (IF c.hasfree /\ c.freefield # free /\ c.freefield # free - 16
         THEN <<[diag |-> "free-space-record-inconsistent", addr |-> c.addr, field |-> c.freefield, free |-> free]>> ELSE <<>>)

Step(e) ==
  CASE e.op = "vlwrite" ->
         IF e.res = "panic" THEN RejectItems(e, <<[diag |-> "panic", msg |-> e.msg]>>) /\ UNCHANGED stats
         ELSE /\ written' = IF e.res = "ok" THEN e.elems ELSE <<>>
              /\ skip' = (e.res # "ok")             \* a refused write: nothing to judge for this case
              /\ UNCHANGED <<cfg, bad, stats>>
    [] e.op = "vlobs" ->
         LET items ==
               (IF e.open # "ok" THEN <<[diag |-> "file-does-not-open", res |-> e.open]>> ELSE <<>>)
               \o (IF e.open = "ok" /\ ~e.found THEN <<[diag |-> "dataset-missing"]>> ELSE <<>>)
               \o (IF e.open = "ok" /\ e.found /\ e.cls # 9
                   THEN <<[diag |-> "not-recognised-as-variable-length", cls |-> e.cls, size |-> e.size]>> ELSE <<>>)
               \o (IF e.open = "ok" /\ e.found /\ e.cls = 9 /\ (e.vltype # BaseOf.vl \/ e.basecls # BaseOf.cls \/ e.basesize # BaseOf.size
                                                             \/ (BaseOf.sign # -1 /\ "basesign" \in DOMAIN e /\ e.basesign # BaseOf.sign))    \* a signed base type stays signed, an unsigned one unsigned
                   THEN <<[diag |-> "wrong-base-type", vltype |-> e.vltype, basecls |-> e.basecls, basesize |-> e.basesize,
                           basesign |-> IF "basesign" \in DOMAIN e THEN e.basesign ELSE -1]>> ELSE <<>>)
               \o (IF e.rstr = "differs" THEN <<[diag |-> "ReadStrings-returns-other-values"]>> ELSE <<>>)
               \o (IF e.rf64 = "values" THEN <<[diag |-> "Read-returns-numbers-for-vlen-data"]>> ELSE <<>>)
               \* the library offers no element read for vlen datasets: reported, the independent decode below decides content
               \o (IF cfg.base = "str" /\ e.rstr = "err" THEN <<[diag |-> "no-typed-read-for-vlen-strings"]>> ELSE <<>>)
         IN IF items # <<>> THEN RejectItems(e, items) /\ UNCHANGED stats
            ELSE UNCHANGED <<cfg, written, bad, skip, stats>>
    [] e.op = "vlraw" ->
         IF ~e.usable THEN UNCHANGED <<cfg, written, bad, skip, stats>>
         ELSE
         IF Len(e.els) # Len(written)
         THEN RejectItems(e, <<[diag |-> "element-count-differs", exp |-> Len(written), got |-> Len(e.els)]>>) /\ UNCHANGED stats
         ELSE
         LET n == Len(written)
             viaSpec == \A i \in 1..n : e.els[i].spec.ok
             viaAlt == \A i \in 1..n : e.els[i].alt.ok
             R(i) == IF viaSpec THEN e.els[i].spec ELSE e.els[i].alt
             items ==
               (IF Len(e.els) # n THEN <<[diag |-> "element-count-differs"]>> ELSE <<>>)
               \o (IF ~viaSpec /\ ~viaAlt THEN <<[diag |-> "element-reference-does-not-resolve"]>> ELSE <<>>)
               \o (IF ~viaSpec /\ viaAlt THEN <<[diag |-> "element-reference-layout-not-hdf5"]>> ELSE <<>>)
               \o (IF (viaSpec \/ viaAlt) /\ \E i \in 1..n : R(i).len # written[i].len \/ R(i).dig # written[i].dig
                   THEN LET i == CHOOSE i \in 1..n : R(i).len # written[i].len \/ R(i).dig # written[i].dig
                        IN <<[diag |-> "element-bytes-differ", elem |-> i, explen |-> written[i].len, gotlen |-> R(i).len]>> ELSE <<>>)
               \* the library's own heap reader must resolve every reference to the same bytes
               \o (IF (viaSpec \/ viaAlt) /\ \E i \in 1..n : Has(e.els[i], "lib") /\ (~e.els[i].lib.ok \/ e.els[i].lib.len # R(i).len \/ e.els[i].lib.dig # R(i).dig)
                   THEN LET i == CHOOSE i \in 1..n : Has(e.els[i], "lib") /\ (~e.els[i].lib.ok \/ e.els[i].lib.len # R(i).len \/ e.els[i].lib.dig # R(i).dig)
                        IN <<[diag |-> "library-heap-reader-differs", elem |-> i, explen |-> R(i).len, gotlen |-> e.els[i].lib.len, why |-> e.els[i].lib.why]>> ELSE <<>>)
               \o (IF viaSpec /\ \E i \in 1..n : e.els[i].spec.count * BaseOf.size # written[i].len
                   THEN <<[diag |-> "element-length-field-wrong"]>> ELSE <<>>)
               \o LET RECURSIVE Go(_) Go(k) == IF k > Len(e.colls) THEN <<>> ELSE CollItems(e.colls[k]) \o Go(k + 1) IN Go(1)
             design == Len(e.colls) = Len(cfg.predicted)
                       /\ \A k \in DOMAIN e.colls : e.colls[k].size = cfg.predicted[k].size /\ Len(e.colls[k].sizes) = cfg.predicted[k].n
         IN IF items # <<>> THEN RejectItems(e, items) /\ UNCHANGED stats
            ELSE /\ stats' = [stats EXCEPT !.elements = @ + n, !.collections = @ + Len(e.colls),
                                !.multicoll = @ + (IF Len(e.colls) > 1 THEN 1 ELSE 0),
                                !.empties = @ + Cardinality({i \in 1..n : written[i].len = 0}),
                                !.oversized = @ + Cardinality({i \in 1..n : written[i].len > 4064}),
                                !.drift = @ + (IF cfg.predicted # <<>> /\ ~design THEN 1 ELSE 0)]
                 /\ UNCHANGED <<cfg, written, bad, skip>>
    [] OTHER -> UNCHANGED <<cfg, written, bad, skip, stats>>

Consume ==
  /\ l <= Len(Trace) /\ l' = l + 1
  /\ LET e == Trace[l] IN
       IF e.op = "reset" THEN /\ cfg' = e.cfg /\ written' = <<>> /\ skip' = FALSE /\ bad' = bad /\ stats' = [stats EXCEPT !.cases = @ + 1]
       ELSE IF skip THEN UNCHANGED <<cfg, written, bad, skip, stats>>
       ELSE Step(e)
Spec == Init /\ [][Consume]_tvars
Verdict == l = Len(Trace) + 1 =>
             PrintT(<<"VERDICT", ToJson([bad |-> bad, stats |-> stats, events |-> Len(Trace)])>>)
=============================================================================

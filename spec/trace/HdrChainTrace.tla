---------------------------- MODULE HdrChainTrace ----------------------------
(* Trace specification for the object header reader: every header shape the      *)
(* driver laid out as bytes and read with the library is judged with the          *)
(* operators of HeaderShapes.  A well-formed shape (a tree of blocks) must be      *)
(* read without error and yield exactly Expected(shape) - all payload messages     *)
(* of all blocks, in the reference order.  On any other shape the reader owes an   *)
(* answer or an error: it must not panic and must not hang.                        *)
EXTENDS TraceCommon, HeaderShapes

VARIABLES l, cfg, bad, stats
tvars == <<l, cfg, bad, stats>>
Init == /\ l = 1 /\ cfg = EmptyFn /\ bad = 0
        /\ stats = [cases |-> 0, wellformed |-> 0, complete |-> 0, illformed |-> 0, refused |-> 0, answered |-> 0, multicont |-> 0, deep |-> 0]

Bag(s) == [x \in SeqRange(s) |-> Cardinality({i \in DOMAIN s : s[i] = x})]
\* a block that announces two or more blocks; a block announced by a continuation block
MultiCont(h) == \E b \in 1..Len(h) : Len(ContsOf(h, b)) >= 2
Deep(h) == \E b \in 2..Len(h) : ContsOf(h, b) # <<>>
Reject(e, item) ==
  /\ PrintT(<<"BAD", ToJson([case |-> e.case, at |-> l,
                             cfg |-> [ver |-> cfg.ver, crt |-> cfg.crt, rev |-> cfg.rev, gap |-> cfg.gap, wf |-> cfg.wf, nblocks |-> cfg.nblocks],
                             items |-> <<item @@ [ver |-> cfg.ver, multicont |-> MultiCont(cfg.blocks), deep |-> Deep(cfg.blocks)]>>])>>)
  /\ bad' = bad + 1 /\ UNCHANGED <<cfg, stats>>

Fam(e) == IF "family" \in DOMAIN e THEN e.family ELSE "group-dag"
Step(e) ==
  IF e.op = "dag"          \* the counterexample of GroupWalk ("inprogress": 2^depth loads for depth groups) on a real file: hard-linked groups, and a chunk index whose nodes are shared
  THEN IF e.res \in {"ok", "err"}
       THEN /\ stats' = [stats EXCEPT !.answered = @ + 1] /\ UNCHANGED <<cfg, bad>>
       ELSE /\ PrintT(<<"BAD", ToJson([case |-> e.case, at |-> l, cfg |-> [family |-> Fam(e), sb |-> e.sb, depth |-> e.depth],
                                       items |-> <<[diag |-> IF e.res = "panic" THEN "panic" ELSE IF e.res = "hang" THEN "hang" ELSE "not-run",
                                                    family |-> Fam(e), msg |-> e.msg]>>])>>)
            /\ bad' = bad + 1 /\ UNCHANGED <<cfg, stats>>
  ELSE IF e.op # "hdr" THEN UNCHANGED <<cfg, bad, stats>>
  ELSE LET h == cfg.blocks
           wf == WellFormed(h)
       IN
       IF e.res \in {"panic", "hang"} THEN Reject(e, [diag |-> e.res, wf |-> wf, msg |-> e.msg])
       ELSE IF wf
       THEN LET exp == Expected(h) IN
            IF e.res # "ok" THEN Reject(e, [diag |-> "valid-header-refused", msg |-> e.msg])
            ELSE IF e.msgs = exp
                 THEN /\ stats' = [stats EXCEPT !.wellformed = @ + 1, !.complete = @ + 1,
                                     !.multicont = @ + (IF MultiCont(h) THEN 1 ELSE 0), !.deep = @ + (IF Deep(h) THEN 1 ELSE 0)]
                      /\ UNCHANGED <<cfg, bad>>
            ELSE IF Bag(e.msgs) = Bag(exp) THEN Reject(e, [diag |-> "header-messages-reordered", exp |-> exp, got |-> e.msgs])
            ELSE IF SeqRange(e.msgs) \subseteq SeqRange(exp) /\ Cardinality(SeqRange(e.msgs)) = Len(e.msgs)
                 THEN Reject(e, [diag |-> "header-messages-lost", exp |-> exp, got |-> e.msgs,
                                 firstblockonly |-> e.msgs = MsgsOf(h, 1)])
            ELSE Reject(e, [diag |-> "header-messages-invented", exp |-> exp, got |-> e.msgs])
       ELSE /\ stats' = [stats EXCEPT !.illformed = @ + 1, !.refused = @ + (IF e.res = "ok" THEN 0 ELSE 1),
                           !.answered = @ + (IF e.res = "ok" THEN 1 ELSE 0)]
            /\ UNCHANGED <<cfg, bad>>

Consume ==
  /\ l <= Len(Trace) /\ l' = l + 1
  /\ LET e == Trace[l] IN
       IF e.op = "reset" THEN /\ cfg' = e.cfg /\ bad' = bad /\ stats' = [stats EXCEPT !.cases = @ + 1]
       ELSE Step(e)
Spec == Init /\ [][Consume]_tvars
Verdict == l = Len(Trace) + 1 =>
             PrintT(<<"VERDICT", ToJson([bad |-> bad, stats |-> stats, events |-> Len(Trace)])>>)
=============================================================================

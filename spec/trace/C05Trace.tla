------------------------------ MODULE C05Trace ------------------------------
(* Trace specification for C05 (ExtentSet): the byte layout of every written file  *)
(* as an independent decoder of the format records it.  One "layout" event per     *)
(* file: the extents [start, end) of every structure reachable from the superblock  *)
(* sorted by start, the format rules that do not hold (rule id, structure kind,      *)
(* owner), the file size and the end-of-file address of the superblock, and whatever  *)
(* the decoder could not follow.  The laws of the property:                          *)
(*                                                                                  *)
(*   InBounds  - every extent lies inside the file and below the recorded             *)
(*               end-of-file address, which itself is not beyond the file            *)
(*   Disjoint  - no two extents overlap (sorted by start: each ends before the next)  *)
(*   Decodable - the walk reached everything: no structural error                     *)
(*   Conformant - every format rule evaluated on every structure holds                *)
EXTENDS TraceCommon, Integers, SequencesExt

VARIABLES l, bad, stats, cfg
tvars == <<l, bad, stats, cfg>>
Init == l = 1 /\ bad = 0 /\ cfg = EmptyFn
        /\ stats = [cases |-> 0, files |-> 0, extents |-> 0, rules |-> 0, objects |-> 0]

Sorted(x) == \A i \in 1..(Len(x) - 1) : x[i].start <= x[i + 1].start
Overlaps(x) == {i \in 1..(Len(x) - 1) : x[i].end > x[i + 1].start}
OutOfFile(e) == {i \in DOMAIN e.extents : e.extents[i].end > e.filesize}
BeyondEoa(e) == {i \in DOMAIN e.extents : e.extents[i].end > e.eoa}

Items(e) ==
  IF ~e.usable THEN <<[diag |-> "decoder-failed"]>>
  ELSE
    LET x == e.extents
        ov == SetToSeq(Overlaps(x))
        of == SetToSeq(OutOfFile(e))
        be == SetToSeq(BeyondEoa(e) \ OutOfFile(e))
    IN (IF ~Sorted(x) THEN <<[diag |-> "driver-extents-not-sorted"]>> ELSE <<>>)
       \o (IF e.eoa > e.filesize THEN <<[diag |-> "eof-address-beyond-file", eoa |-> e.eoa, filesize |-> e.filesize, sb |-> e.sb]>> ELSE <<>>)
       \o [i \in 1..Len(ov) |-> [diag |-> "overlap", a |-> x[ov[i]].kind, b |-> x[ov[i] + 1].kind, aowner |-> x[ov[i]].owner, bowner |-> x[ov[i] + 1].owner,
                                  aend |-> x[ov[i]].end, bstart |-> x[ov[i] + 1].start, sb |-> e.sb]]
       \o [i \in 1..Len(of) |-> [diag |-> "extent-outside-file", kind |-> x[of[i]].kind, owner |-> x[of[i]].owner, sb |-> e.sb]]
       \o [i \in 1..Len(be) |-> [diag |-> "extent-beyond-eof-address", kind |-> x[be[i]].kind, owner |-> x[be[i]].owner, eoa |-> e.eoa, sb |-> e.sb]]
       \o [i \in 1..Len(e.errs) |-> [diag |-> "structure-not-decodable", msg |-> e.errs[i], sb |-> e.sb]]
       \o [i \in 1..Len(e.broken) |-> [diag |-> "format-rule-broken", rule |-> e.broken[i].rule, kind |-> e.broken[i].kind, owner |-> e.broken[i].owner, sb |-> e.sb]]

Consume ==
  /\ l <= Len(Trace) /\ l' = l + 1
  /\ LET e == Trace[l] IN
       IF e.op = "reset" THEN /\ cfg' = e.cfg /\ bad' = bad /\ stats' = [stats EXCEPT !.cases = @ + 1]
       ELSE IF e.op # "layout" THEN UNCHANGED <<bad, stats, cfg>>
       ELSE LET items == Items(e) IN
            /\ (IF items # <<>>
                THEN /\ PrintT(<<"BAD", ToJson([case |-> e.case, at |-> l, cfg |-> cfg, items |-> items])>>)
                     /\ bad' = bad + 1
                ELSE bad' = bad)
            /\ stats' = IF e.usable THEN [stats EXCEPT !.files = @ + 1, !.extents = @ + Len(e.extents), !.rules = @ + e.nrules, !.objects = @ + e.nobjs]
                        ELSE stats
            /\ UNCHANGED cfg
Spec == Init /\ [][Consume]_tvars
Verdict == l = Len(Trace) + 1 =>
             PrintT(<<"VERDICT", ToJson([bad |-> bad, stats |-> stats, events |-> Len(Trace)])>>)
=============================================================================

----------------------------- MODULE C19SelTrace -----------------------------
(* Trace specification for the selector half of C19: decisions made by the real   *)
(* ConfigSelector (fake clock, stub strategy) and by the real RuleBasedStrategy    *)
(* are checked (a) against the four clauses of the property directly and (b)       *)
(* against SelectorCore!Decide, the transcription of the gate logic.               *)
EXTENDS TraceCommon, SelectorCore

VARIABLES l, cfg, lastMode, lastTime, lastPassMode, lastPassTime, now, bad, skip, stats
tvars == <<l, cfg, lastMode, lastTime, lastPassMode, lastPassTime, now, bad, skip, stats>>

Init == /\ l = 1 /\ cfg = EmptyFn /\ lastMode = "none" /\ lastTime = -1 /\ lastPassMode = "none" /\ lastPassTime = -1
        /\ now = 0 /\ bad = 0 /\ skip = FALSE
        /\ stats = [cases |-> 0, decisions |-> 0, passed |-> 0, stability |-> 0, lowconf |-> 0, notallowed |-> 0, rules |-> 0]

AllowedSet == {cfg.allowed[i] : i \in DOMAIN cfg.allowed}
RejectItems(e, items) ==
  /\ PrintT(<<"BAD", ToJson([case |-> e.case, at |-> l, cfg |-> cfg, items |-> items])>>)
  /\ bad' = bad + 1 /\ skip' = TRUE /\ UNCHANGED <<cfg, lastMode, lastTime, lastPassMode, lastPassTime, now>>

Step(e) ==
  CASE e.op = "decide" ->
         LET t == now + e.dt
             \* a confidence one float below or above conf/100 (e.eps): compared in half steps
             c2 == 2 * e.conf + (IF "eps" \in DOMAIN e THEN e.eps ELSE 0)
             m2 == 2 * cfg.minconf
             d == Decide(AllowedSet, m2, cfg.period, lastMode, lastTime, t, e.raw, c2)
             \* the property's clauses, evaluated on what the real selector returned
             passesGates == c2 >= m2 /\ IsAllowedIn(AllowedSet, e.raw)
             items ==
               (IF e.res # "ok" THEN <<[diag |-> "selector-panic", msg |-> e.msg]>> ELSE <<>>)
               \o (IF e.res = "ok" /\ ~(e.outmode = "none" \/ IsAllowedIn(AllowedSet, e.outmode))
                   THEN <<[diag |-> "mode-not-allowed", mode |-> e.outmode]>> ELSE <<>>)
               \o (IF e.res = "ok" /\ c2 < m2 /\ e.outmode # "none"
                   THEN <<[diag |-> "low-confidence-not-none", mode |-> e.outmode, conf |-> e.conf, eps |-> c2 - 2 * e.conf]>> ELSE <<>>)
               \o (IF e.res = "ok" /\ (e.outconf < 0 \/ e.outconf > 100)
                   THEN <<[diag |-> "confidence-out-of-range", conf |-> e.outconf]>> ELSE <<>>)
               \o (IF e.res = "ok" /\ passesGates /\ lastPassTime # -1 /\ t - lastPassTime < cfg.period /\ e.outmode # lastPassMode
                   THEN <<[diag |-> "mode-changed-within-stability-period", mode |-> e.outmode, last |-> lastPassMode,
                           since |-> t - lastPassTime]>> ELSE <<>>)
               \o (IF e.res = "ok" /\ e.outmode # d.mode
                   THEN <<[diag |-> "decision-differs-from-SelectorCore", got |-> e.outmode, exp |-> d.mode, gate |-> d.gate]>> ELSE <<>>)
         IN IF items # <<>> THEN RejectItems(e, items) /\ UNCHANGED stats
            ELSE /\ now' = t /\ lastMode' = d.lastMode /\ lastTime' = d.lastTime
                 \* "decisions that pass the two gates": remember the last one whose mode was actually adopted
                 /\ lastPassMode' = IF d.gate = "passed" THEN e.outmode ELSE lastPassMode
                 /\ lastPassTime' = IF d.gate = "passed" THEN t ELSE lastPassTime
                 /\ stats' = [stats EXCEPT !.decisions = @ + 1,
                                !.passed = @ + (IF d.gate = "passed" THEN 1 ELSE 0),
                                !.stability = @ + (IF d.gate = "stability" THEN 1 ELSE 0),
                                !.lowconf = @ + (IF d.gate = "low-confidence" THEN 1 ELSE 0),
                                !.notallowed = @ + (IF d.gate = "not-allowed" THEN 1 ELSE 0)]
                 /\ UNCHANGED <<cfg, bad, skip>>
    [] e.op = "rule" ->      \* the real rule-based strategy behind the real selector
         LET items ==
               (IF e.res # "ok" THEN <<[diag |-> "selector-panic", msg |-> e.msg]>> ELSE <<>>)
               \o (IF e.res = "ok" /\ (e.outconf < 0 \/ e.outconf > 100) THEN <<[diag |-> "confidence-out-of-range", conf |-> e.outconf]>> ELSE <<>>)
               \o (IF e.res = "ok" /\ ~(e.outmode = "none" \/ IsAllowedIn(AllowedSet, e.outmode)) THEN <<[diag |-> "mode-not-allowed", mode |-> e.outmode]>> ELSE <<>>)
               \o (IF e.res = "ok" /\ e.outconf < cfg.minconf /\ e.outmode # "none" THEN <<[diag |-> "low-confidence-not-none", mode |-> e.outmode, conf |-> e.outconf]>> ELSE <<>>)
         IN IF items # <<>> THEN RejectItems(e, items) /\ UNCHANGED stats
            ELSE /\ stats' = [stats EXCEPT !.rules = @ + 1] /\ UNCHANGED <<cfg, lastMode, lastTime, lastPassMode, lastPassTime, now, bad, skip>>
    [] OTHER -> UNCHANGED <<cfg, lastMode, lastTime, lastPassMode, lastPassTime, now, bad, skip, stats>>

Consume ==
  /\ l <= Len(Trace) /\ l' = l + 1
  /\ LET e == Trace[l] IN
       IF e.op = "reset"
       THEN /\ cfg' = e.cfg /\ lastMode' = "none" /\ lastTime' = -1 /\ lastPassMode' = "none" /\ lastPassTime' = -1 /\ now' = 0
            /\ skip' = FALSE /\ bad' = bad /\ stats' = [stats EXCEPT !.cases = @ + 1]
       ELSE IF skip THEN UNCHANGED <<cfg, lastMode, lastTime, lastPassMode, lastPassTime, now, bad, skip, stats>>
       ELSE Step(e)
Spec == Init /\ [][Consume]_tvars
Verdict == l = Len(Trace) + 1 =>
             PrintT(<<"VERDICT", ToJson([bad |-> bad, stats |-> stats, events |-> Len(Trace)])>>)
=============================================================================

--------------------------- MODULE H5LogicalTrace ---------------------------
(* Trace specification of the LOGICAL content of an HDF5 file as the write API  *)
(* builds it (property specs C01 C03 C04 C10 C13 C16 and the content half of    *)
(* C19).  The model is a graph: object id -> object, groups carry links         *)
(* name -> id, so hard links (also to groups and ancestors) are aliases of one  *)
(* object.  Every successful call applies the abstract action to the model,     *)
(* every failed call leaves it unchanged, and the observation made after Close  *)
(* and a fresh Open (library reader) must equal the model:                      *)
(*   namespace  - every created path present with the right kind, no other      *)
(*                path than those the links allow, no name twice, hard links     *)
(*                share the object;                                             *)
(*   datasets   - shape, element type, and every typed read returns the written  *)
(*                values (reads the library does not offer for the type must     *)
(*                fail, never return other values);                             *)
(*   attributes - AttrMap semantics per object;                                 *)
(*   resize     - within max succeeds / beyond is rejected, retained elements    *)
(*                keep their values, new space reads zero;                      *)
(*   failures   - an error return changes nothing, nothing panics.              *)
EXTENDS H5Model, TraceCommon, AttrJudge

VARIABLES l, cfg, bad, skip, hs, stats, aliases, sha

tvars == <<l, objs, nid, created, fclosed, cfg, bad, skip, hs, stats, aliases, sha>>

InitStats == [cases |-> 0, ops |-> 0, errs |-> 0, creates |-> 0, writes |-> 0, resizes |-> 0, links |-> 0,
              attrs |-> 0, observes |-> 0, datasets |-> 0, sessions |-> 0]

Init == /\ l = 1 /\ objs = [i \in {Root} |-> Obj("group")] /\ nid = 1 /\ created = {} /\ fclosed = FALSE
        /\ cfg = EmptyFn /\ bad = 0 /\ skip = FALSE /\ hs = EmptyFn /\ stats = InitStats /\ aliases = {} /\ sha = [v |-> "", dirty |-> FALSE]


Collides(n) == /\ n \in DOMAIN hs
               /\ \E m \in DOMAIN hs : m # n /\ hs[m] = hs[n]

RejectItems(e, items) ==
  /\ PrintT(<<"BAD", ToJson([case |-> e.case, at |-> l, cfg |-> cfg, items |-> items])>>)
  /\ bad' = bad + 1
  /\ skip' = TRUE
  /\ UNCHANGED <<objs, nid, created, fclosed, cfg>>
Reject(e, diag, detail) ==
  RejectItems(e, <<[diag |-> diag, detail |-> detail, opname |-> e.op, collides |-> FALSE]>>)

Keep == UNCHANGED <<objs, nid, created, fclosed, cfg, bad, skip>>

-----------------------------------------------------------------------------
(* observation judgement *)
Offered(r, dt) == CASE r = "f64" -> dt.cls \in {0, 1} /\ dt.size \in {4, 8}
                    [] r = "str" -> dt.cls = 3
                    [] r = "cmp" -> dt.cls = 6
\* after a resize the model knows the element values (dig = "vals"), otherwise their digest
\* (the driver lists individual values only for small integer arrays; when it did not, a model that
\* knows values but no digest cannot be compared and the read is not judged)
Differs(exp, got) == got.n # exp.n \/ (IF exp.dig = "vals"
                                        THEN Len(got.vals) = got.n /\ got.vals # exp.vals
                                        ELSE got.dig # exp.dig)
ReadItem(p, r, o, m) ==      \* o: observed dataset record, m: model object
  LET got == o[r]  exp == m.data[r] IN
  IF got.res = "panic" THEN <<[diag |-> "read-panic", p |-> p, read |-> r, dt |-> m.dt]>>
  ELSE IF got.res = "unsupported" THEN <<>>       \* the view that produced the observation cannot decode this storage (filtered chunks in the independent decoder)
  \* never written, but resized: the space Resize added reads as zero - so the read succeeds, returns the whole extent, and
  \* (rank 1, where positions are indices) every element beyond the smallest extent the dataset has had is 0
  ELSE IF ~m.written /\ m.grownbare # <<>> /\ r = "f64" /\ m.dt.cls \in {0, 1} /\ m.dt.size \in {4, 8}
          /\ (\A k \in DOMAIN m.dims : m.dims[k] <= 100000) /\ Prod(m.dims) <= 1000000
       THEN IF got.res # "ok" THEN <<[diag |-> "read-error", p |-> p, read |-> r, dt |-> m.dt, chunked |-> m.chunk # <<>>, neverwritten |-> TRUE]>>
            ELSE IF got.data.n # Prod(m.dims)
                    \/ (Len(m.dims) = 1 /\ Len(got.data.vals) = got.data.n /\ \E i \in (m.grownbare[1] + 1)..got.data.n : got.data.vals[i] # 0)
                 THEN <<[diag |-> "value-mismatch", p |-> p, read |-> r, dt |-> m.dt, chunked |-> m.chunk # <<>>, regrown |-> FALSE, neverwritten |-> TRUE,
                         exp |-> [n |-> Prod(m.dims), dig |-> "zero-beyond", vals |-> m.grownbare], got |-> got.data]>>
                 ELSE <<>>
  ELSE IF ~m.written \/ exp.dig = "unknown" THEN <<>>
  ELSE IF Offered(r, m.dt) /\ exp.dig # "none"
       THEN IF got.res # "ok" THEN <<[diag |-> "read-error", p |-> p, read |-> r, dt |-> m.dt, chunked |-> m.chunk # <<>>]>>
            ELSE IF Differs(exp, got.data)
                 THEN <<[diag |-> "value-mismatch", p |-> p, read |-> r, dt |-> m.dt, chunked |-> m.chunk # <<>>, regrown |-> m.regrown,
                         exp |-> exp, got |-> got.data]>>
                 ELSE <<>>
       ELSE IF got.res = "ok" /\ (exp.dig = "none" \/ Differs(exp, got.data))
            THEN <<[diag |-> "unoffered-read-returned-values", p |-> p, read |-> r, dt |-> m.dt, got |-> got.data]>>
            ELSE <<>>

\* the stored bytes (little-endian elements in row-major order), where the view exposes them and the driver could say what
\* they must be: numbers, enumerations, arrays of numbers, opaque and compound data
RawItem(p, o, m) ==
  IF ~m.written \/ ~Has(m.data, "raw") \/ m.data.raw.dig \in {"none", "unknown"} \/ ~Has(o, "raw") \/ o.raw.res # "ok" THEN <<>>
  ELSE IF o.raw.data.n # m.data.raw.n \/ o.raw.data.dig # m.data.raw.dig
       THEN <<[diag |-> "value-mismatch", p |-> p, read |-> "raw", dt |-> m.dt, chunked |-> m.chunk # <<>>, regrown |-> m.regrown,
               exp |-> m.data.raw, got |-> o.raw.data]>>
       ELSE <<>>

DsItems(p, o, m) ==
  IF o.info # "ok" THEN <<[diag |-> "dataset-info-error", p |-> p]>>
  ELSE (IF o.dims # m.dims THEN <<[diag |-> "shape-mismatch", p |-> p, exp |-> m.dims, got |-> o.dims]>> ELSE <<>>)
    \o (IF o.cls # m.dt.cls \/ o.size # m.dt.size \/ (m.dt.cls = 0 /\ o.sign # m.dt.sign)
        THEN <<[diag |-> "dtype-mismatch", p |-> p, exp |-> m.dt, got |-> [cls |-> o.cls, size |-> o.size, sign |-> o.sign]]>> ELSE <<>>)
    \* what the datatype says beyond class and size (enumeration: member names and values in order), where the view exposes it
    \o (IF Has(m.dt, "detail") /\ m.dt.detail # "" /\ Has(o, "detail") /\ o.detail # "?" /\ o.cls = m.dt.cls /\ o.detail # m.dt.detail
        THEN <<[diag |-> "dtype-detail-mismatch", p |-> p, exp |-> m.dt.detail, got |-> o.detail]>> ELSE <<>>)
    \o (IF o.dims = m.dims THEN ReadItem(p, "f64", o, m) \o ReadItem(p, "str", o, m) \o ReadItem(p, "cmp", o, m) \o RawItem(p, o, m) ELSE <<>>)
    \o (IF o.attrs.res # "ok" THEN <<[diag |-> "attribute-list-error", p |-> p]>>
        ELSE AttrItems(m.attrs, o.attrs.list, Collides, p))

InDegree(id) == Cardinality({<<i, n>> \in UNION {{<<i, n>> : n \in DOMAIN objs[i].links} : i \in DOMAIN objs} :
                              objs[i].links[n] = id})

KindOK(entk, m) ==
  CASE m.k = "group"   -> entk = "group"
    [] m.k = "dataset" -> entk = "dataset"
    [] m.k = "soft"    -> LET tid == Resolve(m.t) IN
                            tid = -1 \/ objs[tid].k \notin {"group", "dataset"} \/ entk = objs[tid].k
    [] OTHER -> TRUE     \* external links: nothing to compare against inside this file

\* Every path of the file (GroupWalk!AllPaths): a hard link resolves to the SAME object as its target, so the members of a
\* group are there under every path that leads to it.  The unfolding stops where a path would enter a group it has passed
\* already; that closing link is still a member of its group and is listed (without members of its own).  Evaluated when
\* few groups have a second link (the unfolding doubles with every such group met in sequence).
RECURSIVE AliasPaths(_, _, _)
AliasPaths(id, pc, seen) ==
  {pc} \cup (IF objs[id].k # "group" THEN {}
             ELSE UNION {LET c == objs[id].links[n] IN
                         IF objs[c].k = "group" /\ c \notin seen /\ Len(pc) < 12
                         THEN AliasPaths(c, Append(pc, n), seen \cup {c}) ELSE {Append(pc, n)} : n \in DOMAIN objs[id].links})
SharedGroups == {i \in DOMAIN objs : objs[i].k = "group" /\ InDegree(i) >= 2}
Required == IF SharedGroups # {} /\ Cardinality(SharedGroups) <= 4 THEN created \cup (AliasPaths(Root, <<>>, {Root}) \ {<<>>}) ELSE created

ObserveItems(e) ==
  IF e.open # "ok" THEN <<[diag |-> "file-does-not-open", detail |-> e.open]>>
  ELSE
    LET T == e.tree
        idx == DOMAIN T
        rid(i) == Resolve(T[i].pc)
        dupP == {i \in idx : \E j \in idx : j < i /\ T[j].pc = T[i].pc}
        miss == {pc \in Required : ~\E i \in idx : T[i].pc = pc}
        extra == {i \in idx : rid(i) = -1}
        hard == {i \in idx : rid(i) # -1 /\ objs[rid(i)].k \in {"group", "dataset"}}
        wrongk == {i \in idx : rid(i) # -1 /\ ~KindOK(T[i].k, objs[rid(i)])}
        ident == {i \in hard : \E j \in hard : j < i /\ ((rid(i) = rid(j)) # (T[i].addr = T[j].addr))}
        dsets == {i \in hard : objs[rid(i)].k = "dataset" /\ T[i].k = "dataset"}
        grps == {i \in hard : objs[rid(i)].k = "group" /\ T[i].k = "group"}
        Cat(S, F(_)) == LET RECURSIVE Go(_)
                            Go(X) == IF X = {} THEN <<>> ELSE LET x == CHOOSE x \in X : TRUE IN F(x) \o Go(X \ {x})
                        IN Go(S)
    IN SetToSeq(dupP, LAMBDA i : [diag |-> "duplicate-path", p |-> T[i].p])
       \o SetToSeq(miss, LAMBDA pc : [diag |-> "missing-path", pc |-> pc,
                                       kind |-> IF Resolve(pc) = -1 THEN "?" ELSE objs[Resolve(pc)].k,
                                       \* is some ancestor group reachable through more than one link, and
                                       \* is the object itself shown under another (alias) path?
                                       aliased |-> \E k \in 1..(Len(pc) - 1) : InDegree(Resolve(SubSeq(pc, 1, k))) >= 2,
                                       elsewhere |-> \E i \in idx : rid(i) = Resolve(pc),
                                       \* is it below a group that was created with dense link storage?
                                       dense |-> \E k \in 1..(Len(pc) - 1) : LET a == Resolve(SubSeq(pc, 1, k)) IN a # -1 /\ objs[a].t = <<"dense">>])
       \o SetToSeq(extra, LAMBDA i : [diag |-> "extra-path", p |-> T[i].p, k |-> T[i].k])
       \o SetToSeq(wrongk, LAMBDA i : [diag |-> "wrong-kind", p |-> T[i].p, got |-> T[i].k, exp |-> objs[rid(i)].k])
       \o SetToSeq(ident, LAMBDA i : [diag |-> "hardlink-identity", p |-> T[i].p])
       \o Cat(dsets, LAMBDA i : IF T[i].p \in DOMAIN e.ds THEN DsItems(T[i].p, e.ds[T[i].p], objs[rid(i)])
                                 ELSE <<[diag |-> "dataset-not-projected", p |-> T[i].p]>>)
       \o Cat(grps, LAMBDA i : IF T[i].p \notin DOMAIN e.gattrs THEN <<>>
                                ELSE IF e.gattrs[T[i].p].res # "ok" THEN <<[diag |-> "attribute-list-error", p |-> T[i].p]>>
                                ELSE AttrItems(objs[rid(i)].attrs, e.gattrs[T[i].p].list, Collides, T[i].p))

-----------------------------------------------------------------------------
\* extent in dimension k when the data was last written (upper bound: lo starts there)
MaxWritten(m, k) == IF m.wdims = <<>> THEN 0 ELSE m.wdims[k]

Bump(f) == stats' = [stats EXCEPT ![f] = @ + 1, !.ops = @ + 1]
BumpErr == stats' = [stats EXCEPT !.errs = @ + 1, !.ops = @ + 1]

\* C16 "later calls behave normally": in cases marked sure (no capacity limit in play) a call that
\* is valid by the model must not be refused
\* (calls under a path that passes through a hard link are excluded: the writer addresses groups by
\* the path they were created with, which is a limitation, not a failure-atomicity defect)
SureOf(e) == Has(e, "sure") /\ e.sure /\ ~fclosed
             /\ ~\E k \in 1..Len(e.pc) : SubSeq(e.pc, 1, k) \in aliases
Refused(e, why) == Reject(e, "valid-call-rejected", why) /\ UNCHANGED stats

Create(e, o) ==          \* mkgroup / mkds / slink / xlink
  IF e.res = "ok"
  THEN IF CreateDefect(e.pc) # ""
       THEN Reject(e, "invalid-create-accepted", CreateDefect(e.pc)) /\ UNCHANGED stats
       ELSE AddObj(e.pc, o) /\ Bump("creates") /\ UNCHANGED <<fclosed, cfg, bad, skip>>
  ELSE IF SureOf(e) /\ CreateDefect(e.pc) = "" THEN Refused(e, e.msg)
  ELSE Keep /\ BumpErr

Step(e) ==
  IF Has(e, "res") /\ e.res = "panic" THEN Reject(e, "panic", e.msg) /\ UNCHANGED stats
  ELSE IF Has(e, "res") /\ e.res = "nohandle" THEN Keep /\ UNCHANGED stats
  ELSE
  CASE e.op = "mkgroup" -> Create(e, Obj("group"))
    [] e.op = "mkds" ->
         Create(e, [Obj("dataset") EXCEPT !.dt = e.dt, !.dims = e.dims, !.max = e.max, !.chunk = e.chunk])
    [] e.op = "slink" -> Create(e, [Obj("soft") EXCEPT !.t = e.tc])
    [] e.op = "xlink" -> Create(e, Obj("ext"))
    [] e.op = "hlink" ->
         IF e.res = "ok"
         THEN IF CreateDefect(e.pc) # "" THEN Reject(e, "invalid-create-accepted", CreateDefect(e.pc)) /\ UNCHANGED stats
              ELSE IF Resolve(e.tc) = -1
              THEN Reject(e, "invalid-create-accepted", "hardlink-target-missing") /\ UNCHANGED stats
              ELSE AddLink(e.pc, Resolve(e.tc)) /\ Bump("links") /\ UNCHANGED <<fclosed, cfg, bad, skip>>
         ELSE IF SureOf(e) /\ CreateDefect(e.pc) = "" /\ Resolve(e.tc) # -1 THEN Refused(e, e.msg)
         ELSE Keep /\ BumpErr
    [] e.op = "mkgroupl" ->      \* group created together with e.nlinks hard links to e.tc: all or nothing
         LET valid == CreateDefect(e.pc) = "" /\ (e.nlinks = 0 \/ Resolve(e.tc) # -1) IN
         IF e.res = "ok"
         THEN IF ~valid THEN Reject(e, "invalid-create-accepted", IF CreateDefect(e.pc) # "" THEN CreateDefect(e.pc) ELSE "hardlink-target-missing") /\ UNCHANGED stats
              ELSE AddObjL(e.pc, [i \in {e.names[k] : k \in 1..e.nlinks} |-> Resolve(e.tc)]) /\ Bump("creates") /\ UNCHANGED <<fclosed, cfg, bad, skip>>
         \* 1..8 links may be refused as not supported; an empty or a dense request that is valid must succeed
         ELSE IF valid /\ ~fclosed /\ e.nlinks \notin 1..8 THEN Reject(e, "valid-call-rejected", [nlinks |-> e.nlinks, msg |-> e.msg,
                                                                                             parentdense |-> ParentOf(e.pc) # -1 /\ objs[ParentOf(e.pc)].t = <<"dense">>]) /\ UNCHANGED stats
         ELSE Keep /\ BumpErr
    [] e.op = "write" ->
         LET id == Resolve(e.pc) IN
         IF e.res = "ok" /\ id # -1 /\ objs[id].k = "dataset"
         THEN /\ objs' = [objs EXCEPT ![id].data = e.exp, ![id].written = TRUE,
                                       ![id].lo = objs[id].dims, ![id].wdims = objs[id].dims, ![id].regrown = FALSE]
              /\ Bump("writes") /\ UNCHANGED <<nid, created, fclosed, cfg, bad, skip>>
         ELSE IF SureOf(e) /\ e.res = "err" /\ id # -1 /\ objs[id].k = "dataset" /\ e.data \notin {"short", "long", "wrongtype"}
         THEN Refused(e, e.msg)
         ELSE Keep /\ BumpErr
    [] e.op = "resize" ->
         LET id == Resolve(e.pc) IN
         IF id = -1 \/ objs[id].k # "dataset" THEN Keep /\ BumpErr
         ELSE LET m == objs[id]
                  resizable == m.chunk # <<>> /\ m.max # <<>>
                  within == Len(e.dims) = Len(m.dims) /\ WithinMax(e.dims, m.max) /\ \A k \in DOMAIN e.dims : e.dims[k] > 0
              IN
              IF e.res = "ok"
              THEN IF ~(resizable /\ within) THEN Reject(e, "resize-beyond-max-accepted", [dims |-> e.dims, max |-> m.max]) /\ UNCHANGED stats
                   ELSE /\ objs' = [objs EXCEPT ![id].dims = e.dims,
                                       ![id].grownbare = IF m.written THEN <<>>
                                                         ELSE [k \in DOMAIN e.dims |-> LET b == IF m.grownbare = <<>> THEN m.dims[k] ELSE m.grownbare[k]
                                                                                      IN IF e.dims[k] < b THEN e.dims[k] ELSE b],
                                       ![id].lo = IF m.lo = <<>> THEN <<>>
                                                  ELSE [k \in DOMAIN e.dims |-> IF e.dims[k] < m.lo[k] THEN e.dims[k] ELSE m.lo[k]],
                                       ![id].regrown = m.regrown \/ (m.lo # <<>> /\ \E k \in DOMAIN e.dims : e.dims[k] > m.lo[k] /\ m.lo[k] < MaxWritten(m, k)),
                                       ![id].data = IF ~m.written THEN m.data
                                                    ELSE IF m.data.f64.n > 0 /\ Len(m.data.f64.vals) = m.data.f64.n
                                                            /\ (\A k \in DOMAIN e.dims : e.dims[k] <= 4096) /\ Prod(e.dims) <= 65536
                                                    THEN [f64 |-> [n |-> Prod(e.dims), dig |-> "vals",
                                                                   vals |-> ResizeVals(m.data.f64.vals, m.dims, e.dims)],
                                                          str |-> NoData, cmp |-> NoData, raw |-> Unknown]
                                                    ELSE [f64 |-> Unknown, str |-> Unknown, cmp |-> Unknown, raw |-> Unknown]]
                        /\ Bump("resizes") /\ UNCHANGED <<nid, created, fclosed, cfg, bad, skip>>
              ELSE IF resizable /\ within /\ ~fclosed
                   THEN Reject(e, "resize-within-max-rejected", [dims |-> e.dims, max |-> m.max, old |-> m.dims]) /\ UNCHANGED stats
                   ELSE Keep /\ BumpErr
    [] e.op = "attr" ->
         LET id == Resolve(e.pc) IN
         IF e.res = "ok" /\ id # -1
         THEN /\ objs' = [objs EXCEPT ![id].attrs = FnPut(@, e.n, e.val)]
              /\ Bump("attrs") /\ UNCHANGED <<nid, created, fclosed, cfg, bad, skip>>
         ELSE IF SureOf(e) /\ e.res = "err" /\ id # -1 /\ e.val.cls # -1 THEN Refused(e, e.msg)
         ELSE Keep /\ BumpErr
    [] e.op = "delattr" ->
         LET id == Resolve(e.pc) IN
         IF e.res = "ok" /\ id # -1
         THEN /\ objs' = [objs EXCEPT ![id].attrs = FnDel(@, e.n)]
              /\ Bump("attrs") /\ UNCHANGED <<nid, created, fclosed, cfg, bad, skip>>
         ELSE IF SureOf(e) /\ e.res = "err" /\ id # -1 /\ e.n \in DOMAIN objs[id].attrs THEN Refused(e, e.msg)
         ELSE Keep /\ BumpErr
    [] e.op = "fclose" ->
         IF e.res = "ok" THEN /\ fclosed' = TRUE /\ UNCHANGED <<objs, nid, created, cfg, bad, skip, stats>>
         ELSE Reject(e, IF fclosed THEN "close-again-failed" ELSE "close-failed", e.msg) /\ UNCHANGED stats
    [] e.op = "session" ->
         IF e.res = "ok" THEN /\ fclosed' = FALSE /\ stats' = [stats EXCEPT !.sessions = @ + 1]
                              /\ UNCHANGED <<objs, nid, created, cfg, bad, skip>>
         ELSE Reject(e, "reopen-for-write-failed", e.msg) /\ UNCHANGED stats
    [] e.op \in {"opends", "dsclose"} -> Keep /\ UNCHANGED stats
    [] e.op = "sha" ->    \* C10: a session that made no modification leaves the file byte-identical
         IF e.res = "ok" /\ sha.v # "" /\ ~sha.dirty /\ e.sha # sha.v
         THEN Reject(e, "noop-session-changed-bytes", "") /\ UNCHANGED stats
         ELSE Keep /\ UNCHANGED stats
    [] e.op = "setup" -> Reject(e, "setup-failed", e.msg) /\ UNCHANGED stats
    [] e.op = "observe" ->
         LET items == ObserveItems(e) IN
         IF items = <<>>
         THEN /\ stats' = [stats EXCEPT !.observes = @ + 1, !.datasets = @ + Cardinality(DOMAIN e.ds)]
              /\ Keep
         ELSE RejectItems(e, items) /\ UNCHANGED stats
    [] e.op = "layout" -> Keep /\ UNCHANGED stats        \* byte layout of the file: judged by C05Trace
    [] e.op = "iolog" -> Keep /\ UNCHANGED stats         \* allocations and writes of the file writer: judged by LayoutTrace
    [] e.op = "fdcheck" ->       \* after all files of the run were closed the process holds no more descriptors than before
         IF e.after > e.before THEN Reject(e, "file-descriptors-leaked", [before |-> e.before, after |-> e.after, cases |-> e.cases]) /\ UNCHANGED stats
         ELSE Keep /\ UNCHANGED stats
    [] OTHER -> Reject(e, "unknown-event", e.op) /\ UNCHANGED stats

\* the model's own consistency (checked on every state of every trace)
ModelOK ==
  /\ \A i \in DOMAIN objs : \A n \in DOMAIN objs[i].links : objs[i].links[n] \in DOMAIN objs
  /\ \A pc \in created : Resolve(pc) # -1

Consume ==
  /\ l <= Len(Trace)
  /\ l' = l + 1
  /\ LET e == Trace[l] IN
       IF e.op = "reset"
       THEN /\ objs' = [i \in {Root} |-> Obj("group")] /\ nid' = 1 /\ created' = {} /\ fclosed' = FALSE
            /\ cfg' = e.cfg /\ skip' = FALSE /\ bad' = bad /\ hs' = EmptyFn /\ aliases' = {} /\ sha' = [v |-> "", dirty |-> FALSE]
            /\ stats' = [stats EXCEPT !.cases = @ + 1]
       ELSE IF skip THEN UNCHANGED <<objs, nid, created, fclosed, cfg, bad, skip, hs, stats, aliases, sha>>
       ELSE /\ Step(e)
            /\ sha' = IF e.op = "sha" /\ e.res = "ok" THEN [v |-> e.sha, dirty |-> FALSE]
                      ELSE IF e.op \in {"mkgroup", "mkds", "slink", "xlink", "hlink", "write", "resize", "attr", "delattr"}
                              /\ Has(e, "res") /\ e.res = "ok" THEN [sha EXCEPT !.dirty = TRUE]
                      ELSE sha
            /\ aliases' = IF e.op \in {"hlink", "slink", "xlink"} /\ Has(e, "res") /\ e.res = "ok" THEN aliases \cup {e.pc} ELSE aliases
            /\ hs' = IF e.op \in {"attr", "delattr"} /\ Has(e, "h") THEN FnPut(hs, e.n, e.h) ELSE hs

Spec == Init /\ [][Consume]_tvars

Verdict == l = Len(Trace) + 1 =>
             PrintT(<<"VERDICT", ToJson([bad |-> bad, stats |-> stats, events |-> Len(Trace)])>>)
=============================================================================

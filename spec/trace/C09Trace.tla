------------------------------ MODULE C09Trace ------------------------------
(* Trace specification for C09: every partial read the driver performed on the    *)
(* real library is judged with the Hyperslab operators: a valid selection must     *)
(* return exactly Expected(dims, sel) (element value = linear index), an invalid   *)
(* one must be refused; the chunk iterator must visit every chunk exactly once     *)
(* and each piece must be the row-major content of its (clipped) region.           *)
EXTENDS TraceCommon, Hyperslab

VARIABLES l, cfg, bad, skip, stats
tvars == <<l, cfg, bad, skip, stats>>
Init == /\ l = 1 /\ cfg = EmptyFn /\ bad = 0 /\ skip = FALSE
        /\ stats = [cases |-> 0, sels |-> 0, valid |-> 0, invalid |-> 0, multichunk |-> 0, iters |-> 0, chunks |-> 0]

RejectItems(e, items) ==
  /\ PrintT(<<"BAD", ToJson([case |-> e.case, at |-> l, cfg |-> cfg, items |-> items])>>)
  /\ bad' = bad + 1 /\ UNCHANGED <<cfg, skip>>       \* selections are independent: the case is not skipped

Ceil(a, b) == (a + b - 1) \div b
NChunks == [k \in 1..Len(cfg.dims) |-> Ceil(cfg.dims[k], cfg.chunk[k])]
MaxN == CHOOSE m \in {NChunks[k] : k \in 1..Len(cfg.dims)} : \A k \in 1..Len(cfg.dims) : NChunks[k] <= m
ChunkCoordsAll == {cc \in [1..Len(cfg.dims) -> 0..(MaxN - 1)] : \A k \in 1..Len(cfg.dims) : cc[k] < NChunks[k]}
RegionSel(cc) == [k \in 1..Len(cfg.dims) |->
                    [start |-> cc[k] * cfg.chunk[k], stride |-> 1, block |-> 1,
                     count |-> IF (cc[k] + 1) * cfg.chunk[k] > cfg.dims[k] THEN cfg.dims[k] - cc[k] * cfg.chunk[k] ELSE cfg.chunk[k]]]
\* does the selection touch more than one chunk in some dimension?
SpansChunks(sel) == cfg.chunked /\ \E k \in 1..Len(sel) :
                      sel[k].start \div cfg.chunk[k] # (sel[k].start + (sel[k].count - 1) * sel[k].stride + sel[k].block - 1) \div cfg.chunk[k]

Step(e) ==
  CASE e.op = "sel" ->
         LET valid == SelValid(cfg.dims, e.sel)
             proper == SelProper(e.sel)
             path == PathOf(cfg.dims, e.sel, cfg.chunked)
             strided == \E k \in 1..Len(e.sel) : e.sel[k].stride # 1 \/ e.sel[k].block # 1
             info == [path |-> path, api |-> e.api, rank |-> Len(cfg.dims), strided |-> strided, spans |-> SpansChunks(e.sel), sel |-> e.sel]
         IN
         IF e.res = "panic" THEN RejectItems(e, <<[diag |-> "panic", msg |-> e.msg] @@ info>>) /\ UNCHANGED stats
         ELSE IF \E k \in 1..Len(e.sel) : e.sel[k].count = 0       \* an empty selection: an error or an empty result
         THEN IF e.res = "ok" /\ e.vals # <<>>
              THEN RejectItems(e, <<[diag |-> "empty-selection-returned-elements", n |-> Len(e.vals)] @@ info>>) /\ UNCHANGED stats
              ELSE /\ stats' = [stats EXCEPT !.sels = @ + 1] /\ UNCHANGED <<cfg, bad, skip>>
         ELSE IF ~valid
         THEN IF e.res = "ok"
              THEN RejectItems(e, <<[diag |-> "invalid-selection-accepted", n |-> Len(e.vals)] @@ info>>) /\ UNCHANGED stats
              ELSE /\ stats' = [stats EXCEPT !.sels = @ + 1, !.invalid = @ + 1] /\ UNCHANGED <<cfg, bad, skip>>
         ELSE IF ~proper THEN UNCHANGED <<cfg, bad, skip, stats>>        \* overlapping blocks: not a selection, not judged
         ELSE IF e.res # "ok" THEN RejectItems(e, <<[diag |-> "valid-selection-refused", msg |-> e.msg] @@ info>>) /\ UNCHANGED stats
         ELSE IF e.vals # ExpectedVals(cfg.dims, cfg.wdims, e.sel)
         THEN RejectItems(e, <<[diag |-> "partial-read-differs-from-full-read", got |-> e.vals, exp |-> ExpectedVals(cfg.dims, cfg.wdims, e.sel), resized |-> cfg.wdims # cfg.dims] @@ info>>) /\ UNCHANGED stats
         ELSE /\ stats' = [stats EXCEPT !.sels = @ + 1, !.valid = @ + 1, !.multichunk = @ + (IF SpansChunks(e.sel) THEN 1 ELSE 0)]
              /\ UNCHANGED <<cfg, bad, skip>>
    [] e.op = "bigsel" ->      \* a start, count, stride or block near 2^64 (first dimension): the selection leaves every dataset
         IF e.res = "panic" THEN RejectItems(e, <<[diag |-> "panic", msg |-> e.msg, which |-> e.which, val |-> e.val, api |-> e.api, overflow |-> TRUE]>>) /\ UNCHANGED stats
         ELSE IF e.res = "ok"
         THEN RejectItems(e, <<[diag |-> "invalid-selection-accepted", n |-> e.n, which |-> e.which, val |-> e.val, api |-> e.api, overflow |-> TRUE]>>) /\ UNCHANGED stats
         ELSE /\ stats' = [stats EXCEPT !.sels = @ + 1, !.invalid = @ + 1] /\ UNCHANGED <<cfg, bad, skip>>
    [] e.op = "full" ->
         IF e.res = "ok" /\ e.identity THEN UNCHANGED <<cfg, bad, skip, stats>>
         ELSE /\ PrintT(<<"BAD", ToJson([case |-> e.case, at |-> l, cfg |-> cfg, items |-> <<[diag |-> "full-read-wrong", res |-> e.res, resized |-> cfg.wdims # cfg.dims]>>])>>)
              /\ bad' = bad + 1 /\ skip' = TRUE /\ UNCHANGED <<cfg, stats>>
    [] e.op = "iter" ->
         LET V == e.visited
             seen == {V[i].coords : i \in DOMAIN V}
             items == (IF e.res # "ok" THEN <<[diag |-> "chunk-iterator-failed", msg |-> e.msg]>> ELSE <<>>)
                      \o (IF e.res = "ok" /\ (Len(V) # Cardinality(seen) \/ seen # ChunkCoordsAll)
                          THEN <<[diag |-> "chunk-iterator-does-not-visit-each-chunk-once", visited |-> Len(V), chunks |-> Cardinality(ChunkCoordsAll)]>> ELSE <<>>)
                      \o (IF e.res = "ok" /\ \E i \in DOMAIN V : V[i].coords \in ChunkCoordsAll /\ V[i].vals # ExpectedVals(cfg.dims, cfg.wdims, RegionSel(V[i].coords))
                          THEN <<[diag |-> "chunk-piece-differs-from-full-read"]>> ELSE <<>>)
         IN IF items # <<>> THEN RejectItems(e, items) /\ UNCHANGED stats
            ELSE /\ stats' = [stats EXCEPT !.iters = @ + 1, !.chunks = @ + Len(V)] /\ UNCHANGED <<cfg, bad, skip>>
    [] e.op = "setup" ->
         /\ PrintT(<<"BAD", ToJson([case |-> e.case, at |-> l, cfg |-> cfg, items |-> <<[diag |-> "setup-failed", msg |-> e.msg]>>])>>)
         /\ bad' = bad + 1 /\ skip' = TRUE /\ UNCHANGED <<cfg, stats>>
    [] OTHER -> UNCHANGED <<cfg, bad, skip, stats>>

Consume ==
  /\ l <= Len(Trace) /\ l' = l + 1
  /\ LET e == Trace[l] IN
       IF e.op = "reset" THEN /\ cfg' = e.cfg /\ skip' = FALSE /\ bad' = bad /\ stats' = [stats EXCEPT !.cases = @ + 1]
       ELSE IF skip THEN UNCHANGED <<cfg, bad, skip, stats>>
       ELSE Step(e)
Spec == Init /\ [][Consume]_tvars
Verdict == l = Len(Trace) + 1 =>
             PrintT(<<"VERDICT", ToJson([bad |-> bad, stats |-> stats, events |-> Len(Trace)])>>)
=============================================================================

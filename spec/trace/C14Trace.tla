------------------------------ MODULE C14Trace ------------------------------
(* Trace specification for C14: every call made on the real B-tree v2 name      *)
(* index is mapped to the KVIndex action it must implement, and the full         *)
(* projection logged after the call (records, header counters, lookups) is       *)
(* compared with the model map.  Hash events compare the library's name hash     *)
(* with the independent lookup3.                                                *)
EXTENDS TraceCommon, Integers

VARIABLES l, kv, snap, cfg, hs, bad, skip, stats, dupins
tvars == <<l, kv, snap, cfg, hs, bad, skip, stats, dupins>>

NoSnap == [none |-> TRUE]
Init == /\ l = 1 /\ kv = EmptyFn /\ snap = NoSnap /\ cfg = EmptyFn /\ hs = EmptyFn /\ bad = 0 /\ skip = FALSE /\ dupins = FALSE
        /\ stats = [cases |-> 0, ins |-> 0, upd |-> 0, del |-> 0, errs |-> 0, writes |-> 0, loads |-> 0,
                    full |-> 0, hashes |-> 0, lookups |-> 0]

Collides(n) == n \in DOMAIN hs /\ \E m \in DOMAIN hs : m # n /\ hs[m] = hs[n]
RejectItems(e, items) ==
  /\ PrintT(<<"BAD", ToJson([case |-> e.case, at |-> l, cfg |-> cfg, items |-> items])>>)
  /\ bad' = bad + 1 /\ skip' = TRUE /\ UNCHANGED <<kv, snap, cfg>>
\* dupins: an insert of a name that was already present has been accepted earlier in this case
Item(diag, e, n) == [diag |-> diag, opname |-> e.op, n |-> n, collides |-> Collides(n),
                     dupins |-> dupins \/ (e.op = "ins" /\ e.res = "ok" /\ e.n \in DOMAIN kv)]

\* the model map after the call, by KVIndex; <<map, defect>> where defect # "" means the outcome is not allowed
After(e) ==
  CASE e.op = "ins" ->
         IF e.res = "ok"
         THEN IF e.n \notin DOMAIN kv /\ Cardinality(DOMAIN kv) >= cfg.cap
              THEN <<kv, "insert-beyond-capacity-accepted">>
              ELSE <<FnPut(kv, e.n, e.v), "">>         \* KVIndex!Insert (an accepted insert of a present name must act as an upsert)
         ELSE <<kv, "">>                               \* KVIndex!Refused
    [] e.op = "upd" ->
         IF e.res = "ok"
         THEN IF e.n \in DOMAIN kv THEN <<FnPut(kv, e.n, e.v), "">> ELSE <<kv, "update-of-absent-name-accepted">>
         ELSE <<kv, "">>
    [] e.op = "del" ->
         IF e.res = "ok"
         THEN IF e.n \in DOMAIN kv THEN <<FnDel(kv, e.n), "">> ELSE <<kv, "delete-of-absent-name-accepted">>
         ELSE <<kv, "">>
    [] OTHER -> <<kv, "">>

\* judgement of the projection against a model map m
SeqToBag(s) == [x \in {s[i] : i \in DOMAIN s} |-> Cardinality({i \in DOMAIN s : s[i] = x})]
ModelBag(m) == LET pairs == {<<hs[n], m[n]>> : n \in DOMAIN m}
               IN [x \in pairs |-> Cardinality({n \in DOMAIN m : <<hs[n], m[n]>> = x})]
\* records carry the 32-bit hash as hex text and as two 16-bit halves (TLC integers are 32-bit signed)
HashGt(r1, r2) == r1[3] > r2[3] \/ (r1[3] = r2[3] /\ r1[4] > r2[4])
ProjItems(e, m) ==
  (IF e.proj # "ok" THEN <<Item("projection-panic", e, e.n)>> ELSE <<>>)
  \o (IF ~e.sorted \/ \E i \in DOMAIN e.recs : i > 1 /\ HashGt(e.recs[i - 1], e.recs[i])
      THEN <<Item("records-not-sorted-by-hash", e, e.n)>> ELSE <<>>)
  \o (IF e.nroot # e.nrecs \/ e.total # e.nrecs THEN <<Item("header-counts-differ-from-records", e, e.n)>> ELSE <<>>)
  \o (IF e.nrecs # Cardinality(DOMAIN m) THEN <<Item("record-count-differs-from-live-keys", e, e.n)>> ELSE <<>>)
  \o (IF e.nrecs <= 40 /\ e.nrecs = Cardinality(DOMAIN m) /\ (\A n \in DOMAIN m : n \in DOMAIN hs)
         /\ SeqToBag([i \in DOMAIN e.recs |-> <<e.recs[i][1], e.recs[i][2]>>]) # ModelBag(m)
      THEN <<Item("records-differ-from-live-keys", e, e.n)>> ELSE <<>>)
  \o LET wrong == {n \in DOMAIN e.find :
                     \/ e.find[n].found # (n \in DOMAIN m)
                     \/ e.find[n].has # (n \in DOMAIN m)
                     \/ (n \in DOMAIN m /\ e.find[n].found /\ e.find[n].id # m[n])}
         RECURSIVE Go(_)
         Go(S) == IF S = {} THEN <<>> ELSE LET n == CHOOSE n \in S : TRUE IN
                    <<[diag |-> IF n \in DOMAIN m THEN "lookup-wrong-for-present-name" ELSE "lookup-finds-absent-name",
                       opname |-> e.op, n |-> n,
                       collides |-> \E k \in DOMAIN e.find : k # n /\ e.find[k].h = e.find[n].h]>> \o Go(S \ {n})
     IN Go(wrong)

Step(e) ==
  IF e.op = "hash"
  THEN IF e.lib = e.ind THEN /\ stats' = [stats EXCEPT !.hashes = @ + 1] /\ UNCHANGED <<kv, snap, cfg, bad, skip>>
       ELSE RejectItems(e, <<[diag |-> "hash-differs-from-lookup3", len |-> e.len, mod12 |-> e.len % 12, key |-> e.key,
                               lib |-> e.lib, ind |-> e.ind, collides |-> FALSE]>>) /\ UNCHANGED stats
  ELSE IF e.op = "hashsum" THEN UNCHANGED <<kv, snap, cfg, bad, skip, stats>>
  ELSE IF e.op = "setup" THEN RejectItems(e, <<Item("setup-failed", e, "")>>) /\ UNCHANGED stats
  ELSE IF e.res = "panic" THEN RejectItems(e, <<Item("panic", e, e.n)>>) /\ UNCHANGED stats
  ELSE IF e.res = "nohandle" THEN UNCHANGED <<kv, snap, cfg, bad, skip, stats>>
  ELSE
    LET a == After(e)
        m == IF e.op = "load" /\ e.res = "ok" /\ snap # NoSnap THEN snap ELSE a[1]
        items == (IF a[2] # "" THEN <<Item(a[2], e, e.n)>> ELSE <<>>)
                 \o (IF e.op \in {"write", "load", "rebalance"} /\ e.res # "ok" THEN <<Item(e.op \o "-failed", e, "")>> ELSE <<>>)
                 \o ProjItems(e, m)
    IN IF items # <<>> THEN RejectItems(e, items) /\ UNCHANGED stats
       ELSE /\ kv' = m
            /\ snap' = IF e.op = "write" /\ e.res = "ok" THEN kv ELSE snap          \* KVIndex!WriteOut
            /\ stats' = [stats EXCEPT !.ins = @ + (IF e.op = "ins" /\ e.res = "ok" THEN 1 ELSE 0),
                                      !.upd = @ + (IF e.op = "upd" /\ e.res = "ok" THEN 1 ELSE 0),
                                      !.del = @ + (IF e.op = "del" /\ e.res = "ok" THEN 1 ELSE 0),
                                      !.errs = @ + (IF e.res = "err" THEN 1 ELSE 0),
                                      !.full = @ + (IF e.op = "ins" /\ e.res = "err" /\ Cardinality(DOMAIN kv) >= cfg.cap THEN 1 ELSE 0),
                                      !.writes = @ + (IF e.op = "write" THEN 1 ELSE 0),
                                      !.loads = @ + (IF e.op = "load" THEN 1 ELSE 0),
                                      !.lookups = @ + Cardinality(DOMAIN e.find)]
            /\ UNCHANGED <<cfg, bad, skip>>

Consume ==
  /\ l <= Len(Trace) /\ l' = l + 1
  /\ LET e == Trace[l] IN
       IF e.op = "reset"
       THEN /\ kv' = EmptyFn /\ snap' = NoSnap /\ cfg' = e.cfg /\ hs' = EmptyFn /\ skip' = FALSE /\ bad' = bad /\ dupins' = FALSE
            /\ stats' = [stats EXCEPT !.cases = @ + 1]
       ELSE IF skip THEN UNCHANGED <<kv, snap, cfg, hs, bad, skip, stats, dupins>>
       ELSE /\ hs' = IF Has(e, "h") /\ e.n # "" THEN FnPut(hs, e.n, e.h) ELSE hs
            /\ Step(e)
            /\ dupins' = (dupins \/ (e.op = "ins" /\ Has(e, "res") /\ e.res = "ok" /\ e.n \in DOMAIN kv))

Spec == Init /\ [][Consume]_tvars
Verdict == l = Len(Trace) + 1 =>
             PrintT(<<"VERDICT", ToJson([bad |-> bad, stats |-> stats, events |-> Len(Trace)])>>)
=============================================================================

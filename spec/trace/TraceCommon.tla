---------------------------- MODULE TraceCommon ----------------------------
(* Shared plumbing of all trace specifications (binding T).  The trace is an    *)
(* ndjson file named by the environment variable H5V_TRACE; every line is one   *)
(* event with fields "case" and "op".  Trace specifications judge and continue: *)
(* a rejected case is appended to `bad` with a spec-computed diagnosis and the  *)
(* rest of that case is skipped; the next "reset" event starts a new case.      *)
EXTENDS Naturals, Sequences, FiniteSets, TLC, Json, IOUtils, Fn

Trace == ndJsonDeserialize(IOEnv.H5V_TRACE)

Has(r, f) == f \in DOMAIN r
SeqRange(s) == {s[i] : i \in DOMAIN s}
=============================================================================

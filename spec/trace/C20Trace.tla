------------------------------ MODULE C20Trace ------------------------------
(* Trace specification for C20.  The Go sweep compared every conversion with the *)
(* MiniFloat tables; here TLC re-judges the logged conversions (all mismatching   *)
(* examples and a sample of matching ones) with MiniFloat's own operators, and    *)
(* turns the per-class mismatch counts into failing items.                        *)
EXTENDS TraceCommon, MiniFloat

VARIABLES l, bad, stats
tvars == <<l, bad, stats>>
Init == l = 1 /\ bad = 0 /\ stats = [cases |-> 0, convs |-> 0, rejudged |-> 0, classes |-> 0, evaluated |-> 0]

FmtOf(n) == IF n = "e4m3" THEN E4M3 ELSE E5M2
\* expected result of float32 -> code for the logged input, from MiniFloat (-1 = any NaN code)
Expected(e) ==
  LET shi == e.inhi \div 32768          \* sign bit
      mhi == e.inhi % 32768
      mag == mhi * 65536 + e.inlo
  IN IF e.fmt = "bf16"
     THEN IF BFIsNaNIn(mhi, e.inlo) THEN -1 ELSE shi * 32768 + BFRound(mhi, e.inlo)
     ELSE LET f == FmtOf(e.fmt) IN
          IF mag > 2139095040 THEN -1
          ELSE IF mag = 2139095040 THEN shi * 128 + InfCode(f)
          ELSE IF mag = 0 THEN shi * 128
          ELSE shi * 128 + RoundRef(f, mag)

Rejudge(e) == e.f2c      \* the event is a float32 -> code conversion (not a code round trip or byte encoding)

Step(e) ==
  CASE e.op = "conv" ->
         IF Rejudge(e) /\ Expected(e) # e.exp
         THEN /\ PrintT(<<"BAD", ToJson([case |-> e.case, at |-> l, cfg |-> [x |-> 0],
                            items |-> <<[diag |-> "driver-table-lookup-disagrees-with-MiniFloat", fmt |-> e.fmt, class |-> e.class,
                                         input |-> e.in, drv |-> e.exp, spec |-> Expected(e)]>>])>>)
              /\ bad' = bad + 1 /\ UNCHANGED stats
         ELSE /\ stats' = [stats EXCEPT !.convs = @ + 1, !.rejudged = @ + (IF Rejudge(e) THEN 1 ELSE 0)]
              /\ UNCHANGED bad
    [] e.op = "sum" ->
         IF e.mismatches > 0
         THEN /\ PrintT(<<"BAD", ToJson([case |-> e.case, at |-> l, cfg |-> [x |-> 0],
                            \* one item per way in which results of this class are wrong
                            items |-> [i \in DOMAIN e.hows |->
                                        [diag |-> "conversion-differs-from-reference", fmt |-> e.fmt, class |-> e.class, how |-> e.hows[i].how,
                                         mismatches |-> e.hows[i].n, evaluated |-> e.evaluated]]])>>)
              /\ bad' = bad + 1 /\ stats' = [stats EXCEPT !.classes = @ + 1]
         ELSE /\ stats' = [stats EXCEPT !.classes = @ + 1] /\ UNCHANGED bad
    [] OTHER -> stats' = [stats EXCEPT !.cases = @ + 1] /\ UNCHANGED bad

Consume == /\ l <= Len(Trace) /\ l' = l + 1 /\ Step(Trace[l])
Spec == Init /\ [][Consume]_tvars
Verdict == l = Len(Trace) + 1 =>
             PrintT(<<"VERDICT", ToJson([bad |-> bad, stats |-> stats, events |-> Len(Trace)])>>)
=============================================================================

---------------------------- MODULE LayoutTrace ----------------------------
(* Trace specification for the I/O log of a replayed history: every allocation  *)
(* and every write the library's low-level file writer performed (recorded by   *)
(* the tag-guarded hook in internal/writer) is checked against the discipline    *)
(* of Layout.tla - Owned, Disjoint, Monotone, Quiet.  One "iolog" event per      *)
(* case carries the whole log; it is folded event by event.                      *)
EXTENDS TraceCommon, Integers

VARIABLES l, cfg, bad, stats
tvars == <<l, cfg, bad, stats>>
Init == /\ l = 1 /\ cfg = EmptyFn /\ bad = 0
        /\ stats = [cases |-> 0, logs |-> 0, allocs |-> 0, writes |-> 0, sessions |-> 0, inplace |-> 0, toolong |-> 0]

\* fold state: base, eoa, blocks (sequence of <<start, end>> in allocation order), open, items, counters
\* pend: bytes written beyond the end of allocated space and not yet covered by an allocation, as <<lo, hi>> (<<0, 0>> = none).
\* The version 0 root structures are written first and reserved by one allocation afterwards: admissible as long as the
\* very next allocation covers everything that was written ahead of it.
S0 == [base |-> 0, eoa |-> 0, blocks |-> <<>>, open |-> FALSE, items |-> <<>>, na |-> 0, nw |-> 0, ns |-> 0, nip |-> 0, pend |-> <<0, 0>>]
Add(s, it) == IF Len(s.items) >= 4 THEN s ELSE [s EXCEPT !.items = Append(@, it)]
Min(a, b) == IF a < b THEN a ELSE b
Max(a, b) == IF a > b THEN a ELSE b
Uncovered(s, k) == IF s.pend = <<0, 0>> THEN s
                   ELSE [Add(s, [diag |-> "write-to-unallocated-space", at |-> k, addr |-> s.pend[1], len |-> s.pend[2] - s.pend[1],
                                 base |-> s.base, eoa |-> s.eoa]) EXCEPT !.pend = <<0, 0>>]
\* the block a write starts in: searched from the most recent one
RECURSIVE Find(_, _, _)
Find(bs, a, i) == IF i = 0 THEN 0 ELSE IF bs[i][1] <= a /\ a < bs[i][2] THEN i ELSE Find(bs, a, i - 1)

Apply(s, e, k) ==
  CASE e.k \in {"c", "o"} ->
         \* a session begins: the allocator starts at e.a; what lies below it is there already (the superblock; the old file)
         LET t == IF e.k = "o" /\ e.a < s.eoa
                  THEN Add(s, [diag |-> "session-allocates-inside-earlier-space", at |-> k, start |-> e.a, eoa |-> s.eoa]) ELSE s
         IN [Uncovered(t, k) EXCEPT !.base = e.a, !.eoa = e.a, !.blocks = <<>>, !.open = TRUE, !.ns = @ + 1]
    [] e.k = "a" ->
         LET t == IF ~s.open THEN Add(s, [diag |-> "allocation-after-close", at |-> k, addr |-> e.a])
                  ELSE IF e.a < s.eoa THEN Add(s, [diag |-> "allocation-overlaps-allocated-space", at |-> k, addr |-> e.a, eoa |-> s.eoa])
                  ELSE s
             u == IF t.pend # <<0, 0>> /\ e.a <= t.pend[1] /\ t.pend[2] <= e.a + e.n THEN [t EXCEPT !.pend = <<0, 0>>] ELSE Uncovered(t, k)
         IN [u EXCEPT !.blocks = Append(@, <<e.a, e.a + e.n>>), !.eoa = IF e.a + e.n > @ THEN e.a + e.n ELSE @, !.na = @ + 1]
    [] e.k = "w" ->
         IF ~s.open THEN Add(s, [diag |-> "write-after-close", at |-> k, addr |-> e.a])
         ELSE IF e.a + e.n <= s.base THEN [s EXCEPT !.nw = @ + 1, !.nip = @ + 1]            \* in place, in what was there before
         ELSE LET i == Find(s.blocks, e.a, Len(s.blocks)) IN
              IF i = 0 /\ e.a >= s.eoa        \* ahead of the allocator: must be covered by the next allocation
              THEN [s EXCEPT !.nw = @ + 1, !.pend = IF @ = <<0, 0>> THEN <<e.a, e.a + e.n>> ELSE <<Min(@[1], e.a), Max(@[2], e.a + e.n)>>]
              ELSE IF i = 0
              THEN Add([s EXCEPT !.nw = @ + 1],
                       [diag |-> IF e.a < s.base THEN "write-runs-out-of-the-old-region" ELSE "write-to-unallocated-space",
                        at |-> k, addr |-> e.a, len |-> e.n, base |-> s.base, eoa |-> s.eoa])
              ELSE IF e.a + e.n > s.blocks[i][2]
              THEN Add([s EXCEPT !.nw = @ + 1],
                       [diag |-> "write-runs-past-the-end-of-its-block", at |-> k, addr |-> e.a, len |-> e.n,
                        blockstart |-> s.blocks[i][1], blocklen |-> s.blocks[i][2] - s.blocks[i][1],
                        over |-> e.a + e.n - s.blocks[i][2], intonext |-> i < Len(s.blocks)])
              ELSE [s EXCEPT !.nw = @ + 1]
    [] e.k = "x" -> [Uncovered(s, k) EXCEPT !.open = FALSE]
    [] OTHER -> s

RECURSIVE Fold(_, _, _)
Fold(s, evs, k) == IF k > Len(evs) THEN s ELSE Fold(Apply(s, evs[k], k), evs, k + 1)

Step(e) ==
  IF e.op # "iolog" THEN UNCHANGED <<cfg, bad, stats>>
  ELSE IF e.toolong THEN /\ stats' = [stats EXCEPT !.toolong = @ + 1] /\ UNCHANGED <<cfg, bad>>
  ELSE LET r == Fold(S0, e.evs, 1) IN
       IF r.items # <<>>
       THEN /\ PrintT(<<"BAD", ToJson([case |-> e.case, at |-> l, cfg |-> cfg, items |-> r.items])>>)
            /\ bad' = bad + 1 /\ UNCHANGED <<cfg, stats>>
       ELSE /\ stats' = [stats EXCEPT !.logs = @ + 1, !.allocs = @ + r.na, !.writes = @ + r.nw, !.sessions = @ + r.ns, !.inplace = @ + r.nip]
            /\ UNCHANGED <<cfg, bad>>

Consume ==
  /\ l <= Len(Trace) /\ l' = l + 1
  /\ LET e == Trace[l] IN
       IF e.op = "reset" THEN /\ cfg' = e.cfg /\ bad' = bad /\ stats' = [stats EXCEPT !.cases = @ + 1]
       ELSE Step(e)
Spec == Init /\ [][Consume]_tvars
Verdict == l = Len(Trace) + 1 =>
             PrintT(<<"VERDICT", ToJson([bad |-> bad, stats |-> stats, events |-> Len(Trace)])>>)
=============================================================================

------------------------------ MODULE C15Trace ------------------------------
(* Trace specification for C15: each call on the real fractal heap is mapped to   *)
(* the BlobStore action it must implement (objects are named by the number of     *)
(* the insert that created them), and after every call the reads of all objects   *)
(* and the header accounting are compared with the model.                         *)
EXTENDS TraceCommon, Integers

VARIABLES l, live, gone, snap, cfg, f0, bad, skip, stats
\* live: insert number -> [data, off, len, id]; gone: insert numbers deleted (or never stored);
\* snap: [live, gone] as last written out; f0: free space + live bytes (must stay constant)
tvars == <<l, live, gone, snap, cfg, f0, bad, skip, stats>>
NoSnap == [none |-> TRUE]

Init == /\ l = 1 /\ live = EmptyFn /\ gone = {} /\ snap = NoSnap /\ cfg = EmptyFn /\ f0 = -1 /\ bad = 0 /\ skip = FALSE
        /\ stats = [cases |-> 0, ins |-> 0, ovw |-> 0, del |-> 0, errs |-> 0, writes |-> 0, loads |-> 0, gets |-> 0, nofit |-> 0]

RejectItems(e, items) ==
  /\ PrintT(<<"BAD", ToJson([case |-> e.case, at |-> l, cfg |-> cfg, items |-> items])>>)
  /\ bad' = bad + 1 /\ skip' = TRUE /\ UNCHANGED <<live, gone, snap, cfg, f0>>

SumLen(m) == LET RECURSIVE S(_) S(D) == IF D = {} THEN 0 ELSE LET k == CHOOSE k \in D : TRUE IN m[k].len + S(D \ {k}) IN S(DOMAIN m)
Key(i) == ToString(i)

\* the model after the call (BlobStore): <<live, gone, defect>>
After(e) ==
  CASE e.op = "ins" ->
         IF e.res = "ok" THEN <<FnPut(live, e.i, [data |-> e.data, off |-> e.off, len |-> e.idlen, id |-> e.id]), gone, "">>   \* Put
         ELSE <<live, gone \cup {e.i}, "">>                                                                           \* Refused
    [] e.op = "ovw" ->
         IF e.res = "ok"
         THEN IF e.i \notin DOMAIN live THEN <<live, gone, "">>      \* overwriting a dead id: not a call the property speaks about
              ELSE IF e.len # live[e.i].len THEN <<live, gone, "overwrite-with-other-size-accepted">>
              ELSE <<[live EXCEPT ![e.i].data = e.data], gone, "">>                                                   \* Overwrite
         ELSE <<live, gone, "">>
    [] e.op = "del" ->
         IF e.res = "ok"
         THEN IF e.i \in DOMAIN live THEN <<FnDel(live, e.i), gone \cup {e.i}, "">> ELSE <<live, gone, "delete-of-dead-object-accepted">>
         ELSE <<live, gone, "">>
    [] OTHER -> <<live, gone, "">>

ProjItems(e, m, g, fz) ==
  (IF e.proj # "ok" THEN <<[diag |-> "projection-panic", opname |-> e.op]>> ELSE <<>>)
  \o (IF e.nobjs # Cardinality(DOMAIN m) THEN <<[diag |-> "object-count-differs", opname |-> e.op, indirect |-> e.indirect,
                                                 got |-> e.nobjs, exp |-> Cardinality(DOMAIN m)]>> ELSE <<>>)
  \* header accounting: free space + bytes of live objects = managed space reported by the header
  \o (IF e.free + SumLen(m) # e.managed THEN <<[diag |-> "free-space-accounting", opname |-> e.op, indirect |-> e.indirect,
                                                   free |-> e.free, livebytes |-> SumLen(m), managed |-> e.managed]>> ELSE <<>>)
  \o (IF \E i, j \in DOMAIN m : i # j /\ m[i].id = m[j].id THEN <<[diag |-> "ids-not-distinct", opname |-> e.op, indirect |-> e.indirect]>> ELSE <<>>)
  \o (IF \E i, j \in DOMAIN m : i # j /\ ~(m[i].off + m[i].len <= m[j].off \/ m[j].off + m[j].len <= m[i].off)
      THEN <<[diag |-> "ranges-overlap", opname |-> e.op, indirect |-> e.indirect]>> ELSE <<>>)
  \o LET wrong == {i \in DOMAIN m : Key(i) \notin DOMAIN e.get \/ e.get[Key(i)].res # "ok" \/ e.get[Key(i)].data # m[i].data}
         RECURSIVE Go(_)
         Go(S) == IF S = {} THEN <<>> ELSE LET i == CHOOSE i \in S : TRUE IN
                    <<[diag |-> IF Key(i) \in DOMAIN e.get /\ e.get[Key(i)].res = "ok" THEN "get-returns-other-bytes" ELSE "get-fails-for-live-object",
                       opname |-> e.op, obj |-> i, off |-> m[i].off, len |-> m[i].len, block |-> cfg.block, indirect |-> e.indirect,
                       afterload |-> e.op = "load",
                       beyondroom |-> m[i].off + m[i].len > cfg.block - 19]>> \o Go(S \ {i})
     IN Go(wrong)

Step(e) ==
  IF e.op = "setup" THEN RejectItems(e, <<[diag |-> "setup-failed", opname |-> e.op]>>) /\ UNCHANGED stats
  ELSE IF e.res = "panic" THEN RejectItems(e, <<[diag |-> "panic", opname |-> e.op, msg |-> e.msg]>>) /\ UNCHANGED stats
  ELSE IF e.res = "nohandle" THEN UNCHANGED <<live, gone, snap, cfg, f0, bad, skip, stats>>
  \* a call on an id the model no longer has (deleted, or dropped by loading an older image) that the heap
  \* accepts: the property says nothing about such calls and their effect on live objects is undefined;
  \* the rest of the case is not judged
  ELSE IF e.op \in {"ovw", "del"} /\ e.res = "ok" /\ e.i \notin DOMAIN live
  THEN /\ skip' = TRUE /\ UNCHANGED <<live, gone, snap, cfg, f0, bad, stats>>
  ELSE
    LET a == After(e)
        loadok == e.op = "load" /\ e.res = "ok" /\ snap # NoSnap
        m == IF loadok THEN snap.live ELSE a[1]
        g == IF loadok THEN snap.gone ELSE a[2]
        fz == IF f0 = -1 THEN e.free + SumLen(m) ELSE f0
        items == (IF a[3] # "" THEN <<[diag |-> a[3], opname |-> e.op]>> ELSE <<>>)
                 \o (IF e.op = "ins" /\ e.res = "ok" /\ (~e.idok \/ e.idlen # e.len)
                     THEN <<[diag |-> "heap-id-malformed", opname |-> e.op, indirect |-> e.indirect, len |-> e.len, idlen |-> e.idlen]>> ELSE <<>>)
                 \* a refused insert changes nothing: in particular it does not restructure the heap
                 \o (IF e.op = "ins" /\ e.res = "err" /\ Has(e, "indbefore") /\ ~e.indbefore /\ e.indirect
                     THEN <<[diag |-> "refused-insert-restructured-the-heap", opname |-> e.op, len |-> e.len]>> ELSE <<>>)
                 \o (IF e.op \in {"write", "load"} /\ e.res # "ok"
                     THEN <<[diag |-> e.op \o "-failed", opname |-> e.op, indirect |-> e.indirect, msg |-> e.msg]>> ELSE <<>>)
                 \o ProjItems(e, m, g, fz)
    IN IF items # <<>> THEN RejectItems(e, items) /\ UNCHANGED stats
       ELSE /\ live' = m /\ gone' = g /\ f0' = fz
            /\ snap' = IF e.op = "write" /\ e.res = "ok" THEN [live |-> live, gone |-> gone] ELSE snap
            /\ stats' = [stats EXCEPT !.ins = @ + (IF e.op = "ins" /\ e.res = "ok" THEN 1 ELSE 0),
                                      !.nofit = @ + (IF e.op = "ins" /\ e.res = "err" THEN 1 ELSE 0),
                                      !.ovw = @ + (IF e.op = "ovw" /\ e.res = "ok" THEN 1 ELSE 0),
                                      !.del = @ + (IF e.op = "del" /\ e.res = "ok" THEN 1 ELSE 0),
                                      !.errs = @ + (IF e.res = "err" THEN 1 ELSE 0),
                                      !.writes = @ + (IF e.op = "write" THEN 1 ELSE 0),
                                      !.loads = @ + (IF e.op = "load" THEN 1 ELSE 0),
                                      !.gets = @ + Cardinality(DOMAIN e.get)]
            /\ UNCHANGED <<cfg, bad, skip>>

Consume ==
  /\ l <= Len(Trace) /\ l' = l + 1
  /\ LET e == Trace[l] IN
       IF e.op = "reset"
       THEN /\ live' = EmptyFn /\ gone' = {} /\ snap' = NoSnap /\ cfg' = e.cfg /\ f0' = -1 /\ skip' = FALSE /\ bad' = bad
            /\ stats' = [stats EXCEPT !.cases = @ + 1]
       ELSE IF skip THEN UNCHANGED <<live, gone, snap, cfg, f0, bad, skip, stats>>
       ELSE Step(e)

Spec == Init /\ [][Consume]_tvars
Verdict == l = Len(Trace) + 1 =>
             PrintT(<<"VERDICT", ToJson([bad |-> bad, stats |-> stats, events |-> Len(Trace)])>>)
=============================================================================

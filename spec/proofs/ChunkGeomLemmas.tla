-------------------------- MODULE ChunkGeomLemmas --------------------------
(* The per-dimension arithmetic behind ChunkGeom!GeomOK, for ALL extents, chunk   *)
(* sizes and coordinates (TLC checks GeomOK on the enumerated shapes only).        *)
(* Every initial state is an arbitrary choice of the quantities; the invariant is   *)
(* the lemma, so a length-0 Apalache run proves it for all integers:                *)
(*   apalache-mc check --init=Init --inv=Lemmas --length=0 ChunkGeomLemmas.tla      *)
(* N-dimensional tiling follows dimension by dimension (InChunk is a conjunction    *)
(* over dimensions, ChunkSet a product).                                            *)
EXTENDS Integers

VARIABLES
  \* @type: Int;
  d,     \* extent of the dimension
  \* @type: Int;
  c,     \* chunk size in that dimension
  \* @type: Int;
  x,     \* a coordinate inside the extent
  \* @type: Int;
  q      \* an arbitrary chunk number

Ceil(a, b) == (a + b - 1) \div b
In(xx, qq) == qq * c <= xx /\ xx < (qq + 1) * c

Init == /\ d \in Int /\ c \in Int /\ x \in Int /\ q \in Int
        /\ d >= 1 /\ c >= 1 /\ 0 <= x /\ x < d
Next == UNCHANGED <<d, c, x, q>>

\* the chunk that ChunkOf computes is a chunk of the dataset and contains the coordinate
ChunkOfIsTheTile == (x \div c) >= 0 /\ (x \div c) < Ceil(d, c) /\ In(x, x \div c)
\* no other chunk contains it
TilesExactlyOnce == In(x, q) => q = x \div c
\* every indexed chunk holds at least one element: its first element lies inside the extent
NoEmptyChunk == (0 <= q /\ q < Ceil(d, c)) => q * c < d
\* the key (element offset of the first element) identifies the chunk
KeysDistinct == (q * c = (x \div c) * c) => q = x \div c
\* the chunks cover the extent and the last one starts inside it
Cover == Ceil(d, c) * c >= d /\ (Ceil(d, c) - 1) * c < d

Lemmas == ChunkOfIsTheTile /\ TilesExactlyOnce /\ NoEmptyChunk /\ KeysDistinct /\ Cover
\* sensitivity: with the ceiling replaced by the floor the cover lemma must fail
BadCover == (d \div c) * c >= d
=============================================================================

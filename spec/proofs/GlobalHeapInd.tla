--------------------------- MODULE GlobalHeapInd ---------------------------
(* Unbounded check of the accounting invariant of GlobalHeap with Apalache.      *)
(* The current collection of GlobalHeap.tla is abstracted to three integers: its  *)
(* declared size, its free space and the space its objects use (the sum of         *)
(* ObjSize over cur.objs, which is all that Accounting reads).  Element lengths     *)
(* range over ALL naturals here, not over the finite set Lens that TLC enumerates:  *)
(* IndInv is inductive (Init => IndInv, IndInv /\ Next => IndInv'), so the          *)
(* accounting law 16 + used + free = size, free >= 0, size a positive multiple of    *)
(* 4096, holds after any number of elements of any lengths.                          *)
(*   apalache-mc check --cinit=ConstInit --init=Init    --inv=IndInv --length=0 GlobalHeapInd.tla      *)
(*   apalache-mc check --cinit=ConstInit --init=IndInit --inv=IndInv --length=1 GlobalHeapInd.tla      *)
(*   apalache-mc check --cinit=ConstInitBad --init=IndInit --inv=IndInv --length=1 ...  (must fail)    *)
EXTENDS Integers

CONSTANT
  \* @type: Int;
  Hdr          \* bytes of the collection header that a new collection subtracts from its free space (16; the
               \* sensitivity run uses 0 and must produce a counterexample)
ConstInit == Hdr = 16
ConstInitBad == Hdr = 0

VARIABLES
  \* @type: Int;
  size,
  \* @type: Int;
  free,
  \* @type: Int;
  used,
  \* @type: Bool;
  open

MinColl == 4096
Align8(n) == ((n + 7) \div 8) * 8
ObjSize(n) == 16 + Align8(n)
NewCollSize(n) == LET need == 16 + ObjSize(n) + 16 IN
                  IF need > MinColl THEN ((need + 4095) \div 4096) * 4096 ELSE MinColl

Init == size = 0 /\ free = 0 /\ used = 0 /\ open = FALSE

PutFits(n) ==
  /\ open /\ free >= ObjSize(n)
  /\ free' = free - ObjSize(n) /\ used' = used + ObjSize(n)
  /\ UNCHANGED <<size, open>>

PutRollOver(n) ==
  /\ (~open \/ free < ObjSize(n))
  /\ size' = NewCollSize(n) /\ free' = NewCollSize(n) - Hdr - ObjSize(n) /\ used' = ObjSize(n)
  /\ open' = TRUE

Flush == open /\ open' = FALSE /\ size' = 0 /\ free' = 0 /\ used' = 0

Next == (\E n \in Nat : PutFits(n) \/ PutRollOver(n)) \/ Flush

Accounting == open => (16 + used + free = size /\ free >= 0 /\ size % 4096 = 0 /\ size >= MinColl)
IndInv == /\ Accounting
          /\ (~open => (size = 0 /\ free = 0 /\ used = 0))
          /\ used >= 0 /\ used % 8 = 0

IndInit == /\ size \in Int /\ free \in Int /\ used \in Int /\ open \in BOOLEAN
           /\ IndInv
=============================================================================

-------------------------- MODULE HyperslabLemmas --------------------------
(* The one-dimensional arithmetic behind Hyperslab (C09) and Resize (C13), for     *)
(* ALL extents and selection parameters (TLC checks the laws on enumerated           *)
(* parameter sets).  Every initial state is an arbitrary choice of the quantities;   *)
(* the invariant is the lemma, so a length-0 Apalache run proves it for all integers. *)
(*   apalache-mc check --init=Init --inv=Lemmas --length=0 HyperslabLemmas.tla        *)
EXTENDS Integers

VARIABLES
  \* @type: Int;
  n,       \* extent
  \* @type: Int;
  start,
  \* @type: Int;
  count,
  \* @type: Int;
  stride,
  \* @type: Int;
  block,
  \* @type: Int;
  j,       \* position in the index list, 1..count*block
  \* @type: Int;
  j2,      \* another position
  \* @type: Int;
  d2,      \* a second extent (row-major pair)
  \* @type: Int;
  i        \* a linear index into an n x d2 array

Idx(jj) == start + ((jj - 1) \div block) * stride + ((jj - 1) % block)
Valid == count >= 1 /\ stride >= 1 /\ block >= 1 /\ start >= 0 /\ start + (count - 1) * stride + block <= n
Proper == count = 1 \/ block <= stride

Init == /\ n \in Int /\ start \in Int /\ count \in Int /\ stride \in Int /\ block \in Int /\ j \in Int /\ j2 \in Int
        /\ d2 \in Int /\ i \in Int
        /\ n >= 1 /\ d2 >= 1 /\ Valid
        /\ 1 <= j /\ j <= count * block /\ 1 <= j2 /\ j2 <= count * block
        /\ 0 <= i /\ i < n * d2
Next == UNCHANGED <<n, start, count, stride, block, j, j2, d2, i>>

\* every selected index lies inside the extent
InBounds == Idx(j) >= 0 /\ Idx(j) < n
\* a proper selection lists its indices in strictly increasing order (so no index twice)
Increasing == (Proper /\ j < j2) => Idx(j) < Idx(j2)
\* row-major coordinates of a linear index and back (H5Model!Coord / Linear, rank 2)
RoundTrip == LET r == i \div d2  c == i % d2 IN r >= 0 /\ r < n /\ c >= 0 /\ c < d2 /\ r * d2 + c = i

Lemmas == InBounds /\ Increasing /\ RoundTrip
\* sensitivity: without the properness condition the order lemma must fail (overlapping blocks)
BadIncreasing == (j < j2) => Idx(j) < Idx(j2)
=============================================================================

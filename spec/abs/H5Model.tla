------------------------------ MODULE H5Model ------------------------------
(* The abstract state of an HDF5 file as the write API builds it, and the       *)
(* abstract effect of every operation (shared by the behaviour specification    *)
(* H5Logical, which TLC explores, and by the trace specification                 *)
(* H5LogicalTrace, which judges what the real code did).                        *)
(* The file is a graph: object id -> object; groups carry links name -> id, so   *)
(* hard links (also to groups and to ancestors) are aliases of one object.      *)
EXTENDS Integers, Sequences, FiniteSets, Fn

VARIABLES objs,      \* object id -> object record
          nid,       \* next object id
          created,   \* set of paths (component sequences) given to successful create/link calls
          fclosed    \* the file writer has been closed

Root == 0
NoData == [n |-> -1, dig |-> "none", vals |-> <<>>]
Unknown == [n |-> -2, dig |-> "unknown", vals |-> <<>>]
NoDt == [cls |-> -1, size |-> 0, sign |-> 0]

Obj(k) == [k |-> k, links |-> EmptyFn, dt |-> NoDt, dims |-> <<>>, max |-> <<>>, chunk |-> <<>>,
           data |-> [f64 |-> NoData, str |-> NoData, cmp |-> NoData, raw |-> NoData], written |-> FALSE,
           attrs |-> EmptyFn, t |-> <<>>,
           wdims |-> <<>>,       \* extents when the data was last written
           lo |-> <<>>,          \* per dimension: smallest extent since the data was last written
           regrown |-> FALSE,    \* some dimension grew again after having been shrunk below the written extent
           grownbare |-> <<>>]   \* a dataset that was never written and has been resized: per dimension the smallest extent it
                                 \* has had; what lies beyond was added by Resize and reads as zero (C13); <<>> otherwise

-----------------------------------------------------------------------------
(* path resolution through the link graph; -1 = does not resolve *)
RECURSIVE Walk(_, _, _)
Walk(id, pc, i) ==
  IF i > Len(pc) THEN id
  ELSE IF id = -1 \/ objs[id].k # "group" \/ pc[i] \notin DOMAIN objs[id].links THEN -1
  ELSE Walk(objs[id].links[pc[i]], pc, i + 1)
Resolve(pc) == Walk(Root, pc, 1)
ParentOf(pc) == IF Len(pc) = 0 THEN -1 ELSE Resolve(SubSeq(pc, 1, Len(pc) - 1))
Last(pc) == pc[Len(pc)]

\* why a create request for path pc must be rejected; "" = it is valid
CreateDefect(pc) ==
  IF Len(pc) = 0 THEN "empty-path"
  ELSE IF ParentOf(pc) = -1 THEN "missing-parent"
  ELSE IF objs[ParentOf(pc)].k # "group" THEN "parent-not-group"
  ELSE IF Last(pc) \in DOMAIN objs[ParentOf(pc)].links THEN "duplicate-name"
  ELSE ""

AddObj(pc, o) ==
  LET par == ParentOf(pc) IN
  /\ objs' = [i \in DOMAIN objs \cup {nid} |->
                IF i = nid THEN o
                ELSE IF i = par THEN [objs[i] EXCEPT !.links = FnPut(@, Last(pc), nid)]
                ELSE objs[i]]
  /\ nid' = nid + 1
  /\ created' = created \cup {pc}

\* a new group that is created together with links name -> object id (CreateGroupWithLinks)
AddObjL(pc, L) ==
  LET par == ParentOf(pc) IN
  /\ objs' = [i \in DOMAIN objs \cup {nid} |->
                IF i = nid THEN [Obj("group") EXCEPT !.links = L,
                                                      \* more than 8 links: dense link storage (fractal heap + B-tree v2)
                                                      !.t = IF Cardinality(DOMAIN L) > 8 THEN <<"dense">> ELSE <<>>]
                ELSE IF i = par THEN [objs[i] EXCEPT !.links = FnPut(@, Last(pc), nid)]
                ELSE objs[i]]
  /\ nid' = nid + 1
  /\ created' = created \cup {pc} \cup {Append(pc, n) : n \in DOMAIN L}

AddLink(pc, id) ==
  /\ objs' = [objs EXCEPT ![ParentOf(pc)].links = FnPut(@, Last(pc), id)]
  /\ created' = created \cup {pc}
  /\ UNCHANGED nid

-----------------------------------------------------------------------------
(* array algebra for Resize (ArrayND): row-major element lists *)
Prod(d) == LET RECURSIVE P(_) P(i) == IF i > Len(d) THEN 1 ELSE d[i] * P(i + 1) IN P(1)
Stride(d, k) == LET RECURSIVE S(_) S(i) == IF i > Len(d) THEN 1 ELSE d[i] * S(i + 1) IN S(k + 1)
Coord(i, d) == [k \in 1..Len(d) |-> (i \div Stride(d, k)) % d[k]]
Linear(c, d) == LET RECURSIVE L(_) L(k) == IF k > Len(d) THEN 0 ELSE c[k] * Stride(d, k) + L(k + 1) IN L(1)
Inside(c, d) == \A k \in 1..Len(d) : c[k] < d[k]
\* values after changing extents from old to new: retained where inside both, zero elsewhere
ResizeVals(vals, old, new) ==
  [i \in 1..Prod(new) |-> LET c == Coord(i - 1, new) IN
                            IF Inside(c, old) THEN vals[Linear(c, old) + 1] ELSE 0]
WithinMax(new, max) == /\ Len(new) = Len(max)
                       /\ \A k \in 1..Len(new) : max[k] = -1 \/ new[k] <= max[k]

-----------------------------------------------------------------------------
=============================================================================

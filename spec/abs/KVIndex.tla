------------------------------ MODULE KVIndex ------------------------------
(* Property specification for C14: the name index is a map from names to        *)
(* values (heap ids) with a capacity.  Insert of an absent name binds it (or is *)
(* refused when the index is full), update re-binds a present name, delete      *)
(* unbinds a present name; anything else is refused and changes nothing.        *)
(* Searching never changes the map and finds exactly the bound names.           *)
EXTENDS Naturals, FiniteSets

CONSTANTS Keys, Vals, NoVal, Cap

VARIABLES kv,    \* [Keys -> Vals \cup {NoVal}]
          snap   \* the map as last written out (NoVal: never written)

Bound == {k \in Keys : kv[k] # NoVal}
TypeOK == kv \in [Keys -> Vals \cup {NoVal}]
WithinCap == Cardinality(Bound) <= Cap

Init == kv = [k \in Keys |-> NoVal] /\ snap = NoVal

Insert(k, v) == /\ kv[k] = NoVal /\ Cardinality(Bound) < Cap
                /\ kv' = [kv EXCEPT ![k] = v] /\ UNCHANGED snap
Update(k, v) == /\ kv[k] # NoVal /\ kv' = [kv EXCEPT ![k] = v] /\ UNCHANGED snap
Delete(k)    == /\ kv[k] # NoVal /\ kv' = [kv EXCEPT ![k] = NoVal] /\ UNCHANGED snap
Refused      == UNCHANGED <<kv, snap>>      \* full, absent, duplicate: an error and no change
\* persistence: writing out records the map, loading back reproduces exactly what was written
WriteOut     == snap' = kv /\ UNCHANGED kv
LoadBack     == snap # NoVal /\ kv' = snap /\ UNCHANGED snap

Next == \/ \E k \in Keys, v \in Vals : Insert(k, v) \/ Update(k, v)
        \/ \E k \in Keys : Delete(k)
        \/ Refused \/ WriteOut \/ LoadBack
Spec == Init /\ [][Next]_<<kv, snap>>
=============================================================================

------------------------------ MODULE BlobStore ------------------------------
(* Property specification for C15: the heap is a store of byte strings under     *)
(* ids chosen by the store.  Put binds a FRESH id, overwrite replaces the bytes   *)
(* of a live id by bytes of the same length, delete unbinds; a refused call       *)
(* changes nothing; get returns the bytes last stored; writing out and loading    *)
(* back reproduces the store exactly.                                            *)
EXTENDS Naturals, FiniteSets

CONSTANTS Ids, Blobs, NoBlob, LenOf     \* LenOf: [Blobs -> Nat]

VARIABLES store,   \* [Ids -> Blobs \cup {NoBlob}]
          snap

Live == {i \in Ids : store[i] # NoBlob}
Init == store = [i \in Ids |-> NoBlob] /\ snap = NoBlob

Put(i, b)       == /\ store[i] = NoBlob /\ store' = [store EXCEPT ![i] = b] /\ UNCHANGED snap
Overwrite(i, b) == /\ store[i] # NoBlob /\ LenOf[b] = LenOf[store[i]]
                   /\ store' = [store EXCEPT ![i] = b] /\ UNCHANGED snap
Delete(i)       == /\ store[i] # NoBlob /\ store' = [store EXCEPT ![i] = NoBlob] /\ UNCHANGED snap
Refused         == UNCHANGED <<store, snap>>
WriteOut        == snap' = store /\ UNCHANGED store
LoadBack        == snap # NoBlob /\ store' = snap /\ UNCHANGED snap

Next == \/ \E i \in Ids, b \in Blobs : Put(i, b) \/ Overwrite(i, b)
        \/ \E i \in Ids : Delete(i)
        \/ Refused \/ WriteOut \/ LoadBack
Spec == Init /\ [][Next]_<<store, snap>>
=============================================================================

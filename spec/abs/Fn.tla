--------------------------------- MODULE Fn ---------------------------------
(* Finite functions with a growing/shrinking domain. *)
EmptyFn        == [x \in {} |-> 0]
FnPut(f, k, v) == [x \in (DOMAIN f) \cup {k} |-> IF x = k THEN v ELSE f[x]]
FnDel(f, k)    == [x \in (DOMAIN f) \ {k} |-> f[x]]
=============================================================================

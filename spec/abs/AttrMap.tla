------------------------------ MODULE AttrMap ------------------------------
(* Property specification for C02: the attributes of one object are a map from  *)
(* names to values.  This module IS the property statement: a successful write  *)
(* binds the name to the written value, a successful delete unbinds it, a call  *)
(* that fails changes nothing.  Storage (compact / dense), thresholds and sizes *)
(* do not exist at this level.                                                  *)
EXTENDS Naturals, FiniteSets

CONSTANTS Names,      \* attribute names
          Vals,       \* attribute values (type, shape and bytes, as one abstract token)
          NoVal       \* "absent"

VARIABLE map          \* [Names -> Vals \cup {NoVal}]

TypeOK == map \in [Names -> Vals \cup {NoVal}]

Init == map = [n \in Names |-> NoVal]

Put(n, v)  == map' = [map EXCEPT ![n] = v]
Del(n)     == /\ map[n] # NoVal
              /\ map' = [map EXCEPT ![n] = NoVal]
Rejected   == UNCHANGED map      \* any call that returns an error

Next == \/ \E n \in Names, v \in Vals : Put(n, v)
        \/ \E n \in Names : Del(n)
        \/ Rejected

Spec == Init /\ [][Next]_map

Present == {n \in Names : map[n] # NoVal}
=============================================================================

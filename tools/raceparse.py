#!/usr/bin/env python3
"""Parses Go race detector reports (GORACE=log_path=...) into access pairs.
A pair = the innermost frames inside github.com/scigolib/hdf5 (not verifapi, not the harness) of the
two conflicting accesses, plus the kind of each access."""
import glob
import re
import sys


def fields_at(loc):
    """The struct fields named on the source line of an access (what the race is about)."""
    m = re.match(r"\s*(\S+\.go):(\d+)", loc)
    if not m:
        return ""
    try:
        line = open(m.group(1), errors="replace").read().splitlines()[int(m.group(2)) - 1]
    except (OSError, IndexError):
        return ""
    line = line.split("//")[0]
    toks = sorted(set(re.findall(r"\.([A-Za-z_][A-Za-z0-9_]*)", line)) - {"Lock", "Unlock", "RLock", "RUnlock", "mu"})
    return ",".join(toks)


def lib_frame(lines):
    for i, ln in enumerate(lines):
        m = re.match(r"\s+(github\.com/scigolib/hdf5[^\s(]*(?:\([^)]*\))?[^\s(]*)\(", ln)
        if m:
            f = m.group(1)
            if "/verifapi" in f:
                continue
            f = f.replace("github.com/scigolib/hdf5/internal/", "").replace("github.com/scigolib/hdf5.", "hdf5.")
            f = f.replace("github.com/scigolib/hdf5/", "")
            loc = lines[i + 1] if i + 1 < len(lines) else ""
            return f, fields_at(loc)
    return "?", ""


def parse(prefix):
    pairs = []
    for fn in sorted(glob.glob(prefix + ".*")):
        txt = open(fn, errors="replace").read()
        for block in txt.split("WARNING: DATA RACE")[1:]:
            block = block.split("==================")[0]
            parts = re.split(r"\n(?=(?:Previous )?(?:[Rr]ead|[Ww]rite|[Aa]tomic [a-z]+) (?:at|by))", "\n" + block)
            accs = []
            for p in parts:
                m = re.match(r"\n?(Previous )?(read|write|atomic \w+)", p.strip("\n"), re.I)
                if not m:
                    continue
                body = p.split("\n\n")[0].splitlines()[1:]
                fr, fld = lib_frame(body)
                accs.append((m.group(2).lower().split()[0], fr, fld))
            if len(accs) >= 2:
                a, b = sorted(accs[:2], key=lambda x: (x[1], x[2]))
                pairs.append({"a": a[1], "akind": a[0], "afields": a[2], "b": b[1], "bkind": b[0], "bfields": b[2]})
    return pairs


if __name__ == "__main__":
    for p in parse(sys.argv[1]):
        print(p)

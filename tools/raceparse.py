#!/usr/bin/env python3
"""Parses Go race detector reports (GORACE=log_path=...) into access pairs.
A pair = the innermost frames inside github.com/scigolib/hdf5 (not verifapi, not the harness) of the
two conflicting accesses, plus the kind of each access."""
import glob
import re
import sys


def lib_frame(lines):
    for ln in lines:
        m = re.match(r"\s+(github\.com/scigolib/hdf5[^\s(]*(?:\([^)]*\))?[^\s(]*)\(", ln)
        if m:
            f = m.group(1)
            if "/verifapi" in f:
                continue
            f = f.replace("github.com/scigolib/hdf5/internal/", "").replace("github.com/scigolib/hdf5.", "hdf5.")
            f = f.replace("github.com/scigolib/hdf5/", "")
            return f
    return "?"


def parse(prefix):
    pairs = []
    for fn in sorted(glob.glob(prefix + ".*")):
        txt = open(fn, errors="replace").read()
        for block in txt.split("WARNING: DATA RACE")[1:]:
            block = block.split("==================")[0]
            parts = re.split(r"\n(?=(?:Previous )?(?:[Rr]ead|[Ww]rite|[Aa]tomic [a-z]+) (?:at|by))", "\n" + block)
            accs = []
            for p in parts:
                m = re.match(r"\n?(Previous )?(read|write|atomic \w+)", p.strip("\n"), re.I)
                if not m:
                    continue
                body = p.split("\n\n")[0].splitlines()[1:]
                accs.append((m.group(2).lower().split()[0], lib_frame(body)))
            if len(accs) >= 2:
                a, b = sorted(accs[:2], key=lambda x: x[1])
                pairs.append({"a": a[1], "akind": a[0], "b": b[1], "bkind": b[0]})
    return pairs


if __name__ == "__main__":
    for p in parse(sys.argv[1]):
        print(p)

#!/usr/bin/env python3
"""Regenerates /verif/MANIFEST.json from the table below (single source of truth for the interface)."""
import json
import os

ROOT = os.path.dirname(os.path.dirname(os.path.abspath(__file__)))

CHECKS = {
    "C02": dict(
        cat="model_checking", ref="5/C02, 4.2",
        technique="TLA+ design spec AttrStore refines AttrMap (TLC exhaustive); TLC-generated histories replayed on the real API; TLC trace validation against AttrMap",
        text="AttrStore (one action per storage code path) is model-checked exhaustively against the property spec AttrMap; every history TLC generates from it (all put/delete sequences up to the depth bound from boundary pre-states, datasets and groups, superblock 0/2/3) plus long seeded random histories are replayed through WriteAttribute/DeleteAttribute, the file is reopened, and TLC validates each recorded trace against AttrMap. Bounded, not a proof: right level because the property quantifies over histories and the defect classes (lost update on migration, stale index, wrong upsert) need short boundary-crossing histories.",
        note="trusted: TLC, Go toolchain, the library's reader as projection (Open/Walk/Attributes), harness reflection for expected bytes; histories beyond depth 3/4 only sampled"),
}

NOT_YET = {}

def main():
    props = [json.loads(l) for l in open(os.path.join(ROOT, "properties.jsonl"))]
    checks = []
    na = []
    for p in props:
        pid = p["id"]
        c = CHECKS.get(pid)
        if not c:
            na.append({"property_id": pid, "reason": NOT_YET.get(pid, "check not built yet in this round (planned, see DESIGN.md section 5)")})
            continue
        checks.append({
            "property_id": pid,
            "quick_cmd": "./run.sh %s quick" % pid,
            "thorough_cmd": "./run.sh %s thorough" % pid,
            "evidence_file": "/verif/evidence/%s.json" % pid,
            "replay_cmd_template": "./run.sh %s quick --replay {path}" % pid,
            "engine": "tlc+h5v",
            "level_claimed": {"category": c["cat"], "text": c["text"], "design_ref": c["ref"]},
            "level_note": c["note"],
            "technique": c["technique"],
        })
    m = {
        "version": 1,
        "setup_cmd": "./setup.sh",
        "hooks": {
            "guard": "verif",
            "enable": "go1.26 build -tags verif (the harness module replaces github.com/scigolib/hdf5 with /repo)",
            "baseline_off_cmd": "cd /repo && GOFLAGS=-mod=mod GOPROXY=off GOSUMDB=off GOTOOLCHAIN=local go1.26 test -json -vet=off -count=1 -timeout 25m ./...",
            "source_commits": HOOK_COMMITS,
            "add_only": True,
        },
        "engines": [
            {"name": "tlc+h5v", "path": "/verif/tools/check.py", "serves_properties": sorted(CHECKS),
             "kind_free_text": "TLC model checking of design specs, TLC behaviour generation, Go replay driver (harness/), TLC trace validation (spec/trace)"},
        ],
        "checks": checks,
        "not_applicable": na,
        "notes": "Model-based verification with explicit TLA+ specifications (spec/); see DESIGN.md. known_findings.json lists recorded genuine defects and fix: commits.",
    }
    with open(os.path.join(ROOT, "MANIFEST.json"), "w") as f:
        json.dump(m, f, indent=1)
    print("MANIFEST: %d checks, %d not_applicable" % (len(checks), len(na)))

HOOK_COMMITS = ["d1232af"]

if __name__ == "__main__":
    main()

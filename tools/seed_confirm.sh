#!/bin/bash
# seed_confirm.sh <patch.diff> <demo_test.go> [pkgdir]
# Confirms in a scratch worktree: (1) suite passes with the change, (2) demo fails with it, (3) demo passes without.
set -u
export GOFLAGS=-mod=mod GOPROXY=off GOSUMDB=off GOTOOLCHAIN=local
PATCH=$1; DEMO=$2; PKG=${3:-.}
W=$(mktemp -d /tmp/seedconf.XXXX)
git -C /repo worktree add -q --detach "$W/wt" HEAD || exit 2
cd "$W/wt"
git apply "$PATCH" || { echo "PATCH DOES NOT APPLY"; cd /; git -C /repo worktree remove --force "$W/wt"; rm -rf "$W"; exit 2; }
go1.26 build ./... || { echo "BUILD FAILS"; }
S=$(go1.26 test -vet=off -count=1 ./... 2>&1 | grep -v "no test files" | grep -v "^ok" | head -5)
if [ -z "$S" ]; then echo "suite_with_change=PASS"; else echo "suite_with_change=FAIL"; echo "$S"; fi
cp "$DEMO" "$PKG/zz_seed_demo_test.go"
if go1.26 test -vet=off -count=1 -run 'Demo|Seed|C[0-9][0-9]' "./$PKG" >"$W.out" 2>&1; then echo "demo_with_change=PASS(unexpected)"; else echo "demo_with_change=FAIL(expected)"; fi
tail -3 "$W.out" | cut -c1-200
git checkout -q -- . 
if go1.26 test -vet=off -count=1 -run 'Demo|Seed|C[0-9][0-9]' "./$PKG" >"$W.out" 2>&1; then echo "demo_without_change=PASS(expected)"; else echo "demo_without_change=FAIL(unexpected)"; tail -3 "$W.out"; fi
cd /; git -C /repo worktree remove --force "$W/wt"; rm -rf "$W" "$W.out"

"""Parser for the h5dump DDL reports shipped in testdata/hdf5_official/ddl.

The reports are the reference implementation's description of a file (or of the part of it that the
h5dump options of that test selected).  parse(text) returns (h5name, objects, notes) where objects maps
an absolute object path to what the report states about it:

    {"kind": "group"|"dataset"|"datatype"|"link",
     "members": [names] (groups, only when the block lists members),
     "dtype": {...}, "dims": [...], "space": "simple"|"scalar"|"null", "data": [tokens] | None,
     "attrs": {name: {"dtype", "dims", "space", "data"}}}

Data tokens are the literal value tokens of the report in row-major order; compound/array/vlen
nesting is flattened, strings are unescaped byte strings prefixed with 's'.  Anything the parser is
not sure about is reported in notes and left out (never guessed).
"""
import re

TOK = re.compile(r'"(?:[^"\\]|\\.)*"|[{}\[\](),;]|[^\s{}\[\](),;"]+')


class DDLError(Exception):
    pass


def unescape(s):
    """h5dump escapes: \\" \\\\ \\n \\t \\r \\b \\f \\v \\a and \\ooo (octal) inside quoted strings."""
    out = bytearray()
    b = s.encode("utf-8", "surrogateescape")
    i = 0
    simple = {ord('n'): 10, ord('t'): 9, ord('r'): 13, ord('b'): 8, ord('f'): 12, ord('v'): 11, ord('a'): 7,
              ord('"'): 34, ord('\\'): 92, ord("'"): 39, ord('?'): 63}
    while i < len(b):
        c = b[i]
        if c == 92 and i + 1 < len(b):
            d = b[i + 1]
            if d in simple:
                out.append(simple[d])
                i += 2
                continue
            m = re.match(rb'[0-7]{1,3}', b[i + 1:i + 4])
            if m:
                out.append(int(m.group(0), 8) & 0xff)
                i += 1 + len(m.group(0))
                continue
        out.append(c)
        i += 1
    return bytes(out)


def brace_span(text, start):
    """text[start] == '{': index just after the matching '}' (quotes respected)."""
    depth = 0
    i = start
    n = len(text)
    while i < n:
        c = text[i]
        if c == '"':
            i += 1
            while i < n and text[i] != '"':
                i += 2 if text[i] == '\\' else 1
        elif c == '{':
            depth += 1
        elif c == '}':
            depth -= 1
            if depth == 0:
                return i + 1
        i += 1
    raise DDLError("unbalanced braces")


KEYWORDS = ("GROUP", "DATASET", "DATATYPE", "DATASPACE", "DATA", "ATTRIBUTE", "SOFTLINK", "HARDLINK", "EXTERNAL_LINK",
            "USERDEFINED_LINK", "STORAGE_LAYOUT", "FILTERS", "FILLVALUE", "ALLOCATION_TIME", "COMMENT", "SUBSET",
            "SUPER_BLOCK", "USER_BLOCK", "BOOT_BLOCK", "LINKTARGET", "TARGETFILE", "TARGETPATH", "LINKCLASS", "UDDATA")


class Node:
    def __init__(self, key, name, body, inline):
        self.key, self.name, self.body, self.inline = key, name, body, inline  # body: text inside braces or None


def split_items(body):
    """Top-level items of a block body: (key, name|None, inner_text|None, rest_of_line)."""
    items = []
    i, n = 0, len(body)
    while i < n:
        m = re.compile(r'\s*([A-Z_0-9]+)\b').match(body, i)
        if not m:
            # stray text (e.g. data lines handled elsewhere)
            j = body.find("\n", i)
            j = n if j < 0 else j + 1
            if body[i:j].strip():
                items.append(Node("?", None, None, body[i:j].strip()))
            i = j
            continue
        key = m.group(1)
        j = m.end()
        # optional quoted name
        name = None
        m2 = re.compile(r'\s*("(?:[^"\\]|\\.)*")').match(body, j)
        if m2 and key in ("GROUP", "DATASET", "ATTRIBUTE", "DATATYPE", "SOFTLINK", "HARDLINK", "EXTERNAL_LINK", "USERDEFINED_LINK", "COMMENT", "LINKTARGET", "TARGETFILE", "TARGETPATH"):
            name = unescape(m2.group(1)[1:-1]).decode("utf-8", "surrogateescape")
            j = m2.end()
        # to end of line or to a '{' on this line
        eol = body.find("\n", j)
        eol = n if eol < 0 else eol
        br = body.find("{", j, eol)
        if br >= 0:
            end = brace_span(body, br)
            items.append(Node(key, name, body[br + 1:end - 1], body[j:br].strip()))
            i = end
        else:
            items.append(Node(key, name, None, body[j:eol].strip()))
            i = eol + 1
    return items


# ---------------------------------------------------------------- datatypes
INT_RE = re.compile(r'H5T_(?:STD|NATIVE)_([IUB])(\d+)(BE|LE)?$')
FLT_RE = re.compile(r'H5T_(?:IEEE|NATIVE)_F(\d+)(BE|LE)?$')
NATIVE = {"H5T_NATIVE_CHAR": ("int", 1, True), "H5T_NATIVE_SCHAR": ("int", 1, True), "H5T_NATIVE_UCHAR": ("int", 1, False),
          "H5T_NATIVE_SHORT": ("int", 2, True), "H5T_NATIVE_USHORT": ("int", 2, False), "H5T_NATIVE_INT": ("int", 4, True),
          "H5T_NATIVE_UINT": ("int", 4, False), "H5T_NATIVE_LONG": ("int", 8, True), "H5T_NATIVE_ULONG": ("int", 8, False),
          "H5T_NATIVE_LLONG": ("int", 8, True), "H5T_NATIVE_ULLONG": ("int", 8, False), "H5T_NATIVE_FLOAT": ("float", 4, True),
          "H5T_NATIVE_DOUBLE": ("float", 8, True)}


def parse_dtype(head, body):
    """head: text after DATATYPE up to '{' (or the whole line); body: inner text or None."""
    t = head.strip()
    m = INT_RE.match(t)
    if m and body is None:
        cls = "bitfield" if m.group(1) == "B" else "int"
        return {"cls": cls, "size": int(m.group(2)) // 8, "signed": m.group(1) == "I", "order": m.group(3) or "native", "text": t}
    m = FLT_RE.match(t)
    if m and body is None:
        return {"cls": "float", "size": int(m.group(1)) // 8, "signed": True, "order": m.group(2) or "native", "text": t}
    if t in NATIVE and body is None:
        c, s, sg = NATIVE[t]
        return {"cls": c, "size": s, "signed": sg, "order": "native", "text": t}
    if t == "H5T_STRING" and body is not None:
        d = {"cls": "string", "text": t}
        m = re.search(r'STRSIZE\s+(\S+?);', body)
        if m:
            d["size"] = None if m.group(1) == "H5T_VARIABLE" else int(m.group(1))
            d["vlen"] = m.group(1) == "H5T_VARIABLE"
        m = re.search(r'STRPAD\s+(\S+?);', body)
        if m:
            d["pad"] = m.group(1)
        m = re.search(r'CSET\s+(\S+?);', body)
        if m:
            d["cset"] = m.group(1)
        return d
    if t == "H5T_COMPOUND" and body is not None:
        members = []
        rest = body
        # members: <type> "name"; where type may itself be a block
        i = 0
        n = len(rest)
        while i < n:
            while i < n and rest[i].isspace():
                i += 1
            if i >= n:
                break
            # find the member name: the quoted string followed by ';' at depth 0
            j = i
            depth = 0
            while j < n:
                c = rest[j]
                if c == '{':
                    j = brace_span(rest, j)
                    continue
                if c == '"' and depth == 0:
                    k = j + 1
                    while k < n and rest[k] != '"':
                        k += 2 if rest[k] == '\\' else 1
                    name = unescape(rest[j + 1:k]).decode("utf-8", "surrogateescape")
                    tdesc = rest[i:j].strip()
                    semi = rest.find(";", k)
                    if semi < 0:
                        semi = n
                    br = tdesc.find("{")
                    if br >= 0:
                        sub = parse_dtype(tdesc[:br], tdesc[br + 1:tdesc.rfind("}")])
                    else:
                        sub = parse_dtype(tdesc, None)
                    members.append({"name": name, "dtype": sub})
                    i = semi + 1
                    break
                j += 1
            else:
                break
        return {"cls": "compound", "members": members, "text": t}
    if t == "H5T_ARRAY" and body is not None:
        m = re.match(r'\s*((?:\[\d+\])+)\s*(.*)$', body.strip(), re.S)
        if m:
            dims = [int(x) for x in re.findall(r'\[(\d+)\]', m.group(1))]
            bt = m.group(2).strip()
            br = bt.find("{")
            base = parse_dtype(bt[:br], bt[br + 1:bt.rfind("}")]) if br >= 0 else parse_dtype(bt, None)
            return {"cls": "array", "dims": dims, "base": base, "text": t}
    if t == "H5T_VLEN" and body is not None:
        bt = body.strip()
        br = bt.find("{")
        base = parse_dtype(bt[:br], bt[br + 1:bt.rfind("}")]) if br >= 0 else parse_dtype(bt, None)
        return {"cls": "vlen", "base": base, "text": t}
    if t == "H5T_ENUM" and body is not None:
        return {"cls": "enum", "text": t}
    if t == "H5T_OPAQUE" and body is not None or t == "H5T_OPAQUE":
        return {"cls": "opaque", "text": t}
    if t.startswith("H5T_REFERENCE") or (body is not None and "H5T_STD_REF" in (body or "")):
        return {"cls": "reference", "text": t}
    if t.startswith('"'):
        return {"cls": "named", "text": t}
    return {"cls": "other", "text": t}


def parse_space(head, body):
    t = head.strip()
    if t == "SCALAR":
        return "scalar", [], []
    if t == "NULL":
        return "null", [], []
    if t == "SIMPLE" and body is not None:
        m = re.match(r'\s*\(([^)]*)\)\s*/\s*\(([^)]*)\)\s*$', body.strip())
        if m:
            dims = [int(x) for x in m.group(1).replace(" ", "").split(",") if x]
            mx = [(-1 if x == "H5S_UNLIMITED" else int(x)) for x in m.group(2).replace(" ", "").split(",") if x]
            return "simple", dims, mx
    return "other", None, None


def parse_data(body):
    """Value tokens of a DATA block in order.  Index prefixes '(i,j):' are dropped, nesting braces,
    brackets and parentheses are dropped (shapes come from the datatype), strings become ('s', bytes).
    Strings split with '//' continuation are joined."""
    toks = []
    # h5dump prints an index prefix only at the start of a line
    lines = body.split("\n")
    text = []
    for ln in lines:
        s = ln.strip()
        s = re.sub(r'^\((?:\d+(?:,\s*)?)+\):\s*', '', s)
        text.append(s)
    joined = "\n".join(text)
    prev_str = False
    concat = False
    for m in TOK.finditer(joined):
        t = m.group(0)
        if t[0] == '"':
            v = unescape(t[1:-1])
            if concat and toks and isinstance(toks[-1], tuple):
                toks[-1] = ("s", toks[-1][1] + v)
            else:
                toks.append(("s", v))
            concat = False
            prev_str = True
            continue
        if t == "//" and prev_str:
            concat = True
            continue
        prev_str = False
        if t in "{}[](),;":
            continue
        if t == ":":
            continue
        toks.append(t)
    return toks


def walk(items, base, objs, notes, parent_members, top=False):
    # h5dump prints the attributes of a committed datatype AFTER the closing brace of its DATATYPE block, as items of
    # the enclosing group (a group's own attributes come before its members): an ATTRIBUTE that follows a named
    # DATATYPE member belongs to that datatype, not to the group
    after_datatype = None
    for it in items:
        if it.key in ("GROUP", "DATASET", "SOFTLINK", "EXTERNAL_LINK", "USERDEFINED_LINK"):
            after_datatype = None
        if it.key == "ATTRIBUTE" and after_datatype is not None and not top:
            a = {}
            fill(a, split_items(it.body or ""), notes, after_datatype + "@" + str(it.name))
            if it.name is not None and ("dtype" in a or "space" in a):
                objs.setdefault(after_datatype, {"kind": "datatype", "attrs": {}, "shown": 0})["attrs"][it.name] = a
            continue
        if it.key == "DATATYPE" and it.name is not None and it.body is None and not top:
            # 'DATATYPE "name" H5T_...;' (an atomic committed datatype) or 'DATATYPE "name" HARDLINK "/other"'
            after_datatype = it.name if it.name.startswith("/") else (base.rstrip("/") + "/" + it.name)
            continue
        if it.key in ("GROUP", "DATASET", "DATATYPE") and it.name is not None and it.body is not None:
            kind = {"GROUP": "group", "DATASET": "dataset", "DATATYPE": "datatype"}[it.key]
            name = it.name
            if top and name != "/" and not it.body.strip():
                continue      # -g / -d request that h5dump could not open prints an empty block
            path = name if name.startswith("/") else (base.rstrip("/") + "/" + name)
            if name == "/":
                path = "/"
            if parent_members is not None and not name.startswith("/"):
                parent_members.append(name)
            if it.key == "DATATYPE" and not top:
                after_datatype = path
            sub = split_items(it.body)
            o = objs.setdefault(path, {"kind": kind, "attrs": {}, "shown": 0})
            o["shown"] += 1
            if any(s.key == "HARDLINK" for s in sub):
                o["hardlink"] = True
                continue
            o["kind"] = kind
            if kind == "group":
                members = []
                walk(sub, path, objs, notes, members)
                o.setdefault("members", [])
                for mname in members:
                    if mname not in o["members"]:
                        o["members"].append(mname)
            else:
                fill(o, sub, notes, path)
                walk([s for s in sub if s.key == "ATTRIBUTE"], path, objs, notes, None)
        elif it.key == "ATTRIBUTE" and it.name is not None and it.body is not None:
            if top:
                continue      # -a reports name the attribute only: whose attribute it is is not stated
            a = {}
            fill(a, split_items(it.body), notes, base + "@" + it.name)
            if "dtype" not in a and "space" not in a:
                continue      # an empty block: h5dump could not open it (its message went to stderr)
            o = objs.setdefault(base, {"kind": "unknown", "attrs": {}, "shown": 0})
            o["attrs"][it.name] = a
        elif it.key in ("SOFTLINK", "EXTERNAL_LINK", "USERDEFINED_LINK") and it.name is not None:
            path = base.rstrip("/") + "/" + it.name
            objs.setdefault(path, {"kind": "link", "attrs": {}, "shown": 1, "link": it.key})
            if parent_members is not None:
                parent_members.append(it.name)
        elif it.key == "SUBSET":
            notes.append("subset")


def fill(o, sub, notes, where):
    for s in sub:
        if s.key == "DATATYPE":
            try:
                o["dtype"] = parse_dtype(s.inline if s.name is None else '"' + s.name + '"', s.body)
            except Exception as e:  # noqa: BLE001 - never guess
                notes.append("dtype?%s:%s" % (where, e))
        elif s.key == "DATASPACE":
            sp, dims, mx = parse_space(s.inline, s.body)
            o["space"], o["dims"], o["max"] = sp, dims, mx
        elif s.key == "DATA" and s.body is not None:
            try:
                o["data"] = parse_data(s.body)
            except Exception as e:  # noqa: BLE001
                notes.append("data?%s:%s" % (where, e))
        elif s.key == "SUBSET":
            notes.append("subset")
            o["subset"] = True


SIG = re.compile(r'^[-+]?(\d*)\.?(\d*)(?:e[-+]?\d+)?$', re.I)


def sig_digits(tok):
    m = SIG.match(tok)
    if not m or INTLIT.match(tok):
        return None
    d = (m.group(1) + m.group(2)).lstrip("0")
    return len(d)


INTLIT = re.compile(r'^[-+]?\d+$')


def float_precision(objs):
    """h5dump prints floating point with %g (6 significant digits) unless the test passed a format; a report
    whose floating point tokens never need more than 4 digits, with enough of them to tell, was printed with %.4g."""
    mx, n4, n = 0, 0, 0
    def scan(data):
        nonlocal mx, n4, n
        for t in data or []:
            if isinstance(t, str):
                k = sig_digits(t)
                if k is not None:
                    n += 1
                    mx = max(mx, k)
                    n4 += k == 4
    for o in objs.values():
        scan(o.get("data"))
        for a in o["attrs"].values():
            scan(a.get("data"))
    if mx > 6:
        return 0   # a format option was used (e.g. %.7f): floating point tokens of this report are not compared
    return 4 if (mx <= 4 and n4 >= 16) else 6


def parse(text):
    notes = []
    m = re.search(r'HDF5 "([^"]+)" \{', text)
    if not m:
        raise DDLError("no HDF5 header")
    start = text.find("{", m.start())
    end = brace_span(text, start)
    body = text[start + 1:end - 1]
    tail = text[end:].strip()
    if tail:
        notes.append("trailing-text")
    objs = {}
    walk(split_items(body), "/", objs, notes, None, top=True)
    prec = float_precision(objs)
    for o in objs.values():
        # an empty DATA block for a non-empty dataspace is the -b / -o option (values written elsewhere), not "no elements"
        for d in [o] + list(o["attrs"].values()):
            if d.get("data") is not None:
                d["prec"] = prec
                n = 1
                for x in d.get("dims") or []:
                    n *= x
                if not d["data"] and d.get("space") in ("simple", "scalar") and n > 0:
                    d["data"] = None
    return m.group(1), objs, notes


if __name__ == "__main__":
    import collections
    import glob
    import os
    import sys
    root = sys.argv[1]
    c = collections.Counter()
    for f in sorted(glob.glob(os.path.join(root, "ddl", "*.ddl"))):
        t = open(f, errors="surrogateescape").read()
        try:
            h5, objs, notes = parse(t)
        except DDLError as e:
            c["unparsed"] += 1
            continue
        except Exception as e:  # noqa: BLE001
            c["crash"] += 1
            print("CRASH", os.path.basename(f), repr(e)[:100])
            continue
        c["parsed"] += 1
        c["objects"] += len(objs)
        c["with_data"] += sum(1 for o in objs.values() if o.get("data") is not None)
        c["attrs"] += sum(len(o["attrs"]) for o in objs.values())
        for n in notes:
            c["note:" + n.split("?")[0]] += 1
    print(c)

#!/bin/bash
# seed_eval.sh <patch.diff> <Cxx> [Cyy ...]  : apply to /repo, run quick checks, always revert.
PATCH=$1; shift
cd /repo && [ -z "$(git status --porcelain --untracked-files=no)" ] || { echo "/repo not clean"; exit 2; }
git -C /repo apply "$PATCH" || { echo "patch does not apply"; exit 2; }
for p in "$@"; do
  out=$(cd /verif && ./run.sh $p ${TIER:-quick} 2>&1); rc=$?
  echo "== $p rc=$rc :: $(echo "$out" | grep -E "^$p (quick|thorough)" | tail -1)"
  echo "$out" | grep -E "VIOLATION|rejected x" | head -4
done
git -C /repo checkout -q -- .

#!/usr/bin/env python3
"""Common machinery of the /verif checks.

A check = (1) TLC model-checks the design specification, (2) TLC generates behaviours,
(3) the Go driver replays them against the library built from /repo's working tree,
(4) TLC validates the recorded trace against the property specification and prints a verdict,
(5) rejected cases are matched against known_findings.json, evidence is written.

Exit status: 0 property held on everything explored (or only listed findings),
             1 VIOLATION (a rejected case that is not a listed finding),
             2 could not decide (build/tool failure, timeout) - never a verdict.
"""
import hashlib
import json
import os
import re
import shutil
import subprocess
import sys
import tempfile
import time

ROOT = os.path.dirname(os.path.dirname(os.path.abspath(__file__)))


def OUTDIR(kind):
    """Where evidence and replay files go: /verif/evidence and /verif/replays.  A run that evaluates a seeded change on a scratch
    copy of the repository (H5V_REPO) sets H5V_OUT so that it does not overwrite the evidence of the real tree."""
    base = os.environ.get("H5V_OUT")
    return os.path.join(base, kind) if base else os.path.join(ROOT, kind)
SPEC = os.path.join(ROOT, "spec")
GOENV = {"GOFLAGS": "-mod=mod", "GOPROXY": "off", "GOSUMDB": "off", "GOTOOLCHAIN": "local"}
GO = "go1.26"


class Infra(Exception):
    """Infrastructure failure: exit 2, never a verdict."""


def log(*a):
    print(*a, flush=True)


class TLCResult:
    def __init__(self, rc, out, wall):
        self.rc, self.out, self.wall = rc, out, wall
        self.generated = self.distinct = 0
        m = re.findall(r"(\d[\d,]*) states generated, (\d[\d,]*) distinct states found", out)
        if m:
            self.generated = int(m[-1][0].replace(",", ""))
            self.distinct = int(m[-1][1].replace(",", ""))
        self.depth = 0
        m = re.search(r"depth of the complete state graph search is (\d+)", out)
        if m:
            self.depth = int(m.group(1))
        self.ok = rc == 0 and "Model checking completed. No error has been found." in out
        self.violated = None
        m = re.search(r"Error: (Invariant (\S+) is violated|Action property .* is violated|Temporal properties were violated|Deadlock reached)", out)
        if m:
            self.violated = m.group(1)

    def printed(self, tag):
        """JSON payloads printed with PrintT(<<tag, ToJson(x)>>)."""
        res = []
        pre = '<<"%s", "' % tag
        for line in self.out.splitlines():
            if line.startswith(pre) and line.endswith('">>'):
                s = line[len(pre):-3]
                s = s.replace('\\"', '"').replace("\\\\", "\\")
                res.append(s)
        return res

    def coverage_zero(self):
        """Actions / expressions reported with count 0 under -coverage."""
        z = []
        for line in self.out.splitlines():
            m = re.match(r"\s*<(\w+) line (\d+), col .* of module (\w+)>: (\d+):(\d+)", line)
            if m and m.group(4) == "0":
                z.append("%s (%s:%s)" % (m.group(1), m.group(3), m.group(2)))
        return z

    def action_counts(self):
        c = {}
        for line in self.out.splitlines():
            m = re.match(r"\s*<(\w+) line (\d+), col .* of module (\w+)>: (\d+):(\d+)", line)
            if m:
                c[m.group(1)] = c.get(m.group(1), 0) + int(m.group(5))
        return c


class Ctx:
    def __init__(self, prop, tier, seed=None, repo=None):
        self.prop = prop
        self.tier = tier
        self.seed = int(seed if seed is not None else os.environ.get("VERIF_SEED", "1"))
        self.repo = repo or os.environ.get("H5V_REPO", "/repo")
        self.t0 = time.time()
        base = os.environ.get("TMPDIR", "/tmp")
        self.scr = tempfile.mkdtemp(prefix="h5v-%s-" % prop, dir=base)
        self.specdir = os.path.join(self.scr, "spec")
        os.makedirs(self.specdir)
        for sub in ("abs", "design", "trace", "cfg"):
            d = os.path.join(SPEC, sub)
            if os.path.isdir(d):
                for f in os.listdir(d):
                    shutil.copy(os.path.join(d, f), self.specdir)
        self.files = os.path.join(self.scr, "files")
        os.makedirs(self.files)
        self.h5v = None
        # replay files of earlier runs of this property are stale
        rdir = OUTDIR("replays")
        if os.path.isdir(rdir) and not os.environ.get("H5V_KEEP_REPLAYS"):
            for f in os.listdir(rdir):
                if f.startswith(prop + "-") and f.endswith(".json"):
                    try:
                        os.remove(os.path.join(rdir, f))
                    except OSError:
                        pass
        self.tlc_runs = []
        self.nmeta = 0
        self.workers = int(os.environ.get("H5V_WORKERS", str(os.cpu_count() or 4)))

    def cleanup(self):
        shutil.rmtree(self.scr, ignore_errors=True)

    # ---- build -------------------------------------------------------------
    def build(self, race=False):
        key = "h5v-race" if race else "h5v"
        if getattr(self, "_built_" + key, None):
            return getattr(self, "_built_" + key)
        hb = os.path.join(self.scr, "hb")
        if not os.path.isdir(hb):
            shutil.copytree(os.path.join(ROOT, "harness"), hb)
            with open(os.path.join(hb, "go.mod.tmpl")) as f:
                mod = f.read().replace("@REPO@", self.repo)
            with open(os.path.join(hb, "go.mod"), "w") as f:
                f.write(mod)
            shutil.copy(os.path.join(self.repo, "go.sum"), os.path.join(hb, "go.sum"))
        env = dict(os.environ, **GOENV)
        out = os.path.join(self.scr, key)
        cmd = [GO, "build", "-tags", "verif", "-o", out]
        if race:
            cmd.append("-race")
        cmd.append("./cmd/h5v")
        p = subprocess.run(cmd, cwd=hb, env=env, stdout=subprocess.PIPE, stderr=subprocess.STDOUT, text=True)
        if p.returncode != 0:
            raise Infra("harness build failed against %s:\n%s" % (self.repo, p.stdout[-4000:]))
        setattr(self, "_built_" + key, out)
        if not race:
            self.h5v = out
        return out

    # ---- TLC ---------------------------------------------------------------
    def tlc(self, module, cfg, workers=1, env=None, timeout=600, coverage=False, extra=None, dfs=False, heap="8g"):
        self.nmeta += 1
        meta = os.path.join(self.scr, "meta%d" % self.nmeta)
        cmd = ["tlc", "-workers", str(workers), "-metadir", meta, "-config", cfg]
        if coverage:
            cmd += ["-coverage", "1"]
        if extra:
            cmd += extra
        cmd.append(module)
        e = dict(os.environ)
        jtmp = os.path.join(self.scr, "jtmp")
        os.makedirs(jtmp, exist_ok=True)
        jopts = "-Xss512m -Xmx%s -Djava.io.tmpdir=%s" % (heap, jtmp)      # SANY's unpacked standard modules go with the scratch directory
        if dfs:
            jopts += " -Dtlc2.tool.queue.IStateQueue=StateDeque"
        e["JAVA_TOOL_OPTIONS"] = jopts
        if env:
            e.update(env)
        t = time.time()
        try:
            p = subprocess.run(cmd, cwd=self.specdir, env=e, stdout=subprocess.PIPE, stderr=subprocess.STDOUT,
                               text=True, timeout=timeout)
        except subprocess.TimeoutExpired:
            subprocess.run(["pkill", "-f", meta], check=False)
            raise Infra("TLC timeout (%ds) on %s/%s" % (timeout, module, cfg))
        finally:
            shutil.rmtree(meta, ignore_errors=True)
        r = TLCResult(p.returncode, p.stdout, time.time() - t)
        self.tlc_runs.append({"module": module, "cfg": cfg, "workers": workers, "rc": r.rc,
                              "generated": r.generated, "distinct": r.distinct, "wall_s": round(r.wall, 2)})
        return r

    def model_check(self, module, cfg, workers=8, timeout=900, coverage=False, expect_ok=True, extra=None):
        """Run an exhaustive configuration of a design spec; a violation there is a defect of the
        machinery (spec/design mismatch), reported as exit 2, never as a property violation."""
        r = self.tlc(module, cfg, workers=workers, timeout=timeout, coverage=coverage, extra=extra)
        if expect_ok and not r.ok:
            raise Infra("design model %s/%s did not pass TLC (rc=%d, %s):\n%s" % (
                module, cfg, r.rc, r.violated, tail(r.out, 60)))
        return r

    def apalache(self, module, init, inv, length, cinit=None, timeout=600):
        """Apalache symbolic check of an inductive invariant / lemma (unbounded in the integer quantities).
        Returns "ok" (no counterexample) or "error" (counterexample); anything else raises Infra."""
        work = os.path.join(self.scr, "apalache%d" % (getattr(self, "napa", 0) + 1))
        self.napa = getattr(self, "napa", 0) + 1
        os.makedirs(work, exist_ok=True)
        shutil.copy(os.path.join(ROOT, "spec", "proofs", module), work)
        cmd = ["apalache-mc", "check", "--init=" + init, "--inv=" + inv, "--length=%d" % length]
        if cinit:
            cmd.append("--cinit=" + cinit)
        cmd.append(module)
        t0 = time.time()
        try:
            p = subprocess.run(cmd, cwd=work, stdout=subprocess.PIPE, stderr=subprocess.STDOUT, text=True, timeout=timeout)
        except subprocess.TimeoutExpired:
            raise Infra("apalache timeout on %s %s/%s" % (module, init, inv))
        out = p.stdout
        self.tlc_runs.append({"tool": "apalache", "module": module, "init": init, "inv": inv, "length": length, "cinit": cinit or "",
                              "wall_s": round(time.time() - t0, 1), "outcome": "ok" if "The outcome is: NoError" in out else "error" if "The outcome is: Error" in out else "?"})
        if "The outcome is: NoError" in out:
            return "ok"
        if "The outcome is: Error" in out:
            return "error"
        raise Infra("apalache could not decide %s %s/%s:\n%s" % (module, init, inv, tail(out, 30)))

    def generate(self, module, cfg, tag="CASE", timeout=900, env=None):
        r = self.tlc(module, cfg, workers=1, timeout=timeout, env=env)
        if not r.ok:
            raise Infra("generator %s/%s failed (rc=%d):\n%s" % (module, cfg, r.rc, tail(r.out, 40)))
        cases = r.printed(tag)
        if not cases:
            raise Infra("generator %s/%s printed no %s lines" % (module, cfg, tag))
        return cases, r

    def simulate(self, module, cfg, num, depth, tag="CASE", timeout=600):
        """Random behaviours beyond the exhaustive bound (tlc -simulate)."""
        r = self.tlc(module, cfg, workers=1, timeout=timeout,
                     extra=["-simulate", "num=%d" % num, "-depth", str(depth), "-seed", str(self.seed)])
        # simulation mode ends with rc 0 and no 'No error' banner
        return r.printed(tag), r

    # ---- Go driver -----------------------------------------------------------
    def write_cases(self, cases, name="cases.ndjson"):
        path = os.path.join(self.scr, name)
        with open(path, "w") as f:
            for c in cases:
                f.write(c if isinstance(c, str) else json.dumps(c))
                f.write("\n")
        return path

    def drive(self, cmd, cases_path, trace_name="trace.ndjson", extra=None, timeout=1800, binary=None, env=None):
        self.build()
        out = os.path.join(self.scr, trace_name)
        argv = [binary or self.h5v, cmd, "-out", out, "-dir", self.files, "-seed", str(self.seed),
                "-workers", str(self.workers)]
        if cases_path:
            argv += ["-in", cases_path]
        if extra:
            argv += extra
        e = dict(os.environ)
        if env:
            e.update(env)
        try:
            p = subprocess.run(argv, stdout=subprocess.PIPE, stderr=subprocess.STDOUT, text=True, timeout=timeout, env=e)
        except subprocess.TimeoutExpired:
            raise Infra("driver timeout: %s" % " ".join(argv))
        if p.returncode != 0:
            raise Infra("driver %s failed (rc=%d):\n%s" % (cmd, p.returncode, p.stdout[-3000:]))
        return out, p.stdout

    # ---- trace validation -----------------------------------------------------
    def split_trace(self, trace_path, parts):
        """Split an ndjson trace on case boundaries ('"op":"reset"' lines) into <= parts files."""
        with open(trace_path) as f:
            lines = f.readlines()
        starts = [i for i, ln in enumerate(lines) if '"op":"reset"' in ln]
        if not starts or starts[0] != 0:
            starts = [0] + starts
        parts = max(1, min(parts, len(starts)))
        per = (len(lines) + parts - 1) // parts
        cuts, nxt = [0], per
        for st in starts:
            if st >= nxt:
                cuts.append(st)
                nxt = st + per
        cuts.append(len(lines))
        files = []
        for k in range(len(cuts) - 1):
            if cuts[k] == cuts[k + 1]:
                continue
            fp = "%s.part%d" % (trace_path, k)
            with open(fp, "w") as f:
                f.writelines(lines[cuts[k]:cuts[k + 1]])
            files.append(fp)
        return files, len(lines)

    def validate(self, module, cfg, trace_path, timeout=1800, env=None, dfs=False, parts=None):
        """TLC validates the trace against the trace specification. The trace is split on case
        boundaries and the parts are validated by concurrent TLC processes (cases are independent).
        Returns ({bad: [...], stats: {...summed...}, events: n}, summary)."""
        import concurrent.futures
        parts = parts or max(1, min(self.workers // 2, 8))
        files, nlines = self.split_trace(trace_path, parts if nlines_hint(trace_path) > 4000 else 1)

        def one(fp):
            e = {"H5V_TRACE": fp}
            if env:
                e.update(env)
            return self.tlc(module, cfg, workers=1, env=e, timeout=timeout, dfs=dfs, heap="6g")

        with concurrent.futures.ThreadPoolExecutor(max_workers=len(files)) as ex:
            results = list(ex.map(one, files))
        bad, stats, events, gen, dist = [], {}, 0, 0, 0
        for fp, r in zip(files, results):
            v = r.printed("VERDICT")
            if not r.ok or len(v) != 1:
                raise Infra("trace validation %s on %s did not complete (rc=%d, verdicts=%d):\n%s" % (
                    module, os.path.basename(fp), r.rc, len(v), tail(r.out, 40)))
            vd = json.loads(v[0])
            b = [json.loads(x) for x in r.printed("BAD")]
            if len(b) != vd["bad"]:
                raise Infra("trace validation %s: %d BAD lines but counter says %d" % (module, len(b), vd["bad"]))
            bad += b
            events += vd["events"]
            for k, x in vd["stats"].items():
                if isinstance(x, int):
                    stats[k] = stats.get(k, 0) + x
            gen += r.generated
            dist += r.distinct
        if events != nlines:
            raise Infra("trace validation consumed %d of %d events" % (events, nlines))
        return {"bad": bad, "stats": stats, "events": events}, {"generated": gen, "distinct": dist, "parts": len(files)}


def binding_selftest(ctx, module, cfg, trace_path, corruptors, max_cases=400, allow_rejected=False):
    """Demonstrates that the trace specification is bound to what was recorded: for each corruptor a copy of one
    accepted case of the trace with one recorded field altered must be rejected.  corruptors: list of
    (name, fn(events) -> altered events or None if the case offers nothing to alter).  Returns
    {name: "rejected"}; raises Infra if a corrupted trace is accepted or no case could be corrupted."""
    cases, cur = [], []
    with open(trace_path) as f:
        for line in f:
            e = json.loads(line)
            if e.get("op") == "reset" and cur:
                cases.append(cur)
                cur = []
                if len(cases) >= max_cases:
                    break
            cur.append(e)
    if cur and len(cases) < max_cases:
        cases.append(cur)
    out = {}
    for name, fn in corruptors:
        done, tries = False, 0
        for evs in cases:
            alt = fn(json.loads(json.dumps(evs)))
            if alt is None:
                continue
            tries += 1
            if tries > 40:
                break
            # the unaltered case must be accepted, the altered one rejected
            res, diags = [], []
            for tag, body in (("orig", evs), ("alt", alt)):
                fp = os.path.join(ctx.scr, "selftest_%s_%s.ndjson" % (name, tag))
                with open(fp, "w") as g:
                    for e in body:
                        e = dict(e)
                        e["case"] = 0
                        g.write(json.dumps(e) + "\n")
                v, _ = ctx.validate(module, cfg, fp, parts=1)
                res.append(sum(max(1, len(b.get("items", []))) for b in v["bad"]))
                diags.append({it.get("diag") for b in v["bad"] for it in b.get("items", [])})
            if res[0] != 0 and not allow_rejected:
                continue      # this case is itself rejected (a known finding): take another one
            # objection = more rejections than the unaltered case, or a diagnosis the unaltered case does not have
            if res[1] <= res[0] and not (diags[1] - diags[0]):
                raise Infra("binding self-test %s: %s does not object to a trace in which a recorded field was altered" % (name, module))
            out[name] = "rejected"
            done = True
            break
        if not done:
            raise Infra("binding self-test %s: no accepted case in the first %d offers the field to alter" % (name, max_cases))
    return out


def nlines_hint(path):
    n = 0
    with open(path, "rb") as f:
        for _ in f:
            n += 1
            if n > 4001:
                break
    return n


def tail(s, n):
    return "\n".join(s.splitlines()[-n:])


# ---- findings ---------------------------------------------------------------
def flatten(prefix, v, out):
    if isinstance(v, dict):
        for k, x in v.items():
            flatten(prefix + "." + k if prefix else k, x, out)
    else:
        out[prefix] = v
    return out


def load_findings():
    p = os.path.join(ROOT, "known_findings.json")
    if not os.path.exists(p):
        return []
    with open(p) as f:
        return json.load(f).get("findings", [])


def sig_matches(sig, flat):
    for k, want in sig.items():
        got = flat.get(k, None)
        if isinstance(want, list):
            if got not in want:
                return False
        elif isinstance(want, dict) and "re" in want:
            if got is None or not re.search(want["re"], str(got)):
                return False
        elif got != want:
            return False
    return True


def expand_items(bad):
    """A rejected case may carry several failing items; each becomes one record to classify."""
    out = []
    for b in bad:
        items = b.get("items")
        if not items:
            out.append(b)
            continue
        for it in items:
            r = {k: v for k, v in b.items() if k != "items"}
            r.update(it)
            out.append(r)
    return out


def classify(prop, bad):
    """Split failing items into (known, violations); known = list of (finding, item).
    Every failing item of every rejected case must match a listed finding on its own."""
    findings = [f for f in load_findings() if f["property"] == prop]
    known, viol = [], []
    for b in expand_items(bad):
        flat = flatten("", b, {})
        hit = None
        for f in findings:
            if sig_matches(f["signature"], flat):
                hit = f
                break
        if hit:
            known.append((hit, b))
        else:
            viol.append(b)
    return known, viol


def case_events(trace_path, case_ids):
    want = set(case_ids)
    out = {}
    with open(trace_path) as f:
        for line in f:
            m = re.search(r'"case":(\d+)', line)
            if m and int(m.group(1)) in want:
                out.setdefault(int(m.group(1)), []).append(json.loads(line))
    return out


def write_replay(prop, seed, case_input, events, diag, extra=None):
    os.makedirs(OUTDIR("replays"), exist_ok=True)
    body = {"property": prop, "seed": seed, "case": case_input, "diag": diag, "events": events}
    if extra:
        body.update(extra)
    h = hashlib.sha1(json.dumps([prop, case_input, diag.get("diag")], sort_keys=True).encode()).hexdigest()[:12]
    path = os.path.join(OUTDIR("replays"), "%s-%s.json" % (prop, h))
    with open(path, "w") as f:
        json.dump(body, f, indent=1, sort_keys=True)
    return path


VIOLATIONS_REPORTED = 0     # VIOLATION lines printed by this process (a later Infra must not turn a verdict into "could not decide")


def report(ctx, bad, cases_by_id, trace_path, max_replays=8):
    """Print KNOWN-FINDING / VIOLATION lines. Returns (n_violations, known_ids)."""
    global VIOLATIONS_REPORTED
    known, viol = classify(ctx.prop, bad)
    VIOLATIONS_REPORTED += len(viol)
    seen = {}
    for f, b in known:
        seen.setdefault(f["id"], [f, 0])
        seen[f["id"]][1] += 1
    for fid, (f, n) in sorted(seen.items()):
        log("KNOWN-FINDING: property=%s %s %s (%d cases)" % (ctx.prop, fid, f["what"], n))
    if viol:
        hist = {}
        for b in viol:
            d = b.get("detail")
            k = b.get("diag", "?")
            if isinstance(b.get("exp"), dict) and "cls" in b["exp"]:
                k += " cls=%s size=%s sign=%s" % (b["exp"].get("cls"), b["exp"].get("size"), b["exp"].get("sign"))
            for extra in ("path", "strided", "spans", "api", "rank", "fmt", "class", "indirect"):
                if extra in b:
                    k += " %s=%s" % (extra, b[extra])
            if "collides" in b:
                k += " collides=%s" % b["collides"]
            if isinstance(b.get("cfg"), dict):
                k += " " + " ".join("%s=%s" % (x, b["cfg"][x]) for x in sorted(b["cfg"]) if x in ("style", "obj", "sb", "sess", "rb", "kind", "layout"))
            hist[k] = hist.get(k, 0) + 1
        for k, n in sorted(hist.items(), key=lambda x: -x[1])[:25]:
            log("  rejected x%d: %s" % (n, k))
        # one replay per distinct diagnosis first, then fill up
        pickd, rest, seenk = [], [], set()
        for b in viol:
            k = (b.get("diag"), json.dumps(b.get("detail"))[:40] if not isinstance(b.get("detail"), dict) else "")
            if k not in seenk:
                seenk.add(k)
                pickd.append(b)
            else:
                rest.append(b)
        chosen = (pickd + rest)[:max_replays]
        evs = case_events(trace_path, [b["case"] for b in chosen]) if trace_path else {}
        for b in chosen:
            ci = cases_by_id(b["case"]) if cases_by_id else None
            path = write_replay(ctx.prop, ctx.seed, ci, evs.get(b["case"], []), b)
            log("VIOLATION property=%s replay=%s" % (ctx.prop, path))
            log("  diag=%s %s" % (b.get("diag"), json.dumps({k: v for k, v in b.items() if k not in ("cfg", "case", "at", "diag")})[:400]))
        if len(viol) > len(chosen):
            log("  ... %d more failing items (same run)" % (len(viol) - len(chosen)))
    return len(viol), sorted(seen)


def write_evidence(ctx, level, coverage, assumptions, violations, extra=None):
    os.makedirs(OUTDIR("evidence"), exist_ok=True)
    ev = {
        "property_id": ctx.prop,
        "tier": ctx.tier,
        "seed": ctx.seed,
        "level": level,
        "coverage": coverage,
        "assumptions": assumptions,
        "wall_s": round(time.time() - ctx.t0, 2),
        "violations": violations,
        "tlc_runs": ctx.tlc_runs,
        "repo": ctx.repo,
    }
    if extra:
        ev.update(extra)
    path = os.path.join(OUTDIR("evidence"), "%s.json" % ctx.prop)
    tmp = path + ".tmp%d" % os.getpid()
    with open(tmp, "w") as f:
        json.dump(ev, f, indent=1)
    os.replace(tmp, path)
    return path


def nontrivial_hash(obj):
    return hashlib.sha1(json.dumps(obj, sort_keys=True).encode()).hexdigest()

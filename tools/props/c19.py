"""C19 - rebalancing options never change content; mode selection obeys constraints."""
import copy
import json
import random
import time

import h5vlib as H
import props.c02 as c02

LEVEL = "model_checking"
ASSUME = c02.ASSUME + ["selector driven with a fake Clock and a stub SelectionStrategy; the rule-based strategy with synthetic features"]
RBS = ["off", "on", "lazy05", "lazy01", "lazy100", "incr", "incrms", "smart", "smartoff", "lazy0", "lazybig", "incr0", "smartall"]
TOGGLES = ["rb_off", "rb_on", "lazy_on", "lazy_off", "incr_on", "incr_off", "rebalance_all", "force_batch", "rebalance_ds"]


def index_histories(ctx, n, nops):
    """Histories on the name index itself (the structure the rebalancing modes act on) at the real node size: the leaf is
    filled beyond half (so that deferred deletion defers), records are deleted, the index is written out and loaded
    back at random points.  Inserting a present name is left out (the defect recorded under C14 is the same in every mode)."""
    rng = random.Random(ctx.seed * 15485863 + 19)
    cases = []
    for k in range(n):
        names = ["k%d" % i for i in range(rng.choice([200, 380, 450]))]
        live, ops, snap = set(), [], None
        fill = rng.choice([186, 200, 300, 365])
        for i in range(nops):
            r = rng.random()
            grow = len(live) < fill or rng.random() < 0.4
            if r < (0.75 if grow else 0.2):
                free = [x for x in names if x not in live]
                if not free:
                    continue
                nm = rng.choice(free)
                ops.append({"op": "ins", "n": nm})
                live.add(nm)
            elif r < 0.8 and live:
                ops.append({"op": "upd", "n": rng.choice(sorted(live))})
            elif r < 0.93 and live:
                nm = rng.choice(sorted(live))
                ops.append({"op": "del", "n": nm})
                live.discard(nm)
            else:
                o = rng.choice(["write", "load", "rebalance", "write"])
                ops.append({"op": o, "n": ""})
                if o == "write":
                    snap = set(live)
                elif o == "load" and snap is not None:
                    live = set(snap)         # loading brings the last written image back
            if len(live) > 370:      # beyond one leaf the index refuses: the model's capacity rule, the same in every mode
                fill = 186
        cases.append({"cfg": {"mode": ["lazy", "incremental", "rebal", "lazy", "immediate"][k % 5], "cap": 0, "style": 4}, "ops": ops})
    return cases


def session_histories(ctx, n):
    """Histories that run over several sessions, each opened under the same configuration and each holding several
    calls (writes followed by deletes of attributes that were there when the session began, and the other way round):
    every configuration gets the same history."""
    rng = random.Random(ctx.seed * 32452843 + 1919)
    cases = []
    for k in range(n):
        names = ["n%d" % i for i in range(rng.choice([4, 6, 10]))]
        ops, live = [], set()
        for _ in range(rng.randint(12, 40)):
            r = rng.random()
            if r < 0.18:
                ops.append({"op": "reopen", "n": "", "v": ""})
            elif r < 0.45 and live:
                nme = rng.choice(sorted(live))
                ops.append({"op": "del", "n": nme, "v": ""})
                live.discard(nme)
            else:
                nme = rng.choice(names)
                ops.append({"op": "put", "n": nme, "v": rng.choice(["i32", "i8", "f64", "s7", "s40", "ai3", "i64"])})
                live.add(nme)
        for rb in RBS:
            cases.append({"cfg": {"obj": "dataset", "sb": [2, 0, 3][k % 3], "pre": [0, 0, 7][k % 3], "style": k % 3, "rb": rb}, "ops": copy.deepcopy(ops)})
    return cases


def second_session_catalogue(thorough):
    """Every second session of 2 (thorough: 3) calls over {write a, write b, write d, delete a, delete b, delete d} on a dataset that
    holds small attributes a, b, c from a first session (compact storage), under every configuration."""
    import itertools
    alphabet = [("put", "a"), ("put", "b"), ("put", "d"), ("del", "a"), ("del", "b"), ("del", "d")]
    cases = []
    for ln in ((2, 3) if thorough else (2,)):
        for seq in itertools.product(alphabet, repeat=ln):
            ops = [{"op": "put", "n": x, "v": "i32"} for x in "abc"] + [{"op": "reopen", "n": "", "v": ""}]
            ops += [{"op": o, "n": x, "v": "i32" if o == "put" else ""} for o, x in seq]
            for rb in RBS:
                cases.append({"cfg": {"obj": "dataset", "sb": 2, "pre": 0, "style": 0, "rb": rb}, "ops": copy.deepcopy(ops)})
    return cases


def run(ctx):
    thorough = ctx.tier == "thorough"
    # (b) selector: design model + generated decision sequences
    sel_cases, states, trans, per = [], 0, 0, []
    for k in ("a", "b", "c", "d", "e") + (("f",) if thorough else ()):
        lines, r = ctx.generate("C19Sel.tla", "C19_sel_%s.cfg" % k)
        sel_cases += [json.loads(x) for x in lines]
        states += r.distinct
        trans += r.generated
        per.append({"cfg": "C19_sel_%s.cfg" % k, "behaviours": len(lines), "distinct_states": r.distinct})
    rng = random.Random(ctx.seed * 198491317 + 19)
    for _ in range(3000 if thorough else 300):      # longer random sequences beyond the bound
        allowed = rng.choice([[], ["lazy"], ["lazy", "incremental"], ["none"], ["incremental"], ["none", "lazy", "incremental"]])
        ops = [{"raw": rng.choice(["none", "lazy", "incremental"]), "conf": rng.choice([0, 10, 49, 50, 69, 70, 71, 99, 100]),
                "dt": rng.choice([0, 1, 15, 29, 30, 31, 60])} for _ in range(rng.randint(4, 25))]
        sel_cases.append({"cfg": {"allowed": allowed, "minconf": rng.choice([0, 50, 70, 100]), "period": 30}, "ops": ops})
    # boundaries of the value space: a confidence one float below / above the minimum, the longest period a Duration holds
    for allowed in ([], ["lazy"], ["lazy", "incremental"]):
        for mc in (0, 50, 70, 75, 100):
            for eps in (-1, 0, 1):
                ops = [{"raw": "lazy", "conf": mc, "eps": eps, "dt": 0}, {"raw": "incremental", "conf": mc, "eps": -eps, "dt": 1},
                       {"raw": "lazy", "conf": mc, "eps": eps, "dt": 31}, {"raw": "lazy", "conf": 100, "eps": -1, "dt": 0}]
                sel_cases.append({"cfg": {"allowed": allowed, "minconf": mc, "period": 30}, "ops": ops})
        for dts in ((0, 1, 1, 1), (5, 1000000, 1, 100000000), (0, 0, 0, 0)):
            ops = [{"raw": r, "conf": 90, "dt": d} for r, d in zip(("lazy", "incremental", "none", "lazy"), dts)]
            sel_cases.append({"cfg": {"allowed": allowed, "minconf": 50, "period": 1 << 30, "periodmax": True}, "ops": ops})
    spath = ctx.write_cases(sel_cases, "sel_cases.ndjson")
    strace, sout = ctx.drive("c19sel", spath, trace_name="sel_trace.ndjson")
    H.log(sout.strip())
    sverdict, _ = ctx.validate("C19SelTrace.tla", "C19Sel_trace.cfg", strace)

    # binding self-test of the selector trace specification
    def _other_mode(evs):
        for e in evs:
            if e.get("op") == "decide" and e.get("res") == "ok":
                e["outmode"] = {"none": "lazy", "lazy": "incremental", "incremental": "none"}[e["outmode"]]
                return evs
        return None

    def _conf_out_of_range(evs):
        for e in evs:
            if e.get("op") in ("decide", "rule") and e.get("res") == "ok":
                e["outconf"] = 101
                return evs
        return None

    def _later_flip(evs):
        ds = [e for e in evs if e.get("op") == "decide" and e.get("res") == "ok"]
        if len(ds) < 2:
            return None
        e = ds[-1]
        e["outmode"] = {"none": "lazy", "lazy": "incremental", "incremental": "none"}[e["outmode"]]
        return evs
    sel_selftest = H.binding_selftest(ctx, "C19SelTrace.tla", "C19Sel_trace.cfg", strace,
                                      [("decision-altered", _other_mode), ("confidence-out-of-range", _conf_out_of_range), ("late-decision-altered", _later_flip)], max_cases=3000)

    # (a) content: the C02 histories under every rebalancing configuration, with toggles in the middle
    lines, gr = ctx.generate("C02Gen.tla", "C19_gen.cfg")
    base = [json.loads(x) for x in lines]
    base = [c for c in base if len(c["ops"]) >= 2]
    hist = base + c02.random_histories(ctx, 60 if thorough else 12, 200)
    cases = []
    for i, c in enumerate(hist):
        rbs = RBS if thorough else [RBS[i % len(RBS)], RBS[(i * 7 + 3) % len(RBS)]]
        for rb in rbs:
            v = copy.deepcopy(c)
            v["cfg"]["rb"] = rb
            # the two defects recorded under C02 (colliding names, ReadValue of unsigned 4/8-byte integers) are
            # the same under every configuration, so they say nothing about C19: those inputs are left out here
            v["cfg"]["style"] = i % 3
            for o in v["ops"]:
                if o.get("v") in ("u32", "u64"):
                    o["v"] = "i" + o["v"][1:]
            if i % 3 == 0 and v["cfg"]["obj"] == "dataset":
                ops = []
                for o in v["ops"]:
                    ops.append(o)
                    if rng.random() < 0.35:
                        ops.append({"op": "toggle", "n": "", "v": rng.choice(TOGGLES)})
                v["ops"] = ops
            if i % 3 == 1 and v["cfg"]["obj"] == "dataset":
                # the history continues in later sessions opened under the same configuration (several calls per session)
                ops = []
                for o in v["ops"]:
                    if rng.random() < 0.3:
                        ops.append({"op": "reopen", "n": "", "v": ""})
                    ops.append(o)
                v["ops"] = ops
            cases.append(v)
    # a nearly full index leaf under every configuration: here deferred deletion really defers (the leaf stays more than half full)
    # (without the histories that outgrow the attribute heap: that defect, recorded under C02, is the same in every configuration)
    for c in c02.bulk_histories(heavy=False):
        for rb in RBS:
            v = copy.deepcopy(c)
            v["cfg"]["rb"] = rb
            cases.append(v)
    cases += session_histories(ctx, 24 if thorough else 6) + second_session_catalogue(thorough)
    for v in cases:
        v["cfg"]["vsdef"] = True      # the driver also runs the history under the default configuration (DefItems in C02Trace)
    cpath = ctx.write_cases(cases)
    trace, out = ctx.drive("c02", cpath)
    H.log(out.strip())
    verdict, _ = ctx.validate("C02Trace.tla", "C02_trace.cfg", trace)

    # (c) the name index itself under each mode (immediate = the default): content after write-out and load-back equals KVIndex
    icases = index_histories(ctx, 40 if thorough else 10, 2500 if thorough else 900)
    ipath = ctx.write_cases(icases, "index_cases.ndjson")
    itrace, iout = ctx.drive("c14", ipath, trace_name="index_trace.ndjson")
    H.log(iout.strip())
    iverdict, _ = ctx.validate("C14Trace.tla", "C14_trace.cfg", itrace)

    bad = verdict["bad"] + sverdict["bad"] + iverdict["bad"]
    nviol, known = H.report(ctx, verdict["bad"], lambda i: cases[i], trace)
    nviol2, known2 = H.report(ctx, sverdict["bad"], lambda i: sel_cases[i], strace)
    nviol3, known3 = H.report(ctx, iverdict["bad"], lambda i: {"cfg": icases[i]["cfg"], "ops": icases[i]["ops"]}, itrace)
    nviol2, known2 = nviol2 + nviol3, known2 + known3
    cov = {
        "binding_selftest": sel_selftest,
        "states": states + gr.distinct, "transitions": trans + gr.generated,
        "traces_validated_against_impl": verdict["stats"]["cases"] + sverdict["stats"]["cases"],
        "samples": [cases[0], sel_cases[0], sel_cases[-1]],
        "evaluations": len(cases) + len(sel_cases),
        "distinct_nontrivial": len({H.nontrivial_hash(c) for c in cases if c02.nontrivial(c)}) + sverdict["stats"]["stability"],
        "rule": "(a) every attribute history of <= 3 calls generated by TLC from AttrStore (dense pre-states) plus seeded 200-call histories, plus histories that fill one index leaf "
                "(186..380 attributes, capacity 371), delete a few and insert again, "
                "each replayed under rebalancing configurations {off,on,lazy x3,incremental x2,smart x2} (2 per history in quick, all 9 in thorough) "
                "with configuration toggles inserted mid-history, judged against AttrMap (equal to the model = equal to the default run); "
                "(a') the name index (B-tree v2) itself at the real node size under immediate/rebalancing/lazy/incremental mode: seeded histories that "
                "fill the leaf beyond half, delete, write out and load back, judged against KVIndex by C14Trace; "
                "(b) every sequence of 2 (3 thorough) selector decisions over raw mode x confidence {0,.5,.69,.7,.71,1} x dt {0,P-1,P,P+1} under 5-6 "
                "constraint settings generated by TLC from Selector, plus random sequences of up to 25 decisions, replayed on the real "
                "ConfigSelector with a fake clock, plus the real rule-based strategy on random feature vectors",
        "index_stats": iverdict["stats"], "index_cases": len(icases),
        "selector_models": per, "selector_stats": sverdict["stats"], "content_stats": verdict["stats"],
        "known_findings_matched": known + known2, "exhaustive": False,
    }
    H.write_evidence(ctx, LEVEL, cov, ASSUME, nviol + nviol2)
    H.log("C19 %s: content cases=%d selector cases=%d rejected=%d violations=%d known=%s wall=%.1fs" % (
        ctx.tier, len(cases), len(sel_cases), len(bad), nviol + nviol2, known + known2, time.time() - ctx.t0))
    return 1 if nviol + nviol2 else 0


def replay(ctx, body):
    case = body["case"]
    if "allowed" in case.get("cfg", {}):
        path = ctx.write_cases([case])
        trace, _ = ctx.drive("c19sel", path)
        verdict, _ = ctx.validate("C19SelTrace.tla", "C19Sel_trace.cfg", trace)
    elif "mode" in case.get("cfg", {}):
        path = ctx.write_cases([case])
        trace, _ = ctx.drive("c14", path)
        verdict, _ = ctx.validate("C14Trace.tla", "C14_trace.cfg", trace)
    else:
        path = ctx.write_cases([case])
        trace, _ = ctx.drive("c02", path)
        verdict, _ = ctx.validate("C02Trace.tla", "C02_trace.cfg", trace)
    H.log("VERDICT " + json.dumps(verdict))
    return 1 if verdict["bad"] else 0

"""C01 - dataset write, close, reopen, read returns exactly what was written."""
import random

from props.logical import run_logical, replay_logical

LEVEL = "exploration"
PRIMES = [1, 2, 3, 5, 7, 11, 13, 17, 19, 23, 29, 31, 37, 41, 43, 47, 53, 59, 61, 67, 71, 73, 79, 83, 89, 97]


def random_big(ctx, n):
    rng = random.Random(ctx.seed * 49979687 + 1)
    dts = ["i8", "i16", "i32", "i64", "u8", "u16", "u32", "u64", "f32", "f64", "str8", "str1", "str33", "opq4", "cmp"]
    cases = []
    for k in range(n):
        rank = rng.choice([1, 1, 2, 2, 3, 4])
        lim = {1: 26, 2: 9, 3: 5, 4: 3}[rank]
        dims = [rng.choice(PRIMES[:lim]) for _ in range(rank)]
        op = {"op": "mkds", "p": "/d", "dt": rng.choice(dts), "dims": dims}
        if rng.random() < 0.75:
            op["chunk"] = [rng.randint(1, d) for d in dims]
        cases.append({"cfg": {"sb": rng.choice([0, 2, 3]), "rb": "", "style": 0, "tag": "C01-random"},
                      "ops": [op, {"op": "write", "p": "/d", "data": rng.choice(["ext", "rnd", "neg", "seq", "zero"])}]})
    return cases


def many_chunks():
    """Datasets with hundreds of chunks: counts around 255/256 and 64 (one byte, node capacity)."""
    cases = []
    for sb in (0, 2, 3):
        for dims, chunk in (([63], [1]), ([64], [1]), ([65], [1]), ([255], [1]), ([256], [1]), ([257], [1]), ([600], [2]),
                            ([16, 16], [1, 1]), ([17, 16], [1, 1]), ([20, 20], [1, 1]), ([9, 9, 9], [2, 2, 2])):
            for dt, data in (("i32", "seq"), ("f64", "rnd")):
                cases.append({"cfg": {"sb": sb, "rb": "", "style": 0, "tag": "C01-many-chunks"},
                              "ops": [{"op": "mkds", "p": "/d", "dt": dt, "dims": dims, "chunk": chunk}, {"op": "write", "p": "/d", "data": data}]})
    return cases


def boundaries():
    """Sizes and counts at the boundaries of one, two and four byte fields: string / opaque / array element sizes around 255 and 65535,
    element counts around 2^15 and 2^16, chunk extents and chunk counts around 255/256, data of more than 64 KiB and of exactly
    2^16 bytes, extents of 1 in every position of a rank-4 shape."""
    cases = []

    def add(dt, dims, chunk=None, data="rnd", sb=None):
        op = {"op": "mkds", "p": "/d", "dt": dt, "dims": dims}
        if chunk:
            op["chunk"] = chunk
        for v in ((0, 2, 3) if sb is None else (sb,)):
            cases.append({"cfg": {"sb": v, "rb": "", "style": 0, "tag": "C01-boundaries"}, "ops": [op, {"op": "write", "p": "/d", "data": data}]})
    for n in (254, 255, 256, 257, 65535, 65536):
        add("str%d" % n, [3])
        add("str%d" % n, [3], [2])
        add("opq%d" % n, [2])
    for n in (63, 64, 255, 256):
        add("arr%d" % n, [3], sb=2)
        add("arr%d" % n, [3], [2], sb=2)
    for n in (32767, 32768, 65535, 65536, 65537):
        add("u8", [n], sb=2)
        add("u8", [n], [4096], sb=0)
        add("i16", [n], [n], sb=3)
        add("f64", [n // 8 + 1], [255], sb=2)
    for dims, chunk in (([256, 256], [255, 1]), ([255, 257], [256, 256]), ([1, 300], [1, 255]), ([300, 1], [256, 1]),
                        ([1, 1, 1, 70000], [1, 1, 1, 65536]), ([2, 1, 3, 1], [1, 1, 2, 1]), ([1, 7, 1, 1], None)):
        add("u8", dims, chunk, sb=2)
        add("i32", dims, chunk, data="ext", sb=0)
    # thousands of chunks: the index (one node per level in this writer) passes 64 KiB and 65535 entries
    for dims, chunk in (([2730], [1]), ([2731], [1]), ([4100], [1]), ([66000], [1]), ([64, 33], [1, 1]), ([7, 7, 7, 5], [1, 1, 1, 1]), ([9000], [2])):
        add("u8", dims, chunk, sb=2)
        add("i32", dims, chunk, data="seq", sb=0 if len(dims) > 1 else 3)
    return cases


def run(ctx):
    thorough = ctx.tier == "thorough"
    models = [("C01Model.tla", "C01_thorough.cfg" if thorough else "C01_quick.cfg")]
    # the arithmetic of chunk tiling for ALL extents, chunk sizes and coordinates (Apalache; TLC checks GeomOK on the
    # enumerated shapes); the floor-instead-of-ceiling variant must be refuted
    import h5vlib as H
    if ctx.apalache("ChunkGeomLemmas.tla", "Init", "Lemmas", 0) != "ok":
        raise H.Infra("ChunkGeomLemmas: a tiling lemma no longer holds")
    if ctx.apalache("ChunkGeomLemmas.tla", "Init", "BadCover", 0) != "error":
        raise H.Infra("ChunkGeomLemmas: the wrong cover lemma is not refuted - the proof is vacuous")
    # the chunk index at design level: nodes of bounded capacity under as many levels as it takes reach every chunk; the
    # pinned code (one leaf, the count modulo the field) loses chunks from Cap + 1 on (repaired in a2aecef)
    ctx.model_check("ChunkIndex.tla", "ChunkIndex_design.cfg", workers=2, timeout=600)
    r = ctx.tlc("ChunkIndex.tla", "ChunkIndex_code_singleleaf.cfg", workers=1, timeout=300)
    if r.ok or not r.violated:
        raise H.Infra("ChunkIndex with CODE_SingleLeaf no longer yields a counterexample")
    return run_logical(
        ctx, LEVEL, models,
        extra_cases=many_chunks() + random_big(ctx, 6000 if thorough else 800) + boundaries(),
        stored_bytes_of=lambda c: c["ops"][0].get("dt") in ("arr3", "enumn", "opq4", "cmp"),
        nontrivial=lambda c: len(c["ops"][0].get("chunk") or []) > 0 or len(c["ops"][0]["dims"]) > 1 or c["ops"][0]["dims"][0] > 1,
        extra_cov={"unbounded_design_proof": {"tool": "apalache", "module": "spec/proofs/ChunkGeomLemmas.tla",
                                              "statement": "per dimension, for all extents d >= 1, chunk sizes c >= 1 and coordinates 0 <= x < d: the chunk x div c is a chunk "
                                                           "of the dataset and contains x, no other chunk does, no indexed chunk is empty, keys identify chunks, the chunks cover the extent",
                                              "sensitivity": "the cover lemma with floor instead of ceiling is refuted"}},
        rule="cases = the complete configuration lattice enumerated by TLC (C01Model: element type x rank x extents x "
             "every chunk shape <= extent incl. non-divisors and contiguous x data class x superblock 0/2/3; chunk geometry laws "
             "checked on each) plus seeded random larger shapes (prime extents up to 97, rank <= 4, up to hundreds of chunks); "
             "each is created, fully written, closed, reopened and every typed read compared with the written values; for arrays, "
             "enumerations, opaque and compound elements (no typed read in the library) the stored bytes are compared through the "
             "independent decoder in a second pass; "
             "non-trivial = more than one element or chunked; distinct by hash of the case")


def replay(ctx, body):
    return replay_logical(ctx, body)

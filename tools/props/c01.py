"""C01 - dataset write, close, reopen, read returns exactly what was written."""
import random

from props.logical import run_logical, replay_logical

LEVEL = "exploration"
PRIMES = [1, 2, 3, 5, 7, 11, 13, 17, 19, 23, 29, 31, 37, 41, 43, 47, 53, 59, 61, 67, 71, 73, 79, 83, 89, 97]


def random_big(ctx, n):
    rng = random.Random(ctx.seed * 49979687 + 1)
    dts = ["i8", "i16", "i32", "i64", "u8", "u16", "u32", "u64", "f32", "f64", "str8", "str1", "str33", "opq4", "cmp"]
    cases = []
    for k in range(n):
        rank = rng.choice([1, 1, 2, 2, 3, 4])
        lim = {1: 26, 2: 9, 3: 5, 4: 3}[rank]
        dims = [rng.choice(PRIMES[:lim]) for _ in range(rank)]
        op = {"op": "mkds", "p": "/d", "dt": rng.choice(dts), "dims": dims}
        if rng.random() < 0.75:
            op["chunk"] = [rng.randint(1, d) for d in dims]
        cases.append({"cfg": {"sb": rng.choice([0, 2, 3]), "rb": "", "style": 0, "tag": "C01-random"},
                      "ops": [op, {"op": "write", "p": "/d", "data": rng.choice(["ext", "rnd", "neg", "seq", "zero"])}]})
    return cases


def many_chunks():
    """Datasets with hundreds of chunks: counts around 255/256 and 64 (one byte, node capacity)."""
    cases = []
    for sb in (0, 2, 3):
        for dims, chunk in (([63], [1]), ([64], [1]), ([65], [1]), ([255], [1]), ([256], [1]), ([257], [1]), ([600], [2]),
                            ([16, 16], [1, 1]), ([17, 16], [1, 1]), ([20, 20], [1, 1]), ([9, 9, 9], [2, 2, 2])):
            for dt, data in (("i32", "seq"), ("f64", "rnd")):
                cases.append({"cfg": {"sb": sb, "rb": "", "style": 0, "tag": "C01-many-chunks"},
                              "ops": [{"op": "mkds", "p": "/d", "dt": dt, "dims": dims, "chunk": chunk}, {"op": "write", "p": "/d", "data": data}]})
    return cases


def run(ctx):
    thorough = ctx.tier == "thorough"
    models = [("C01Model.tla", "C01_thorough.cfg" if thorough else "C01_quick.cfg")]
    # the arithmetic of chunk tiling for ALL extents, chunk sizes and coordinates (Apalache; TLC checks GeomOK on the
    # enumerated shapes); the floor-instead-of-ceiling variant must be refuted
    import h5vlib as H
    if ctx.apalache("ChunkGeomLemmas.tla", "Init", "Lemmas", 0) != "ok":
        raise H.Infra("ChunkGeomLemmas: a tiling lemma no longer holds")
    if ctx.apalache("ChunkGeomLemmas.tla", "Init", "BadCover", 0) != "error":
        raise H.Infra("ChunkGeomLemmas: the wrong cover lemma is not refuted - the proof is vacuous")
    return run_logical(
        ctx, LEVEL, models,
        extra_cases=many_chunks() + random_big(ctx, 6000 if thorough else 800),
        stored_bytes_of=lambda c: c["ops"][0].get("dt") in ("arr3", "enumn", "opq4", "cmp"),
        nontrivial=lambda c: len(c["ops"][0].get("chunk") or []) > 0 or len(c["ops"][0]["dims"]) > 1 or c["ops"][0]["dims"][0] > 1,
        extra_cov={"unbounded_design_proof": {"tool": "apalache", "module": "spec/proofs/ChunkGeomLemmas.tla",
                                              "statement": "per dimension, for all extents d >= 1, chunk sizes c >= 1 and coordinates 0 <= x < d: the chunk x div c is a chunk "
                                                           "of the dataset and contains x, no other chunk does, no indexed chunk is empty, keys identify chunks, the chunks cover the extent",
                                              "sensitivity": "the cover lemma with floor instead of ceiling is refuted"}},
        rule="cases = the complete configuration lattice enumerated by TLC (C01Model: element type x rank x extents x "
             "every chunk shape <= extent incl. non-divisors and contiguous x data class x superblock 0/2/3; chunk geometry laws "
             "checked on each) plus seeded random larger shapes (prime extents up to 97, rank <= 4, up to hundreds of chunks); "
             "each is created, fully written, closed, reopened and every typed read compared with the written values; for arrays, "
             "enumerations, opaque and compound elements (no typed read in the library) the stored bytes are compared through the "
             "independent decoder in a second pass; "
             "non-trivial = more than one element or chunked; distinct by hash of the case")


def replay(ctx, body):
    return replay_logical(ctx, body)

"""C16 - a write call that returns an error changes nothing; the writer stays usable."""
import copy
import random

from props.logical import run_logical, replay_logical

LEVEL = "model_checking"

BASES = [
    [{"op": "mkgroup", "p": "/g"}, {"op": "mkds", "p": "/g/d", "dt": "i32", "dims": [4], "chunk": [2], "max": [6]},
     {"op": "write", "p": "/g/d", "data": "seq"}, {"op": "attr", "p": "/g/d", "n": "a", "v": "i32"}],
    [{"op": "mkds", "p": "/x", "dt": "f64", "dims": [2, 3]}, {"op": "write", "p": "/x", "data": "ext"},
     {"op": "attr", "p": "/x", "n": "a", "v": "s40"}, {"op": "hlink", "p": "/lx", "t": "/x"}],
    [{"op": "mkgroup", "p": "/a"}, {"op": "mkgroup", "p": "/a/b"}, {"op": "attr", "p": "/a/b", "n": "n", "v": "ad3"},
     {"op": "mkds", "p": "/a/b/s", "dt": "str8", "dims": [2]}, {"op": "write", "p": "/a/b/s", "data": "rnd"}],
    # hard links FOLLOWED by attributes on their target (what a failing call might roll back is then not the link's own trace)
    [{"op": "mkds", "p": "/y", "dt": "i32", "dims": [3]}, {"op": "write", "p": "/y", "data": "seq"}, {"op": "hlink", "p": "/ly", "t": "/y"},
     {"op": "attr", "p": "/y", "n": "a", "v": "i32"}, {"op": "attr", "p": "/y", "n": "b", "v": "s40"}, {"op": "mkgroup", "p": "/h"},
     {"op": "hlink", "p": "/h/l2", "t": "/y"}, {"op": "attr", "p": "/y", "n": "c", "v": "ad3"}],
    # a resizable dataset without a maximum, hard-linked, with attributes in dense storage
    [{"op": "mkds", "p": "/z", "dt": "i64", "dims": [4], "chunk": [2], "max": [-1]}, {"op": "write", "p": "/z", "data": "seq"},
     {"op": "hlink", "p": "/lz", "t": "/z"}] + [{"op": "attr", "p": "/z", "n": "n%d" % i, "v": ["i32", "s40", "f64"][i % 3]} for i in range(10)],
    # a resizable dataset of rank 2 (a refused Resize must leave every dimension's bookkeeping alone)
    [{"op": "mkds", "p": "/m", "dt": "i32", "dims": [4, 4], "chunk": [2, 2], "max": [8, 8]}, {"op": "write", "p": "/m", "data": "seq"},
     {"op": "attr", "p": "/m", "n": "a", "v": "i32"}, {"op": "write", "p": "/m", "data": "rnd"}],
]

# the failure catalogue: calls chosen to fail at each validation point (whether the library really
# refuses each one is not assumed: an accepted call is simply applied to the model)
def failing_ops(base):
    ds = [o["p"] for o in base if o["op"] == "mkds"]
    gs = [o["p"] for o in base if o["op"] == "mkgroup"]
    d = ds[0]
    out = [
        {"op": "mkgroup", "p": ""}, {"op": "mkgroup", "p": "nogroup"}, {"op": "mkgroup", "p": "/"},
        {"op": "mkgroup", "p": "/q//r"}, {"op": "mkgroup", "p": "/missing/child"},
        {"op": "mkds", "p": "", "dt": "i32", "dims": [2]}, {"op": "mkds", "p": "/missing/d", "dt": "i32", "dims": [2]},
        {"op": "mkds", "p": "/bad0", "dt": "i32", "dims": []}, {"op": "mkds", "p": "/bad1", "dt": "i32", "dims": [0]},
        {"op": "mkds", "p": "/bad2", "dt": "i32", "dims": [4], "chunk": [5]},
        {"op": "mkds", "p": "/bad3", "dt": "i32", "dims": [4], "chunk": [2, 2]},
        {"op": "mkds", "p": "/bad4", "dt": "i32", "dims": [4], "chunk": [0]},
        {"op": "mkds", "p": "/bad5", "dt": "i32", "dims": [4], "chunk": [2], "max": [3]},
        {"op": "mkds", "p": "/bad6", "dt": "i32", "dims": [4], "max": [8]},
        {"op": "mkds", "p": "/bad7", "dt": "str0", "dims": [2]}, {"op": "mkds", "p": "/bad8", "dt": "opq0", "dims": [2]},
        {"op": "mkds", "p": "/bad9", "dt": "arr0", "dims": [2]},
        {"op": "mkds", "p": "/bad10", "dt": "i32", "dims": [4], "flt": "gzip6"},
        {"op": "mkds", "p": "/bad11", "dt": "i32", "dims": [4], "chunk": [2], "flt": "gzip99"},
        {"op": "mkds", "p": d, "dt": "i32", "dims": [2]}, {"op": "mkgroup", "p": d},
        {"op": "write", "p": d, "data": "short"}, {"op": "write", "p": d, "data": "long"}, {"op": "write", "p": d, "data": "wrongtype"},
        {"op": "attr", "p": d, "n": "z", "v": "bad"}, {"op": "delattr", "p": d, "n": "absent"},
        {"op": "resize", "p": d, "dims": [99]}, {"op": "resize", "p": d, "dims": [2, 2]}, {"op": "resize", "p": d, "dims": [0]},
        {"op": "hlink", "p": "/hl", "t": "/nothing"}, {"op": "hlink", "p": d, "t": d}, {"op": "hlink", "p": "/missing/hl", "t": d},
        {"op": "slink", "p": d, "t": "/x"}, {"op": "slink", "p": "", "t": "/x"}, {"op": "xlink", "p": d, "f": "o.h5", "t": "/x"},
        {"op": "xlink", "p": "/xl", "f": "", "t": "/x"},
    ]
    # a zero extent in each dimension in turn, the other dimensions unchanged, smaller and larger
    dd = [o for o in base if o["op"] == "mkds" and o["p"] == d][0]
    if dd.get("max"):
        for k in range(len(dd["dims"])):
            for other in (lambda x: x, lambda x: max(1, x // 2), lambda x: 2 * x):
                nd = [other(x) for x in dd["dims"]]
                nd[k] = 0
                out.append({"op": "resize", "p": d, "dims": nd})
        out.append({"op": "resize", "p": d, "dims": [x * 50 for x in dd["dims"]]})
    for g in gs[:1]:
        out += [{"op": "mkgroup", "p": g}, {"op": "mkds", "p": g, "dt": "i8", "dims": [1]}]
    # a hard link under a name that is taken (by a link to the same target, or to anything)
    for o in base:
        if o["op"] == "hlink":
            out += [{"op": "hlink", "p": o["p"], "t": o["t"]}, {"op": "hlink", "p": o["p"], "t": d}]
    # names with an empty component
    out += [{"op": "mkds", "p": "//", "dt": "i32", "dims": [2]}, {"op": "mkds", "p": "/", "dt": "i32", "dims": [2]},
            {"op": "mkds", "p": (gs[0] if gs else "") + "//", "dt": "i32", "dims": [2]}, {"op": "mkds", "p": "/tr/", "dt": "i32", "dims": [2]},
            {"op": "mkds", "p": "//dbl", "dt": "i32", "dims": [2]}, {"op": "mkgroup", "p": "//"}, {"op": "mkgroup", "p": "/tg/"},
            {"op": "hlink", "p": "//", "t": d}, {"op": "hlink", "p": "/hl/", "t": d}, {"op": "slink", "p": "//", "t": "/x"}]
    # sizes whose byte count overflows 64 bits / is absurd: refused or not, the call must be all or nothing
    huge = 1 << 62
    out += [{"op": "mkds", "p": "/huge1", "dt": "i64", "dims": [huge], "chunk": [2]},
            {"op": "mkds", "p": "/huge2", "dt": "i64", "dims": [huge], "chunk": [2], "max": [-1]},
            {"op": "mkds", "p": "/huge3", "dt": "i64", "dims": [huge]},
            {"op": "mkds", "p": "/huge4", "dt": "f64", "dims": [1 << 31, 1 << 31], "chunk": [2, 2]},
            {"op": "resize", "p": d, "dims": [huge]}, {"op": "resize", "p": d, "dims": [1 << 61]}]
    return out


def mark_sure(base):
    b = copy.deepcopy(base)
    for o in b:
        o["sure"] = True
    return b


def catalogue(ctx, thorough):
    rng = random.Random(ctx.seed * 86028121 + 16)
    cases = []
    for bi, base in enumerate(BASES):
        fails = failing_ops(base)
        base = mark_sure(base)
        for f in fails:
            for pos in range(len(base) + 1):
                ops = copy.deepcopy(base[:pos]) + [copy.deepcopy(f)] + copy.deepcopy(base[pos:])
                cases.append({"cfg": {"sb": [2, 0, 3][(bi + pos) % 3], "rb": "", "style": 0, "tag": "C16-cat" }, "ops": ops})
        # two failing calls, and calls on a closed writer, Close x 1..3
        for _ in range(60 if thorough else 15):
            f1, f2 = rng.choice(fails), rng.choice(fails)
            p1, p2 = sorted([rng.randint(0, len(base)), rng.randint(0, len(base))])
            ops = copy.deepcopy(base[:p1]) + [copy.deepcopy(f1)] + copy.deepcopy(base[p1:p2]) + [copy.deepcopy(f2)] + copy.deepcopy(base[p2:])
            cases.append({"cfg": {"sb": rng.choice([0, 2, 3]), "rb": "", "style": 0, "tag": "C16-two" }, "ops": ops})
        for nclose in (1, 2, 3):
            for pos in range(1, len(base) + 1):
                ops = copy.deepcopy(base[:pos]) + [{"op": "fclose"}] * nclose + copy.deepcopy(base[pos:])
                cases.append({"cfg": {"sb": 2, "rb": "", "style": 0, "tag": "C16-closed" }, "ops": ops})
        # the same on a writer that was opened for modification (a second session): handles of the session, the writer itself
        dsets = [o["p"] for o in base if o["op"] == "mkds"]
        for sb in (2, 0, 3):
            for nclose in (1, 2):
                ops = copy.deepcopy(base) + [{"op": "session"}] + [{"op": "opends", "p": p} for p in dsets] + [{"op": "fclose"}] * nclose
                for p in dsets[:2]:
                    ops += [{"op": "attr", "p": p, "n": "late", "v": "i32"}, {"op": "delattr", "p": p, "n": "a"}, {"op": "write", "p": p, "data": "seq"}]
                ops += [{"op": "mkgroup", "p": "/lateg"}, {"op": "slink", "p": "/lates", "t": "/x"}, {"op": "hlink", "p": "/lateh", "t": dsets[0]},
                        {"op": "mkds", "p": "/lated", "dt": "i32", "dims": [2]}, {"op": "xlink", "p": "/latex", "f": "o.h5", "t": "/x"}, {"op": "opends", "p": dsets[0]}]
                cases.append({"cfg": {"sb": sb, "rb": "", "style": 0, "tag": "C16-closed-session"}, "ops": ops})
    # header-capacity point: a hard link needs a reference-count message in the target's header; with one
    # attribute of the right size the header is too full for it and the link call must fail without a trace
    for L in range(120, 175):
        ops = [{"op": "mkds", "p": "/t", "dt": "i32", "dims": [2]}, {"op": "write", "p": "/t", "data": "seq"},
               {"op": "attr", "p": "/t", "n": "big", "v": "s%d" % L}, {"op": "hlink", "p": "/alias", "t": "/t"},
               {"op": "mkds", "p": "/after", "dt": "u8", "dims": [2], "sure": True}, {"op": "write", "p": "/after", "data": "seq", "sure": True},
               {"op": "hlink", "p": "/alias2", "t": "/after", "sure": True}]
        cases.append({"cfg": {"sb": [2, 0, 3][L % 3], "rb": "", "style": 0, "tag": "C16-hdrfull-hlink"}, "ops": ops})
        ops = [{"op": "mkgroup", "p": "/g"}, {"op": "attr", "p": "/g", "n": "big", "v": "s%d" % (L + 40)},
               {"op": "hlink", "p": "/galias", "t": "/g"}, {"op": "mkds", "p": "/g/m", "dt": "u8", "dims": [1]}]
        cases.append({"cfg": {"sb": 2, "rb": "", "style": 0, "tag": "C16-hdrfull-hlink-group"}, "ops": ops})
    # capacity points: 33rd entry in a group, name heap full, header/index growth (not marked sure)
    for sb in (0, 2, 3):
        ops = [{"op": "mkgroup", "p": "/g"}]
        for i in range(36):
            ops.append({"op": "mkds" if i % 2 else "mkgroup", "p": "/g/e%02d" % i, "dt": "u8", "dims": [1]})
        ops += [{"op": "mkds", "p": "/after", "dt": "i32", "dims": [2]}, {"op": "write", "p": "/after", "data": "seq"}]
        cases.append({"cfg": {"sb": sb, "rb": "", "style": 0, "tag": "C16-cap32"}, "ops": ops})
        ops = []
        for i in range(8):
            ops.append({"op": "mkgroup", "p": "/" + ("n%d" % i) + "x" * 60})
        ops += [{"op": "mkds", "p": "/after", "dt": "i32", "dims": [2]}, {"op": "write", "p": "/after", "data": "seq"}]
        cases.append({"cfg": {"sb": sb, "rb": "", "style": 0, "tag": "C16-heapfull"}, "ops": ops})
        ops = [{"op": "mkds", "p": "/d", "dt": "i32", "dims": [2]}, {"op": "write", "p": "/d", "data": "seq"}]
        for i in range(40):
            ops.append({"op": "attr", "p": "/d", "n": "n%d" % i, "v": rng.choice(["s150", "ad30", "i32"])})
            if i % 7 == 6:
                ops.append({"op": "attr", "p": "/d", "n": "zz", "v": "bad"})
        cases.append({"cfg": {"sb": sb, "rb": "", "style": 0, "tag": "C16-manyattrs"}, "ops": ops})
    return cases


def run(ctx):
    thorough = ctx.tier == "thorough"
    models = [("C16Model.tla", "C16_thorough.cfg" if thorough else "C16_quick.cfg"), ("C16Model.tla", "C16_sb.cfg")]
    return run_logical(
        ctx, LEVEL, models,
        extra_cases=catalogue(ctx, thorough),
        nontrivial=lambda c: len(c["ops"]) >= 3,
        rule="cases = every history of <= Depth calls generated by TLC from H5Logical with all rejected-call actions enabled "
             "(duplicate, missing parent, mismatching write, unsupported attribute value, absent delete, resize beyond max / "
             "wrong rank, calls on a closed writer, repeated Close) plus the failure catalogue: 5 valid base histories (two of them with "
             "hard links followed by attributes on the target, one with dense attributes and an unlimited maximum) with each of "
             "~45 invalid calls (incl. hard links under a taken name, extents whose byte size overflows) inserted at every position, pairs of failures, Close x1..3 at every position, capacity points "
             "(33rd group entry, name heap, many attributes); a failed call must leave the reopened content equal to the model "
             "that ignored it, later valid calls must succeed (sure cases), nothing may panic; non-trivial = >= 3 calls")


def replay(ctx, body):
    return replay_logical(ctx, body)

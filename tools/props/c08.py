"""C08 - filter pipelines are lossless, self-compatible and detect corruption."""
import json
import time

import h5vlib as H

LEVEL = "exploration"
ASSUME = ["payload classes stand for all byte strings (empty, 1 byte, not a multiple of the element width, repetitive, incompressible, 1 MiB in thorough)",
          "TLC/SANY, Go toolchain"]


def run(ctx):
    thorough = ctx.tier == "thorough"
    lines, gr = ctx.generate("C08Model.tla", "C08_thorough.cfg" if thorough else "C08_quick.cfg")
    cases = [json.loads(x) for x in lines]
    path = ctx.write_cases(cases)
    trace, out = ctx.drive("c08", path)
    H.log(out.strip())
    verdict, vs = ctx.validate("C08Trace.tla", "C08_trace.cfg", trace)
    nviol, known = H.report(ctx, verdict["bad"], lambda i: cases[i], trace)

    # binding self-test: a decode path reported as differing / an undetected corruption must be objected to
    def _path(k):
        def f(evs):
            for e in evs:
                if e.get("op") == "filter" and e.get("enc") == "ok" and e.get(k) == "eq":
                    e[k] = "neq"
                    return evs
            return None
        return f

    def _corruption_accepted(evs):
        for e in evs:
            if e.get("op") == "filter" and e.get("enc") == "ok" and e.get("corrupt", 0) > 0 and e.get("wneq") == 0 and e.get("wacc") == 0:
                e["wneq"], e["wother"] = 1, 1       # the writer's decoder returned other data for one altered chunk
                return evs
        return None
    selftest = H.binding_selftest(ctx, "C08Trace.tla", "C08_trace.cfg", trace,
                                  [("writer-remove-differs", _path("p1")), ("reader-direct-differs", _path("p3")),
                                   ("corrupted-chunk-decoded-to-other-data", _corruption_accepted)], max_cases=2000, allow_rejected=True)
    st = verdict["stats"]
    cov = {
        "binding_selftest": selftest,
        "evaluations": len(cases) + st["corruptions"],
        "distinct_nontrivial": len({H.nontrivial_hash(c) for c in cases if len(c["pipe"]) >= 1 and c["payload"] != "empty"}),
        "rule": "cases = every ordered subset of {deflate, shuffle, fletcher32, lzf} (65 pipelines, FilterPipe laws checked by TLC) x deflate levels "
                "x shuffle widths x payload classes, enumerated by TLC; four decode paths per case (writer Remove, reader via the writer's pipeline "
                "message, reader given the filter list directly, end-to-end chunked dataset where the public options express the pipeline) and, "
                "for Fletcher-32 pipelines, every single-byte corruption of the stored chunk on both decoders; non-trivial = non-empty pipeline "
                "and payload",
        "samples": [cases[0], cases[len(cases) // 2], cases[-1]],
        "states": gr.distinct, "transitions": gr.generated, "exhaustive": False,
        "trace_stats": st, "rejected_cases": len(verdict["bad"]), "known_findings_matched": known,
    }
    H.write_evidence(ctx, LEVEL, cov, ASSUME, nviol)
    H.log("C08 %s: cases=%d rejected=%d violations=%d known=%s wall=%.1fs" % (ctx.tier, len(cases), len(verdict["bad"]), nviol, known, time.time() - ctx.t0))
    return 1 if nviol else 0


def replay(ctx, body):
    path = ctx.write_cases([body["case"]])
    trace, _ = ctx.drive("c08", path)
    verdict, _ = ctx.validate("C08Trace.tla", "C08_trace.cfg", trace)
    H.log("VERDICT " + json.dumps(verdict))
    return 1 if verdict["bad"] else 0

"""C17 - truncated files and failing I/O produce errors, never different answers."""
import concurrent.futures
import json
import os
import shutil
import subprocess
import time

import h5vlib as H

LEVEL = "fault_enumeration"
ASSUME = ["per-call I/O faults are injected with strace (-e inject=pread64|pwrite64:error=EIO:when=k); if ptrace is unavailable that part is "
          "skipped and reported, truncation still decides", "results are compared call by call with the fault-free run of the same calls",
          "TLC/SANY, Go toolchain"]
REF = ["with_groups.h5", "test_attributes.h5", "compound_test.h5", "string_test.h5", "test_3d_chunked.h5", "v0.h5", "v3.h5",
       "various_types.h5", "with_attributes.h5", "vlen_strings.h5",
       # version 0 files of the reference library with nested groups (cached symbol tables) and continuation blocks
       "hdf5_official/tname-amp.h5", "hdf5_official/tgroup.h5", "hdf5_official/tattr.h5", "hdf5_official/torderattr.h5",
       # chunked datasets behind filters that cannot notice garbage themselves (shuffle only, Fletcher-32 only): a failed chunk
       # read must surface as an error, the filter must not be handed whatever the buffer held
       "hdf5_official/h5repack_shuffle.h5", "hdf5_official/h5repack_fletcher.h5"]


def strace_ok():
    try:
        p = subprocess.run(["strace", "-f", "-o", "/dev/null", "-e", "trace=pread64", "-e", "inject=pread64:error=EIO:when=60000", "true"],
                           stdout=subprocess.PIPE, stderr=subprocess.PIPE, timeout=20)
        return p.returncode == 0
    except Exception:
        return False


def count_calls(h5v, args, syscall, scr, tag):
    cnt = os.path.join(scr, "cnt_%s.txt" % tag)
    subprocess.run(["strace", "-f", "-c", "-o", cnt, "-e", "trace=" + syscall] + [h5v] + args, stdout=subprocess.PIPE, stderr=subprocess.PIPE, timeout=120)
    n = 0
    try:
        for line in open(cnt):
            parts = line.split()
            if parts and parts[-1] == syscall:
                n = int(parts[3])
    except OSError:
        pass
    return n


def run(ctx):
    thorough = ctx.tier == "thorough"
    ctx.build()
    # 0. the fault model
    design = ctx.model_check("FaultIO.tla", "C17_design.cfg", workers=2)
    code = ctx.tlc("FaultIO.tla", "C17_code.cfg", workers=2, timeout=120)
    if code.ok or not code.violated:
        raise H.Infra("FaultIO with CODE_SwallowChildError no longer violates FaultOutcome")
    # 1. subjects: library-written files + reference files
    listp = os.path.join(ctx.scr, "libfiles.json")
    p = subprocess.run([ctx.h5v, "c17", "-mode", "mkfiles", "-dir", ctx.files, "-out", listp], stdout=subprocess.PIPE, stderr=subprocess.STDOUT, text=True)
    if p.returncode != 0:
        raise H.Infra("could not write the sample files: " + p.stdout[-500:])
    subjects = json.load(open(listp))
    for r in REF:
        src = os.path.join(ctx.repo, "testdata", r)
        if os.path.exists(src) and os.path.getsize(src) > 0:
            dst = os.path.join(ctx.files, "ref_" + os.path.basename(r))
            shutil.copy(src, dst)
            subjects.append(dst)
    # 2. truncation: every length for files <= 8 KiB (quick: every length of the library files, stride for the others)
    cases = []
    for s in subjects:
        size = os.path.getsize(s)
        lib = os.path.basename(s).startswith("lib_")
        if size <= 8192 and (thorough or lib):
            lens = list(range(size))
        else:
            step = 7 if thorough else 37
            lens = sorted(set(list(range(0, size, step)) + list(range(0, min(size, 600))) + list(range(max(0, size - (6000 if lib else 200)), size))))
        cases.append({"file": s, "lengths": lens})
    cpath = ctx.write_cases(cases)
    trace = os.path.join(ctx.scr, "trace.ndjson")
    p = subprocess.run([ctx.h5v, "c17", "-mode", "trunc", "-in", cpath, "-out", trace, "-dir", ctx.files, "-workers", str(ctx.workers)],
                       stdout=subprocess.PIPE, stderr=subprocess.STDOUT, text=True, timeout=1800)
    if p.returncode != 0:
        raise H.Infra("truncation driver failed: " + p.stdout[-800:])
    H.log(p.stdout.strip())
    ntrunc = sum(len(c["lengths"]) for c in cases)
    # 3. failing I/O calls (syscall injection)
    ninj, inj_note = 0, "strace injection unavailable: skipped"
    if strace_ok():
        inj_note = "ok"
        extra = []
        case_id = len(cases)

        def project(tag, path, k, sysc):
            out = os.path.join(ctx.scr, "inj_%s_%s_%d.json" % (tag, sysc, k))
            cmd = ["strace", "-f", "-o", "/dev/null", "-e", "trace=" + sysc, "-e", "inject=%s:error=EIO:when=%d" % (sysc, k),
                   ctx.h5v, "c17", "-mode", "project", "-file", path, "-out", out]
            subprocess.run(cmd, stdout=subprocess.PIPE, stderr=subprocess.PIPE, timeout=120)
            try:
                return json.load(open(out))
            except Exception:
                return {"open": "panic", "msg": "process died"}
            finally:
                if os.path.exists(out):
                    os.remove(out)

        rsubjects = subjects[:2] + [s for s in subjects if "with_groups" in s or "test_attributes" in s or "3d_chunked" in s
                                    or "h5repack_shuffle" in s or "h5repack_fletcher" in s]
        if thorough:
            rsubjects = subjects
        with concurrent.futures.ThreadPoolExecutor(max_workers=ctx.workers) as ex:
            for s in rsubjects:
                tag = os.path.basename(s).replace(".", "_")
                n = count_calls(ctx.h5v, ["c17", "-mode", "project", "-file", s, "-out", os.path.join(ctx.scr, "x.json")], "pread64", ctx.scr, tag)
                if n == 0:
                    continue
                base = json.load(open(os.path.join(ctx.scr, "x.json")))
                ks = list(range(1, n + 1))
                results = list(ex.map(lambda k: project(tag, s, k, "pread64"), ks))
                extra.append({"case": case_id, "op": "reset", "cfg": {"file": os.path.basename(s), "size": os.path.getsize(s), "kind": "pread", "calls": n}})
                extra.append({"case": case_id, "op": "intact", "res": base})
                for k, r in zip(ks, results):
                    extra.append({"case": case_id, "op": "fault", "kind": "pread", "k": k, "res": r})
                    ninj += 1
                case_id += 1
            # writer scenario under failing writes
            wpath = os.path.join(ctx.files, "wscen.h5")
            wout = os.path.join(ctx.scr, "w.json")
            subprocess.run([ctx.h5v, "c17", "-mode", "write", "-file", wpath, "-out", wout], stdout=subprocess.PIPE, stderr=subprocess.PIPE, timeout=120)
            wbase = json.load(open(wout))
            subprocess.run([ctx.h5v, "c17", "-mode", "project", "-file", wpath, "-out", wout], stdout=subprocess.PIPE, stderr=subprocess.PIPE, timeout=120)
            rbase = json.load(open(wout))
            nw = count_calls(ctx.h5v, ["c17", "-mode", "write", "-file", wpath, "-out", wout], "pwrite64", ctx.scr, "w")

            def wfault(k):
                pth = os.path.join(ctx.files, "wscen_%d.h5" % k)
                o1 = os.path.join(ctx.scr, "w_%d.json" % k)
                subprocess.run(["strace", "-f", "-o", "/dev/null", "-e", "trace=pwrite64", "-e", "inject=pwrite64:error=EIO:when=%d" % k,
                                ctx.h5v, "c17", "-mode", "write", "-file", pth, "-out", o1], stdout=subprocess.PIPE, stderr=subprocess.PIPE, timeout=120)
                try:
                    calls = json.load(open(o1))
                except Exception:
                    calls = {"00process": "panic"}
                rb = {}
                if os.path.exists(pth):
                    o2 = o1 + ".rb"
                    subprocess.run([ctx.h5v, "c17", "-mode", "project", "-file", pth, "-out", o2], stdout=subprocess.PIPE, stderr=subprocess.PIPE, timeout=120)
                    try:
                        rb = json.load(open(o2))
                    except Exception:
                        rb = {"open": "panic"}
                    os.remove(pth)
                return calls, rb

            if nw > 0:
                wr = list(ex.map(wfault, range(1, nw + 1)))
                extra.append({"case": case_id, "op": "reset", "cfg": {"file": "writer-scenario", "size": 0, "kind": "pwrite", "calls": nw}})
                extra.append({"case": case_id, "op": "intact", "res": {"calls": wbase, "readback": rbase}})
                for k, (calls, rb) in enumerate(wr, 1):
                    extra.append({"case": case_id, "op": "wfault", "kind": "pwrite", "k": k, "calls": calls, "readback": rb})
                    ninj += 1
        with open(trace, "a") as f:
            for e in extra:
                f.write(json.dumps(e) + "\n")
    verdict, vs = ctx.validate("C17Trace.tla", "C17_trace.cfg", trace)
    nviol, known = H.report(ctx, verdict["bad"], None, None)

    def _smaller_answer(evs):
        """a truncated read that answered with an error is recorded as having answered 'ok' with another value"""
        for e in evs:
            if e.get("op") == "fault" and isinstance(e.get("res"), dict):
                for call, r in e["res"].items():
                    if isinstance(r, str) and r == "err" and call != "open":
                        e["res"][call] = "ok:altered"
                        return evs
        return None
    selftest = H.binding_selftest(ctx, "C17Trace.tla", "C17_trace.cfg", trace, [("error-recorded-as-different-answer", _smaller_answer)], max_cases=3)
    st = verdict["stats"]
    cov = {
        "binding_selftest": selftest,
        "evaluations": st["faults"] + len(verdict["bad"]),
        "distinct_nontrivial": ntrunc + ninj,
        "rule": "faults = every truncation length of the two library-written sample files (v0 and v2 superblock: groups, attributes, contiguous, "
                "chunked, strings, hard link) and a stride plus head/tail of 10 reference files (all lengths in thorough), and the k-th pread64 of a "
                "full projection failing with EIO for every k (library files + 3 reference files; all in thorough), and the k-th pwrite64 of the "
                "writer scenario failing for every k; each fault yields the result of every read API call, compared by TLC with the fault-free "
                "results; distinct_nontrivial = number of distinct faults injected",
        "samples": [{"file": os.path.basename(cases[0]["file"]), "lengths": cases[0]["lengths"][:10]}, {"injection": inj_note, "faults": ninj}],
        "fault_model": {"module": "FaultIO", "design_states": design.distinct, "code_switch_counterexample": code.violated},
        "truncations": ntrunc, "io_faults": ninj, "injection": inj_note, "trace_stats": st, "known_findings_matched": known, "exhaustive": False,
    }
    H.write_evidence(ctx, LEVEL, cov, ASSUME, nviol)
    H.log("C17 %s: truncations=%d io-faults=%d (%s) rejected=%d violations=%d known=%s wall=%.1fs" % (
        ctx.tier, ntrunc, ninj, inj_note, len(verdict["bad"]), nviol, known, time.time() - ctx.t0))
    return 1 if nviol else 0


def replay(ctx, body):
    H.log("C17 replay: re-run ./run.sh C17 quick; failing item: " + json.dumps(body.get("diag")))
    return run(ctx)

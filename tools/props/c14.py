"""C14 - the B-tree v2 name index is a faithful, persistent map under any history; hash = lookup3."""
import json
import random
import time

import h5vlib as H

LEVEL = "model_checking"
ASSUME = ["independent lookup3 implementation (harness/lookup3, written from lookup3.c) is the hash reference",
          "projection = GetRecords / header counters / SearchRecord / HasKey of the real WritableBTreeV2",
          "TLC/SANY, Go toolchain"]


def long_traces(ctx, n, nops):
    rng = random.Random(ctx.seed * 122949829 + 14)
    cases = []
    for k in range(n):
        names = ["k%d" % i for i in range(rng.choice([380, 400, 450]))]
        live, ops = set(), []
        for i in range(nops):
            r = rng.random()
            grow = len(live) < 365 or rng.random() < 0.5
            if r < (0.75 if grow else 0.25):
                nm = rng.choice(names)
                ops.append({"op": "ins", "n": nm})
                live.add(nm)
            elif r < 0.85 and live:
                ops.append({"op": "upd", "n": rng.choice(sorted(live)) if rng.random() < 0.8 else rng.choice(names)})
            elif r < 0.97 and live:
                nm = rng.choice(sorted(live)) if rng.random() < 0.8 else rng.choice(names)
                ops.append({"op": "del", "n": nm})
                live.discard(nm)
            else:
                ops.append({"op": rng.choice(["write", "load", "rebalance", "write"]), "n": ""})
        cases.append({"cfg": {"mode": ["immediate", "rebal", "lazy", "incremental"][k % 4], "cap": 0, "style": 4}, "ops": ops})
    return cases


def capacity_boundaries():
    """The node exactly full (371 records), one more (refused), a slot freed and taken again; exactly half full (185/186: where deferred
    deletion starts to defer) - written out and loaded back at each of these points, in every deletion mode."""
    cases = []
    for mode in ("immediate", "rebal", "lazy", "incremental"):
        for full in (370, 371):
            ops = [{"op": "ins", "n": "k%d" % i} for i in range(full)]
            ops += [{"op": "write", "n": ""}, {"op": "load", "n": ""}, {"op": "ins", "n": "x1"}, {"op": "ins", "n": "x2"}, {"op": "write", "n": ""}, {"op": "load", "n": ""},
                    {"op": "del", "n": "k5"}, {"op": "ins", "n": "x3"}, {"op": "ins", "n": "x4"}, {"op": "upd", "n": "k10"}, {"op": "write", "n": ""}, {"op": "load", "n": ""},
                    {"op": "del", "n": "x3"}, {"op": "del", "n": "k0"}, {"op": "rebalance", "n": ""}, {"op": "write", "n": ""}, {"op": "load", "n": ""}]
            cases.append({"cfg": {"mode": mode, "cap": 0, "style": 4}, "ops": ops})
        for n in (185, 186, 187):
            ops = [{"op": "ins", "n": "k%d" % i} for i in range(n)]
            ops += [{"op": "del", "n": "k3"}, {"op": "write", "n": ""}, {"op": "load", "n": ""}, {"op": "del", "n": "k4"}, {"op": "del", "n": "k5"}, {"op": "write", "n": ""},
                    {"op": "load", "n": ""}, {"op": "ins", "n": "k3"}, {"op": "upd", "n": "k7"}, {"op": "rebalance", "n": ""}, {"op": "write", "n": ""}, {"op": "load", "n": ""}]
            cases.append({"cfg": {"mode": mode, "cap": 0, "style": 4}, "ops": ops})
    return cases


def run(ctx):
    thorough = ctx.tier == "thorough"
    mc = ctx.model_check("C14MC.tla", "C14_mc_thorough.cfg" if thorough else "C14_mc.cfg", workers=min(8, ctx.workers), coverage=thorough)
    cex = []
    for cfg in ("C14_code1.cfg", "C14_code2.cfg"):
        r = ctx.tlc("C14MC.tla", cfg, workers=4, timeout=300)
        if r.ok or not r.violated:
            raise H.Infra("BTreeV2 with %s no longer yields a counterexample" % cfg)
        cex.append(r.violated)
    lines, gr = ctx.generate("C14Gen.tla", "C14_gen_thorough.cfg" if thorough else "C14_gen_quick.cfg")
    cases = [json.loads(x) for x in lines]
    # the model's a/c hash collision is realised in the names of half of the cases (style 3: constructed
    # colliding pair) and absent in the other half (style 0), all of them in the thorough tier
    if thorough:
        import copy
        plain = copy.deepcopy(cases)
        for c in cases:
            c["cfg"]["style"] = 3
        for c in plain:
            c["cfg"]["style"] = 0
        cases += plain
    else:
        for i, c in enumerate(cases):
            c["cfg"]["style"] = 3 if i % 2 else 0
    # boundary pre-state: the same histories on an index that already holds a record (histories with a
    # write-out and a load-back only, where the leaf image matters)
    pre = []
    for c in cases:
        kinds = [o["op"] for o in c["ops"]]
        if "write" in kinds and "load" in kinds:
            pre.append({"cfg": dict(c["cfg"]), "ops": [{"op": "ins", "n": "d"}] + c["ops"]})
    cases += pre
    ngen = len(cases)
    cases += long_traces(ctx, 24 if thorough else 8, 2500 if thorough else 1200) + capacity_boundaries()
    path = ctx.write_cases(cases)
    trace, out = ctx.drive("c14", path)
    H.log(out.strip())
    htrace, hout = ctx.drive("c14hash", None, trace_name="hash.ndjson")
    H.log(hout.strip())
    # hash events are appended as one more case
    with open(trace, "a") as f, open(htrace) as g:
        for line in g:
            f.write(line.replace('"case":0', '"case":%d' % len(cases)))
    verdict, vs = ctx.validate("C14Trace.tla", "C14_trace.cfg", trace)
    nviol, known = H.report(ctx, verdict["bad"], lambda i: cases[i] if i < len(cases) else {"hash": "sweep"}, trace)

    # binding self-test: one recorded field of the projection altered must be objected to
    def _proj(evs, need):
        for e in evs:
            if e.get("proj") == "ok" and e.get("res") == "ok" and need(e):
                return e
        return None

    def _drop_record(evs):
        e = _proj(evs, lambda e: len(e.get("recs", [])) >= 2)
        if e is None:
            return None
        e["recs"] = e["recs"][:-1]
        e["nrecs"] = e["nroot"] = e["total"] = len(e["recs"])
        return evs

    def _header_count(evs):
        e = _proj(evs, lambda e: e.get("nrecs", 0) >= 1)
        if e is None:
            return None
        e["total"] += 1
        return evs

    def _lookup_other_id(evs):
        e = _proj(evs, lambda e: any(f.get("found") for f in e.get("find", {}).values()))
        if e is None:
            return None
        for f in e["find"].values():
            if f.get("found"):
                f["id"] = "x" + str(f["id"]) if isinstance(f["id"], str) else f["id"] + 1
                break
        return evs

    def _absent_found(evs):
        e = _proj(evs, lambda e: any(not f.get("found") for f in e.get("find", {}).values()))
        if e is None:
            return None
        for f in e["find"].values():
            if not f.get("found"):
                f["found"] = f["has"] = True
                break
        return evs

    def _hash_differs(evs):
        for e in evs:
            if e.get("op") == "hash":
                e["lib"] = "0" + str(e["lib"])
                return evs
        return None
    selftest = H.binding_selftest(ctx, "C14Trace.tla", "C14_trace.cfg", trace,
                                  [("record-dropped", _drop_record), ("header-count-altered", _header_count), ("lookup-id-altered", _lookup_other_id),
                                   ("absent-name-found", _absent_found)], max_cases=800)
    nkeys = int(hout.split("keys=")[1].split()[0])
    cov = {
        "binding_selftest": selftest,
        "states": mc.distinct + gr.distinct, "transitions": mc.generated + gr.generated,
        "traces_validated_against_impl": verdict["stats"]["cases"],
        "samples": [cases[0], cases[ngen // 2], {"cfg": cases[ngen]["cfg"], "ops": cases[ngen]["ops"][:12], "ops_total": len(cases[ngen]["ops"])}],
        "evaluations": len(cases) + nkeys,
        "distinct_nontrivial": len({H.nontrivial_hash(c) for c in cases if len(c["ops"]) >= 2}),
        "rule": "cases = every history of <= Depth calls (insert/update/delete/write-out/load-back/rebalance over 3 names, one colliding "
                "pair, capacity 2, four deletion modes) generated by TLC from BTreeV2, plus seeded traces of >1000 calls at the real "
                "4096-byte node crossing its capacity, plus a hash sweep (every length 0..64 x 1500 keys, multiples of 12, high bytes, "
                "long keys, constructed colliding pairs) against the independent lookup3; non-trivial = at least two calls",
        "design_model": {"module": "BTreeV2", "distinct_states": mc.distinct, "refinement": "BTreeV2 => KVIndex checked",
                         "code_switch_counterexamples": cex,
                         "zero_coverage": mc.coverage_zero() if thorough else "not measured in quick tier"},
        "hash_keys_compared": nkeys, "trace_stats": verdict["stats"], "trace_events": verdict["events"],
        "rejected_cases": len(verdict["bad"]), "known_findings_matched": known, "exhaustive": False,
    }
    H.write_evidence(ctx, LEVEL, cov, ASSUME, nviol)
    H.log("C14 %s: cases=%d rejected=%d violations=%d known=%s wall=%.1fs" % (
        ctx.tier, len(cases), len(verdict["bad"]), nviol, known, time.time() - ctx.t0))
    return 1 if nviol else 0


def replay(ctx, body):
    path = ctx.write_cases([body["case"]])
    trace, _ = ctx.drive("c14", path)
    verdict, _ = ctx.validate("C14Trace.tla", "C14_trace.cfg", trace)
    H.log("VERDICT " + json.dumps(verdict))
    return 1 if verdict["bad"] else 0

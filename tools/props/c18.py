"""C18 - independent handles and background rebalancing are race-free and stop cleanly."""
import json
import os
import subprocess
import sys
import time

import h5vlib as H

sys.path.insert(0, os.path.dirname(os.path.dirname(os.path.abspath(__file__))))
import raceparse  # noqa: E402

LEVEL = "model_checking"
ASSUME = ["data races are observed with the Go race detector (go build -race) on free-running scenarios with microsecond ticker intervals; "
          "a race that needs a schedule the scenarios never produce is not seen",
          "race reports are reduced to pairs of innermost library frames", "TLC/SANY, Go toolchain"]
SCENARIOS = ["callback-queries-progress", "smart-stop-inflight", "smart-parent-cancel", "ticker-vs-fg", "ticker-with-work", "queries-vs-stop", "double-stop", "start-stop", "smart", "readers-same-file",
             "handles-distinct-files", "filewriter-incremental", "bufferpool"]


def predicted_pairs(r):
    s = set()
    for line in r.printed("RACE"):
        for a, b, v in json.loads(line):
            s.add(tuple(sorted([a, b])))
    return s


def short(frame):
    return frame.split(".")[-1].split(")")[-1].lstrip(".") or frame


def run(ctx):
    thorough = ctx.tier == "thorough"
    # 1. the protocol models: intended design is race-free, stops return, nothing leaks
    fixed = ctx.model_check("Rebalancer.tla", "C18_fixed_thorough.cfg" if thorough else "C18_fixed.cfg", workers=min(8, ctx.workers))
    sfixed = ctx.model_check("SmartLifecycle.tla", "C18_smart_fixed.cfg", workers=4)
    # 2. the code as it is: the models enumerate the racing pairs and the double-close panic
    code = ctx.tlc("Rebalancer.tla", "C18_code.cfg", workers=1, timeout=600)
    scode = ctx.tlc("SmartLifecycle.tla", "C18_smart_code.cfg", workers=1, timeout=600)
    # the stop protocol with respect to background work: Stop must look at the mode after it waited for the monitor
    ctx.model_check("SmartStop.tla", "C18_smartstop_fixed.cfg", workers=2)
    early = ctx.tlc("SmartStop.tla", "C18_smartstop_early.cfg", workers=2, timeout=120)
    if early.ok or not early.violated:
        raise H.Infra("SmartStop with CODE_StopReadsModeEarly no longer violates QuietAfterStop")
    clears = ctx.tlc("SmartStop.tla", "C18_smartstop_clears.cfg", workers=2, timeout=120)
    if clears.ok or not clears.violated:
        raise H.Infra("SmartStop with CODE_MonitorClearsStarted no longer violates QuietAfterStop")
    pan = ctx.tlc("Rebalancer.tla", "C18_code_panic.cfg", workers=4, timeout=300)
    if pan.ok or not pan.violated:
        raise H.Infra("Rebalancer with CODE_Unlocked no longer reaches the double-close panic")
    pred = predicted_pairs(code) | predicted_pairs(scode)
    if not pred:
        raise H.Infra("the CODE_ models predict no racing pair")
    # 3. the real code under the race detector
    binr = ctx.build(race=True)
    events = [{"case": 0, "op": "reset", "cfg": {"predicted": sorted(list(p) for p in pred)}}]
    rounds = 3 if thorough else 1
    nrep = 0
    for rnd in range(rounds):
        for sc in SCENARIOS:
            logp = os.path.join(ctx.scr, "race_%s_%d" % (sc, rnd))
            outp = os.path.join(ctx.scr, "life_%s_%d.json" % (sc, rnd))
            env = dict(os.environ, GORACE="log_path=%s halt_on_error=0" % logp)
            try:
                p = subprocess.run([binr, "c18", "-scenario", sc, "-out", outp, "-dir", ctx.files, "-seed", str(ctx.seed + rnd),
                                    "-iters", "6000" if thorough else "2000"],
                                   env=env, stdout=subprocess.PIPE, stderr=subprocess.STDOUT, text=True, timeout=300)
            except subprocess.TimeoutExpired:
                events.append({"case": 0, "op": "life", "scenario": sc, "returned": False, "panic": "", "gbefore": 0, "gafter": 0, "equal": True, "note": "process timeout"})
                continue
            if not os.path.exists(outp):
                tailtxt = p.stdout[-400:]
                if "panic:" in p.stdout or "fatal error" in p.stdout:
                    events.append({"case": 0, "op": "life", "scenario": sc, "returned": True, "panic": tailtxt[-200:], "gbefore": 0, "gafter": 0, "equal": True, "note": "process died"})
                    continue
                raise H.Infra("scenario %s produced no result (rc=%d): %s" % (sc, p.returncode, tailtxt))
            with open(outp) as f:
                events.append(json.loads(f.readline()))
            seen = set()
            for pr in raceparse.parse(logp):
                nrep += 1
                key = (pr["a"], pr["b"], pr["akind"], pr["bkind"], pr["afields"], pr["bfields"])
                if key in seen:
                    continue
                seen.add(key)
                events.append({"case": 0, "op": "race", "scenario": sc, "a": pr["a"], "b": pr["b"], "akind": pr["akind"], "bkind": pr["bkind"],
                               "afields": pr["afields"], "bfields": pr["bfields"], "sa": short(pr["a"]), "sb": short(pr["b"])})
    trace = os.path.join(ctx.scr, "trace.ndjson")
    with open(trace, "w") as f:
        for e in events:
            f.write(json.dumps(e) + "\n")
    verdict, _ = ctx.validate("C18Trace.tla", "C18_trace.cfg", trace, parts=1)
    nviol, known = H.report(ctx, verdict["bad"], None, None)
    cov = {
        "states": fixed.distinct + sfixed.distinct + code.distinct + scode.distinct,
        "transitions": fixed.generated + sfixed.generated + code.generated + scode.generated,
        "traces_validated_against_impl": verdict["stats"]["scenarios"],
        "samples": events[1:4],
        "evaluations": verdict["stats"]["scenarios"],
        "distinct_nontrivial": len(SCENARIOS),
        "rule": "TLC explores every interleaving of 2 foreground goroutines x 2 calls (delete, batch rebalance, progress, is-enabled, stop) with the "
                "background ticker (2 ticks) for the incremental rebalancer, and of start/stop/evaluate/stats with the monitor loop for the smart "
                "rebalancer: the intended design satisfies NoRace/NoPanic/StopReturns/NoLeak, the code-as-is variant yields the racing pairs; "
                "10 scenarios run under the race detector (ticker vs foreground, queries vs stop, concurrent stop, 300 start/stop cycles, smart "
                "rebalancer, 8 readers on one file, 8 writers on distinct files, public writer with incremental rebalancing, buffer pool); "
                "every report is reduced to a pair of library frames and judged",
        "model_predicted_racing_pairs": sorted(list(p) for p in pred),
        "race_reports_parsed": nrep, "trace_stats": verdict["stats"], "known_findings_matched": known, "exhaustive": False,
    }
    H.write_evidence(ctx, LEVEL, cov, ASSUME, nviol)
    H.log("C18 %s: scenarios=%d race-reports=%d rejected=%d violations=%d known=%s wall=%.1fs" % (
        ctx.tier, verdict["stats"]["scenarios"], nrep, len(verdict["bad"]), nviol, known, time.time() - ctx.t0))
    return 1 if nviol else 0


def replay(ctx, body):
    H.log("C18 replay: re-run ./run.sh C18 quick; failing item: " + json.dumps(body.get("diag")))
    return run(ctx)

"""C03 - group/link namespace after reopen equals the tree that was built."""
import random

import h5vlib as H
from props.logical import run_logical, replay_logical

LEVEL = "model_checking"


def random_trees(ctx, n):
    """Seeded creation histories: depth up to 6, per-group fan-out beyond the symbol-table-node
    capacity (32), long names that fill the 256-byte name heap, duplicates, missing parents,
    hard links to datasets / groups / ancestors."""
    rng = random.Random(ctx.seed * 104729 + 3)
    cases = []
    for k in range(n):
        ops, groups, dsets = [], ["/"], []
        style = k % 5
        nops = rng.choice([10, 40, 80]) if style != 1 else 45
        for i in range(nops):
            par = rng.choice(groups)
            if style == 1:          # wide group: push one group past 32 entries
                par = "/"
            if style == 2:          # deep chain
                par = groups[-1]
            ln = rng.choice([1, 3, 8]) if style != 3 else rng.choice([20, 60, 100])
            name = "".join(rng.choice("abcdefghijklmnopqrstuvwxyz_0123456789") for _ in range(ln)) + str(i)
            if rng.random() < 0.15 and (dsets or groups[1:]):   # a sibling whose name extends / is a prefix of an existing name
                base = rng.choice(dsets + groups[1:])
                par, bn = base.rsplit("/", 1)
                par = par or "/"
                name = rng.choice([bn + "_raw", bn[:-1], bn + "0"]) if len(bn) > 1 else bn + "x"
            p = (par if par != "/" else "") + "/" + name
            r = rng.random()
            if r < 0.08 and (groups[1:] or dsets):   # duplicate request
                p = rng.choice(groups[1:] + dsets)
                ops.append({"op": rng.choice(["mkgroup", "mkds"]), "p": p, "dt": "i32", "dims": [2]})
            elif r < 0.14:                            # missing parent
                ops.append({"op": "mkgroup", "p": "/nope%d/%s" % (i, name)})
            elif r < 0.50 and p.count("/") < 6:
                ops.append({"op": "mkgroup", "p": p})
                groups.append(p)
            elif r < 0.80:
                ops.append({"op": "mkds", "p": p, "dt": rng.choice(["i32", "f64", "u8"]), "dims": [rng.randint(1, 4)]})
                dsets.append(p)
                if rng.random() < 0.5:
                    ops.append({"op": "write", "p": p, "data": "seq"})
            elif r < 0.92 and (dsets or groups[1:]):
                tgt = rng.choice(dsets + groups[1:] + (["/"] if False else []))
                ops.append({"op": "hlink", "p": p, "t": tgt})
            elif r < 0.96:
                ops.append({"op": "slink", "p": p, "t": rng.choice(groups + dsets + ["/dangling"])})
            else:
                ops.append({"op": "xlink", "p": p, "f": "other.h5", "t": "/x"})
        cases.append({"cfg": {"sb": rng.choice([0, 2, 3]), "rb": "", "style": 0, "tag": "C03-random-%d" % style}, "ops": ops})
    return cases


def graph_cases(ctx, thorough):
    """Every link graph of GroupWalk's Init (3 groups, <= 2 links each; thorough: a seeded sample of the 4-group graphs too)
    as a creation history: groups along the breadth-first spanning tree from the root with CreateGroup, every other link
    (to a group that exists already: cross links, links back to an ancestor, self links, links to the root) with
    CreateHardLink.  Graphs that differ only in groups the root does not reach give the same history once."""
    import json as _json
    lines, r = ctx.generate("GroupWalkGen.tla", "GroupWalk_gen3.cfg")
    graphs = [_json.loads(x)["links"] for x in lines]
    if thorough:
        l4, _ = ctx.generate("GroupWalkGen.tla", "GroupWalk_gen4.cfg", timeout=1500)
        rng = random.Random(ctx.seed * 7349 + 33)
        graphs += [_json.loads(x)["links"] for x in rng.sample(l4, min(len(l4), 6000))]
    seen, cases = set(), []
    for links in graphs:
        path, order, tree, extra = {1: "/"}, [1], [], []
        qi = 0
        while qi < len(order):
            n = order[qi]
            qi += 1
            for i, t in enumerate(links[n - 1]):
                p = (path[n] if path[n] != "/" else "") + "/L%d_%d" % (n, i + 1)
                if t not in path:
                    path[t] = p
                    order.append(t)
                    tree.append({"op": "mkgroup", "p": p})
                else:
                    extra.append((p, t))
        ops = tree + [{"op": "hlink", "p": p, "t": path[t]} for p, t in extra]
        key = _json.dumps(ops)
        if not ops or key in seen:
            continue
        seen.add(key)
        for sb in ((0, 2, 3) if len(ops) <= 4 or thorough else (len(cases) % 3 and 2 or 0,)):
            cases.append({"cfg": {"sb": sb, "rb": "", "style": 0, "tag": "C03-link-graphs"}, "ops": ops})
    return cases, r


def name_boundaries():
    """Names and link targets whose lengths sit at the boundaries of one and two byte length fields (254..257, 1000, 65535), as group,
    dataset, hard, soft and external link, alone and as the second long name in the same group; 8 and 9 links in one group."""
    cases = []
    for L in (254, 255, 256, 257, 1000, 4000):
        for sb in (0, 2, 3):
            n1, n2 = "g" * L, "h" * (L - 1) + "2"
            ops = [{"op": "mkgroup", "p": "/" + n1}, {"op": "mkds", "p": "/" + n1 + "/" + "d" * L, "dt": "i32", "dims": [2]},
                   {"op": "write", "p": "/" + n1 + "/" + "d" * L, "data": "seq"}, {"op": "mkgroup", "p": "/" + n2},
                   {"op": "hlink", "p": "/" + "l" * L, "t": "/" + n1 + "/" + "d" * L}, {"op": "slink", "p": "/s" + "s" * (L - 1), "t": "/" + n1},
                   {"op": "slink", "p": "/t", "t": "/" + "x" * L}, {"op": "xlink", "p": "/x" + "x" * (L - 1), "f": "f" * L + ".h5", "t": "/" + "y" * L},
                   {"op": "mkgroup", "p": "/" + n2 + "/after"}, {"op": "mkds", "p": "/plain", "dt": "u8", "dims": [1]}]
            cases.append({"cfg": {"sb": sb, "rb": "", "style": 0, "tag": "C03-name-lengths"}, "ops": ops})
    for L in (65535, 65536):
        cases.append({"cfg": {"sb": 2, "rb": "", "style": 0, "tag": "C03-name-lengths"},
                      "ops": [{"op": "mkgroup", "p": "/" + "g" * L}, {"op": "slink", "p": "/t", "t": "/" + "x" * L}, {"op": "mkgroup", "p": "/after"}]})
    return cases


def nontrivial(c):
    kinds = {o["op"] for o in c["ops"]}
    return len(c["ops"]) >= 2 and ("hlink" in kinds or len([o for o in c["ops"] if o["op"] in ("mkgroup", "mkds")]) >= 2)


def run(ctx):
    thorough = ctx.tier == "thorough"
    # design level (GroupWalk): how the reader may meet a group again.  The repaired policy (every group loaded once into a
    # shared graph, the listing unfolded by a Walk that does not enter a group on its own path) lists every path of every
    # link graph, cycles included, and loads each group once; the policies seen in code are counterexamples (file-wide
    # visited set: paths missing; path guard only: k^d loads; sharing the first listing: paths missing behind a cycle
    # that is entered from two sides)
    ctx.model_check("GroupWalk.tla", "GroupWalk_graph.cfg" if thorough else "GroupWalk_graph3.cfg", workers=min(8, ctx.workers), timeout=1800)
    for cfg in ("GroupWalk_visited.cfg", "GroupWalk_inprogress.cfg", "GroupWalk_memo_always.cfg"):
        r = ctx.tlc("GroupWalk.tla", cfg, workers=4, timeout=300)
        if r.ok or not r.violated:
            raise H.Infra("GroupWalk with %s no longer yields a counterexample" % cfg)
    models = [("C03Model.tla", "C03_thorough.cfg" if thorough else "C03_quick.cfg"), ("C03Model.tla", "C03_sb.cfg"),
              ("C03Model.tla", "C03_prefix.cfg"),   # names that are prefixes of one another
              ("C03Model.tla", "C03_links.cfg")]    # groups created together with 0, 1, 8, 9, 12 links (symbol table / dense storage)
    return run_logical(
        ctx, LEVEL, models,
        extra_cases=random_trees(ctx, 300 if thorough else 40) + graph_cases(ctx, thorough)[0] + name_boundaries(),
        nontrivial=nontrivial,
        rule="cases = every history of <= Depth create/link calls (mkgroup, mkds, hard/soft/external link; duplicates and "
             "missing parents included) over the path alphabet {a,b} depth<=2 generated by TLC from H5Logical, on superblock "
             "0/2/3, plus seeded random trees (depth<=6, >32 entries per group, long names, links to ancestors); "
             "non-trivial = at least two successful-by-model creations or a hard link; distinct by hash of the case")


def replay(ctx, body):
    return replay_logical(ctx, body)

"""C02 - attribute write/delete histories behave like a name-to-value map (DESIGN 5/C02)."""
import json
import random

import h5vlib as H

LEVEL = "model_checking"
ASSUME = [
    "the library's own reader (Open/Walk/Attributes) is the projection of file content",
    "expected type/shape/bytes are derived by the harness' own reflection code, not by the library",
    "TLC/SANY, Go toolchain",
]


def random_histories(ctx, n, length):
    """Long seeded histories over <=20 names, all value classes, sizes changing across overwrites."""
    rng = random.Random(ctx.seed * 7919 + 17)
    classes = ["i8", "i16", "i32", "i64", "u8", "u16", "u32", "u64", "f32", "f64",
               "s0", "s1", "s7", "s40", "s150", "ai1", "ai3", "al2", "af5", "ad3", "ad30"]
    cases = []
    for k in range(n):
        names = ["n%d" % i for i in range(rng.choice([3, 9, 12, 20]))]
        if k % 4 == 3:
            names += ["a", "c"]          # the colliding pair under style 3
        ops = []
        for _ in range(length if k % 2 == 0 else rng.randint(5, length)):
            nme = rng.choice(names)
            if rng.random() < 0.3:
                ops.append({"op": "del", "n": nme, "v": ""})
            else:
                ops.append({"op": "put", "n": nme, "v": rng.choice(classes)})
        obj = "dataset"
        if k % 5 == 4:
            obj = "group"
            ops = [o for o in ops if o["op"] == "put"]
        cases.append({"cfg": {"obj": obj, "sb": rng.choice([0, 2, 3]), "pre": rng.choice([0, 0, 5, 8]),
                              "style": k % 5}, "ops": ops})
    return cases


SAME_BYTES = [["zi32", "zf32", "zai1"], ["zi64", "zf64", "zai2", "zaf2"]]


def same_bytes_histories():
    """An attribute overwritten by a value of another type or shape whose encoding is byte for byte the same (zeros): the
    last write wins with its type and shape, in compact and in dense storage, with and without other calls in between."""
    cases = []
    for grp in SAME_BYTES:
        for x in grp:
            for y in grp:
                if x == y:
                    continue
                for obj in ("dataset", "group"):
                    for pre in (0, 9):
                        for mid in ([], [{"op": "put", "n": "b", "v": "s7"}], [{"op": "put", "n": "b", "v": "i32"}, {"op": "del", "n": "b", "v": ""}]):
                            ops = [{"op": "put", "n": "a", "v": x}] + mid + [{"op": "put", "n": "a", "v": y}]
                            cases.append({"cfg": {"obj": obj, "sb": [2, 0, 3][len(cases) % 3], "pre": pre, "style": 0}, "ops": ops})
    return cases


def fill_sweep():
    """One string attribute of every length 1..230 (and two of half that): the object header is filled to every size up to and
    beyond its capacity, one byte at a time, next to the neighbour the driver allocates right behind the object."""
    cases = []
    for L in range(1, 231):
        for obj in ("dataset", "group"):
            cases.append({"cfg": {"obj": obj, "sb": [2, 3, 0][L % 3] if L % 5 else 2, "pre": 0, "style": 0}, "ops": [{"op": "put", "n": "a", "v": "s%d" % L}]})
            cases.append({"cfg": {"obj": obj, "sb": 2, "pre": 0, "style": 0},
                          "ops": [{"op": "put", "n": "a", "v": "s%d" % (L // 2)}, {"op": "put", "n": "b", "v": "s%d" % (L - L // 2)}]})
    for c in list(cases):      # the same with another object created and written AFTER the attributes
        d = {"cfg": dict(c["cfg"], late=True), "ops": c["ops"]}
        cases.append(d)
    return cases


def value_boundaries():
    """Attribute values whose sizes sit at the boundaries of one and two byte fields and of the 64 KiB heap block: written alone,
    after small attributes (compact), into dense storage, and overwritten by a small value and back."""
    cases = []
    big = ["s254", "s255", "s256", "s257", "s4000", "s32767", "s32768", "s65000", "s65535", "s65536", "ai63", "ai64", "ai8191", "ai8192", "ai16383", "ai16384", "ad8192"]
    for k, v in enumerate(big):
        for obj in ("dataset", "group"):
            for pre in (0, 9):
                cases.append({"cfg": {"obj": obj, "sb": [2, 0, 3][k % 3], "pre": pre, "style": 0},
                              "ops": [{"op": "put", "n": "a", "v": v}, {"op": "put", "n": "b", "v": "i32"}, {"op": "put", "n": "a", "v": "i8"},
                                      {"op": "put", "n": "a", "v": v}, {"op": "del", "n": "b", "v": ""}]})
    return cases


def bulk_histories(heavy=True):
    """Objects whose attribute index fills most of one B-tree leaf (capacity 371 records at the 4 KiB node size), then a few
    deletions that leave the leaf more than half full, then further insertions: the occupancy at which deferred (lazy)
    deletion really defers, and at which inserts are refused for lack of room."""
    cases = []
    # more attribute data than the 64 KiB direct block of the dense attribute heap holds
    for n, cls in (((330, "s200"), (100, "s700")) if heavy else ()):
        cases.append({"cfg": {"obj": "dataset", "sb": 2, "pre": 0, "style": 0}, "ops": [{"op": "put", "n": "h%d" % i, "v": cls} for i in range(n)]})
    for k, (n, d, more) in enumerate([(186, 1, 0), (200, 5, 3), (300, 2, 0), (371, 1, 2), (371, 40, 45), (380, 3, 0)]):
        ops = [{"op": "put", "n": "n%d" % i, "v": ["i32", "f64", "s7", "i8", "ai3"][i % 5]} for i in range(n)]
        ops += [{"op": "del", "n": "n%d" % (i * 37 % n), "v": ""} for i in range(d)]
        ops += [{"op": "put", "n": "m%d" % i, "v": "i16"} for i in range(more)]
        cases.append({"cfg": {"obj": "dataset" if k % 3 else "group", "sb": [2, 0, 3][k % 3], "pre": 0, "style": 0}, "ops": ops})
    return cases


def nontrivial(case):
    """A history is non-trivial if it overwrites or deletes a name that is present at that point."""
    present = set("f%d" % i for i in range(case["cfg"]["pre"]))
    for o in case["ops"]:
        if o["op"] == "put":
            if o["n"] in present:
                return True
            present.add(o["n"])
        elif o["n"] in present:
            return True
    return False


def run(ctx):
    thorough = ctx.tier == "thorough"
    # 1. design model: AttrStore refines AttrMap, design invariants
    mc = ctx.model_check("C02MC.tla", "C02_mc_thorough.cfg" if thorough else "C02_mc_quick.cfg",
                         workers=min(ctx.workers, 8), coverage=thorough)
    # the CODE_ switch must still produce the hash-collision counterexample (keeps the model honest)
    code = ctx.tlc("C02MC.tla", "C02_code.cfg", workers=4, timeout=300)
    if code.ok or not code.violated:
        raise H.Infra("AttrStore with CODE_SearchByHashOnly=TRUE no longer yields a counterexample")
    # 2. behaviours from the design spec
    gen_cases, gr = ctx.generate("C02Gen.tla", "C02_gen_thorough.cfg" if thorough else "C02_gen_quick.cfg")
    cases = [json.loads(c) for c in gen_cases]
    gen2, gr2 = ctx.generate("C02Gen.tla", "C02_gen_sb.cfg")
    cases += [json.loads(c) for c in gen2]
    ngen = len(cases)
    # 3. long random histories beyond the bound
    cases += random_histories(ctx, 400 if thorough else 40, 300) + bulk_histories() + same_bytes_histories() + fill_sweep() + value_boundaries()
    path = ctx.write_cases(cases)
    # 4. replay against the real library
    trace, dout = ctx.drive("c02", path)
    H.log(dout.strip())
    # 5. TLC judges the trace
    verdict, tr = ctx.validate("C02Trace.tla", "C02_trace.cfg", trace)

    def _alter_attr(evs):
        for e in evs:
            if e.get("op") == "observe" and e.get("open") == "ok" and e.get("attrs"):
                a = e["attrs"][0]
                if isinstance(a, dict) and isinstance(a.get("val"), dict) and a["val"].get("data"):
                    a["val"]["data"] = a["val"]["data"][:-1] + ("0" if a["val"]["data"][-1] != "0" else "1")
                    return evs
        return None

    def _drop_attr(evs):
        for e in evs:
            if e.get("op") == "observe" and e.get("open") == "ok" and len(e.get("attrs") or []) >= 1:
                e["attrs"] = e["attrs"][1:]
                return evs
        return None
    selftest = H.binding_selftest(ctx, "C02Trace.tla", "C02_trace.cfg", trace, [("attribute-bytes-altered", _alter_attr), ("attribute-dropped", _drop_attr)])
    bad = verdict["bad"]
    nviol, known = H.report(ctx, bad, lambda i: cases[i], trace)
    distinct = len({H.nontrivial_hash(c) for c in cases if nontrivial(c)})
    st = verdict["stats"]
    cov = {
        "binding_selftest": selftest,
        "states": mc.distinct + gr.distinct + gr2.distinct,
        "transitions": mc.generated + gr.generated + gr2.generated,
        "traces_validated_against_impl": st["cases"],
        "samples": [cases[0], cases[ngen // 2], cases[ngen][:1] if isinstance(cases[ngen], list) else
                    {"cfg": cases[ngen]["cfg"], "ops": cases[ngen]["ops"][:12], "ops_total": len(cases[ngen]["ops"])}],
        "evaluations": len(cases),
        "distinct_nontrivial": distinct,
        "rule": "cases = every history of <= Depth put/del operations over names {a,b,c} and 6 value classes "
                "generated by TLC from AttrStore (from pre-states with 0/7 fillers, dataset and group, superblock 0/2/3) "
                "plus seeded random histories of up to 300 operations over <= 22 names; non-trivial = the history "
                "overwrites or deletes a name that is present at that point; distinct by hash of the whole case",
        "design_model": {"module": "AttrStore", "distinct_states": mc.distinct, "generated": mc.generated,
                         "refinement": "AttrStore => AttrMap checked", "code_switch_counterexample": code.violated,
                         "zero_coverage": mc.coverage_zero() if thorough else "not measured in quick tier"},
        "trace_stats": st,
        "trace_events": verdict["events"],
        "rejected_cases": len(bad),
        "known_findings_matched": known,
        "exhaustive": False,
    }
    H.write_evidence(ctx, LEVEL, cov, ASSUME, nviol)
    H.log("C02 %s: cases=%d rejected=%d violations=%d known=%s wall=%.1fs" % (
        ctx.tier, len(cases), len(bad), nviol, known, H.time.time() - ctx.t0))
    return 1 if nviol else 0


def replay(ctx, body):
    case = body["case"]
    path = ctx.write_cases([case])
    trace, _ = ctx.drive("c02", path)
    verdict, _ = ctx.validate("C02Trace.tla", "C02_trace.cfg", trace)
    with open(trace) as f:
        H.log(f.read())
    H.log("VERDICT " + json.dumps(verdict))
    return 1 if verdict["bad"] else 0

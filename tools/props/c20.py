"""C20 - FP8 / bfloat16 conversions: exact on codes, monotone, correctly rounded."""
import json
import os
import time

import h5vlib as H

LEVEL = "exploration"
ASSUME = ["an FP8 code means what the library's decoder says (MiniFloat.tla transcribes the documented layout)",
          "the rounding tables are derived by TLC from MiniFloat.tla; the Go sweep only looks inputs up in them",
          "bfloat16 rule transcribed to Go and cross-checked against 512 TLC-computed rows before use"]


def run(ctx):
    thorough = ctx.tier == "thorough"
    lines, mr = ctx.generate("C20Model.tla", "C20_model.cfg")      # checks FormatLaws / BFLaws, prints the tables
    path = ctx.write_cases(lines)
    env = {"H5V_C20_FULL": "1"} if thorough else {}
    trace, out = ctx.drive("c20", path, env=env, timeout=3000)
    H.log(out.strip())
    verdict, vs = ctx.validate("C20Trace.tla", "C20_trace.cfg", trace, parts=1)
    nviol, known = H.report(ctx, verdict["bad"], None, None)
    evals = int(out.split("evaluations=")[1].split()[0])
    mism = int(out.split("mismatches=")[1].split()[0])
    with open(trace) as f:
        evs = [json.loads(x) for x in f]
    classes = [e for e in evs if e["op"] == "sum"]
    cov = {
        "evaluations": evals,
        "distinct_nontrivial": sum(1 for e in classes if e["evaluated"] > 0) + sum(min(e["evaluated"], 1000) for e in classes if e["class"] in ("tie", "carry-up", "overflow-up", "up", "down")),
        "rule": "thorough: ALL 2^32 float32 bit patterns x 3 formats + all codes (code->float32->code) + byte encoding; quick: every code, "
                "every table boundary and midpoint +-2 ulp (both signs), every bfloat16 code with the six decisive lower halves, 10^6 random "
                "bit patterns; each conversion is classified (exact/down/up/tie/carry/overflow/tiny/nan-in/inf-in/zero/roundtrip) and compared "
                "with the MiniFloat table; distinct_nontrivial = number of classes exercised plus (capped) inputs in the rounding-decisive classes",
        "samples": [e for e in evs if e["op"] == "conv"][:3] + classes[:3],
        "states": mr.distinct, "transitions": mr.generated,
        "exhaustive": thorough,
        "classes": {"%s/%s" % (e["fmt"], e["class"]): [e["evaluated"], e["mismatches"]] for e in classes},
        "mismatches_total": mism, "rejudged_by_tlc": verdict["stats"]["rejudged"],
        "known_findings_matched": known,
    }
    H.write_evidence(ctx, LEVEL, cov, ASSUME, nviol)
    H.log("C20 %s: evaluations=%d mismatches=%d violations=%d known=%s wall=%.1fs" % (ctx.tier, evals, mism, nviol, known, time.time() - ctx.t0))
    return 1 if nviol else 0


def replay(ctx, body):
    H.log("C20 replay: re-run ./run.sh C20 quick; the failing class is " + json.dumps(body.get("diag")))
    return run(ctx)

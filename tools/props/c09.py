"""C09 - partial reads agree with the full read."""
import json
import random
import time

import h5vlib as H

LEVEL = "exploration"
ASSUME = ["datasets hold element value = linear index, so expected results are index sequences computed by TLC (Hyperslab.tla)",
          "the full Read of every fixture is checked to be the identity before partial reads are judged",
          "TLC/SANY, Go toolchain"]


def random_cases(ctx, n):
    rng = random.Random(ctx.seed * 179424673 + 9)
    cases = []
    for k in range(n):
        rank = rng.choice([1, 2, 2, 3, 4])
        dims = [rng.randint(1, {1: 40, 2: 12, 3: 6, 4: 4}[rank]) for _ in range(rank)]
        chunk = [rng.randint(1, d) for d in dims] if rng.random() < 0.7 else []
        sels = []
        for _ in range(60):
            s = []
            for d in dims:
                stride = rng.choice([1, 1, 2, 3, 5])
                block = rng.choice([1, 1, 2, stride])
                block = min(block, stride) if rng.random() < 0.9 else block
                maxcount = max(1, (d - block) // stride + 1) if d >= block else 1
                count = rng.randint(1, maxcount)
                span = (count - 1) * stride + block
                start = rng.randint(0, max(0, d - span)) if rng.random() < 0.9 else rng.randint(0, d)
                s.append({"start": start, "count": count, "stride": stride, "block": block})
            sels.append(s)
        cases.append({"cfg": {"dims": dims, "chunk": chunk}, "sels": sels})
    return cases


def resized_cases(ctx, nsel):
    """Datasets that are resized after they were written: grown (chunks of the new space do not exist in the index), shrunk
    below the chunk extent in a non-first dimension, grown in one and shrunk in another dimension.  The full read is then
    the old values where both extents overlap and zero in added space; partial reads must agree with it."""
    rng = random.Random(ctx.seed * 32452843 + 9)
    shapes = [([6], [4], [10]), ([6], [4], [3]), ([5], [5], [9]), ([4, 6], [2, 4], [6, 9]), ([4, 6], [2, 4], [4, 3]), ([4, 6], [2, 4], [7, 2]),
              ([3, 5], [3, 5], [5, 5]), ([4, 4], [3, 3], [2, 6]), ([2, 3, 4], [1, 2, 3], [3, 3, 2]), ([3, 4, 2], [2, 2, 2], [3, 2, 4])]
    cases = []
    for wdims, chunk, dims in shapes:
        sels = [[{"start": 0, "count": d, "stride": 1, "block": 1} for d in dims]]
        for _ in range(nsel):
            s = []
            for d in dims:
                stride = rng.choice([1, 1, 2, 3])
                block = rng.choice([1, 1, min(2, stride)])
                maxcount = max(1, (d - block) // stride + 1)
                count = rng.randint(1, maxcount)
                span = (count - 1) * stride + block
                s.append({"start": rng.randint(0, max(0, d - span)), "count": count, "stride": stride, "block": block})
            sels.append(s)
        for dt in ("i32", "f64"):
            cases.append({"cfg": {"dims": dims, "wdims": wdims, "chunk": chunk, "dt": dt}, "sels": sels})
    return cases


def run(ctx):
    thorough = ctx.tier == "thorough"
    # selection arithmetic for ALL extents and parameters (Apalache): indices in bounds, strictly increasing for proper
    # selections, row-major round trip; without properness the order lemma must be refuted
    if ctx.apalache("HyperslabLemmas.tla", "Init", "Lemmas", 0) != "ok":
        raise H.Infra("HyperslabLemmas: a selection lemma no longer holds")
    if ctx.apalache("HyperslabLemmas.tla", "Init", "BadIncreasing", 0) != "error":
        raise H.Infra("HyperslabLemmas: the order lemma without properness is not refuted - the proof is vacuous")
    lines, gr = ctx.generate("C09Shapes.tla", "C09_thorough.cfg" if thorough else "C09_quick.cfg")
    # the deviation repaired in f6f832f: visiting the bounding box of chunks is not bounded by the selection
    bbox = ctx.tlc("C09Shapes.tla", "C09_code_bbox.cfg", workers=1, timeout=300)
    if bbox.ok or not bbox.violated:
        raise H.Infra("Hyperslab!BBoxBoundLaw is no longer refuted by TLC (C09_code_bbox.cfg)")
    cases = [json.loads(x) for x in lines]
    ngen = len(cases)
    cases += random_cases(ctx, 300 if thorough else 40) + resized_cases(ctx, 120 if thorough else 40)
    path = ctx.write_cases(cases)
    trace, out = ctx.drive("c09", path, env={"H5V_C09_CAP": "20000" if thorough else "2500"})
    H.log(out.strip())
    verdict, vs = ctx.validate("C09Trace.tla", "C09_trace.cfg", trace, timeout=2400)
    nviol, known = H.report(ctx, verdict["bad"], lambda i: {"cfg": cases[i]["cfg"]}, trace)
    st = verdict["stats"]

    # binding self-test: the judge must object when one recorded element / one visited chunk is altered
    def _alter_value(evs):
        for e in evs:
            if e.get("op") == "sel" and e.get("res") == "ok" and len(e.get("vals", [])) >= 2 and \
                    all(0 < d["block"] <= d["stride"] and d["count"] > 0 for d in e["sel"]):
                e["vals"][-1] += 1
                return evs
        return None

    def _drop_element(evs):
        for e in evs:
            if e.get("op") == "sel" and e.get("res") == "ok" and len(e.get("vals", [])) >= 3 and \
                    all(0 < d["block"] <= d["stride"] and d["count"] > 0 for d in e["sel"]):
                del e["vals"][1]
                return evs
        return None

    def _drop_chunk(evs):
        for e in evs:
            if e.get("op") == "iter" and e.get("res") == "ok" and len(e.get("visited", [])) >= 2:
                e["visited"] = e["visited"][:-1]
                return evs
        return None

    def _accept_invalid(evs):
        for e in evs:
            if e.get("op") == "sel" and e.get("res") == "err":
                e["res"], e["vals"] = "ok", [0]
                return evs
        return None
    selftest = H.binding_selftest(ctx, "C09Trace.tla", "C09_trace.cfg", trace,
                                  [("element-altered", _alter_value), ("element-dropped", _drop_element),
                                   ("chunk-not-visited", _drop_chunk), ("refusal-turned-into-success", _accept_invalid)])
    cov = {
        "unbounded_design_proof": {"tool": "apalache", "module": "spec/proofs/HyperslabLemmas.tla",
                                   "statement": "for all extents and valid selection parameters every selected index lies inside the extent, a proper selection lists "
                                                "its indices in strictly increasing order, and row-major coordinates round-trip",
                                   "sensitivity": "the order lemma without the properness condition is refuted"},
        "evaluations": st["sels"] + st["iters"] + len(verdict["bad"]),
        "distinct_nontrivial": st["valid"],
        "rule": "cases = for each dataset shape/layout of the bounded set (rank 1-3 quick, 1-4 thorough; contiguous and several chunk shapes "
                "incl. partial edge chunks) the product of ALL per-dimension selections [start 0..n, count 0..n, stride, block] generated by TLC "
                "(complete when <= cap, else a seeded sample with 3/4 valid selections), ReadSlice for plain selections and ReadHyperslab "
                "otherwise, plus a full chunk-iterator pass, plus seeded random larger shapes, plus datasets resized after the write (grown: chunks "
                "missing from the index; shrunk below the chunk extent) whose full read is the old values and zero in added space; non-trivial = valid selections whose result was "
                "compared element by element with Expected(dims, sel); invalid ones must be refused",
        "samples": [cases[0]["cfg"], cases[ngen // 2]["cfg"], {"cfg": cases[ngen]["cfg"], "sels": cases[ngen]["sels"][:2]}],
        "states": gr.distinct, "transitions": gr.generated,
        "exhaustive": False,
        "trace_stats": st, "trace_events": verdict["events"], "rejected": len(verdict["bad"]), "known_findings_matched": known, "binding_selftest": selftest,
    }
    H.write_evidence(ctx, LEVEL, cov, ASSUME, nviol)
    H.log("C09 %s: selections=%d valid=%d rejected=%d violations=%d known=%s wall=%.1fs" % (
        ctx.tier, st["sels"], st["valid"], len(verdict["bad"]), nviol, known, time.time() - ctx.t0))
    return 1 if nviol else 0


def replay(ctx, body):
    case = {"cfg": body["case"]["cfg"], "sels": [body["diag"]["sel"]]} if "sel" in body.get("diag", {}) else body["case"]
    path = ctx.write_cases([case])
    trace, _ = ctx.drive("c09", path)
    verdict, _ = ctx.validate("C09Trace.tla", "C09_trace.cfg", trace)
    H.log("VERDICT " + json.dumps(verdict))
    return 1 if verdict["bad"] else 0

"""C12 - variable-length data round-trips through the global heap."""
import json
import random
import time

import h5vlib as H

LEVEL = "model_checking"
ASSUME = ["element references and heap collections are decoded from the raw file by the harness' own parser (harness/indep/gcol.go, "
          "written from the format specification), not by the library", "TLC/SANY, Go toolchain"]


def random_lists(ctx, n, big):
    rng = random.Random(ctx.seed * 217645199 + 12)
    pool = [0, 0, 1, 7, 8, 9, 15, 16, 17, 100, 1000, 4040, 4047, 4048, 4056, 4063, 4064, 4065, 4072, 4080, 4081, 8000, 70000]
    cases = []
    for k in range(n):
        cnt = rng.choice([1, 2, 5, 20, 100, 600]) if not big else rng.choice([100, 1000, 5000, 10000])
        lens = [rng.choice(pool) if rng.random() < 0.6 else rng.randint(0, 300) for _ in range(cnt)]
        if cnt > 200:
            lens = [x if x < 5000 else 64 for x in lens]
        cases.append({"cfg": {"kind": "random"}, "lens": lens, "colls": []})
    return cases


def brim_lists():
    """Element lists that fill a 4096-byte collection exactly or nearly (object cost 16 + pad8(len), header 16),
    ending with an empty element flush against the end, and their neighbours."""
    out = []
    for lens in ([0] * 254, [0] * 255, [0] * 256, [8] * 168 + [12, 0], [8] * 169 + [0], [8] * 169, [8] * 170,
                 [100] * 31 + [96, 0], [100] * 31 + [104, 0], [100] * 31 + [88, 0, 0], [1000] * 3 + [984, 0], [1000] * 3 + [1000, 0],
                 [4064], [4048, 0], [4032, 0, 0], [2016, 2016, 0], [2024, 2008, 0]):
        out.append({"cfg": {"kind": "brim"}, "lens": lens, "colls": []})
    return out


def run(ctx):
    thorough = ctx.tier == "thorough"
    # design level, unbounded: the accounting invariant of the collection is inductive for elements of ANY length
    # (Apalache; TLC below enumerates the finite set of length classes); the broken variant must be refuted
    if ctx.apalache("GlobalHeapInd.tla", "Init", "IndInv", 0, cinit="ConstInit") != "ok" or \
            ctx.apalache("GlobalHeapInd.tla", "IndInit", "IndInv", 1, cinit="ConstInit") != "ok":
        raise H.Infra("GlobalHeapInd: the accounting invariant is no longer inductive")
    if ctx.apalache("GlobalHeapInd.tla", "IndInit", "IndInv", 1, cinit="ConstInitBad") != "error":
        raise H.Infra("GlobalHeapInd: the broken variant (header not subtracted) is not refuted - the proof is vacuous")
    lines, gr = ctx.generate("C12Gen.tla", "C12_gen_thorough.cfg" if thorough else "C12_gen_quick.cfg")
    cases = [json.loads(x) for x in lines]
    ngen = len(cases)
    cases += brim_lists() + random_lists(ctx, 300 if thorough else 60, False) + random_lists(ctx, 12 if thorough else 2, True)
    path = ctx.write_cases(cases)
    trace, out = ctx.drive("c12", path)
    H.log(out.strip())
    verdict, vs = ctx.validate("C12Trace.tla", "C12_trace.cfg", trace)
    nviol, known = H.report(ctx, verdict["bad"], lambda i: {"lens": cases[i]["lens"][:50], "n": len(cases[i]["lens"])}, trace)
    st = verdict["stats"]

    # binding self-test: one recorded element / collection field altered must be objected to
    def _alter_elem(evs):
        for e in evs:
            if e.get("op") == "vlraw" and e.get("usable") and e.get("els"):
                for k in ("spec", "alt", "lib"):
                    if k in e["els"][0]:
                        e["els"][0][k]["dig"] = "0" + str(e["els"][0][k].get("dig", ""))
                return evs
        return None

    def _drop_elem(evs):
        for e in evs:
            if e.get("op") == "vlraw" and e.get("usable") and len(e.get("els", [])) >= 2:
                e["els"] = e["els"][:-1]
                return evs
        return None

    def _shrink_collection(evs):
        for e in evs:
            if e.get("op") == "vlraw" and e.get("usable") and e.get("colls") and e["colls"][0].get("sizes"):
                c = e["colls"][0]
                c["size"] = 16 + sum(16 + (x + 7) // 8 * 8 for x in c["sizes"]) - 8
                return evs
        return None

    def _dup_index(evs):
        for e in evs:
            if e.get("op") == "vlraw" and e.get("usable") and e.get("colls") and len(e["colls"][0].get("idxs", [])) >= 2:
                e["colls"][0]["idxs"][1] = e["colls"][0]["idxs"][0]
                return evs
        return None
    selftest = H.binding_selftest(ctx, "C12Trace.tla", "C12_trace.cfg", trace,
                                  [("element-bytes-altered", _alter_elem), ("element-dropped", _drop_elem),
                                   ("collection-size-shrunk", _shrink_collection), ("object-index-duplicated", _dup_index)], allow_rejected=True)
    cov = {
        "binding_selftest": selftest,
        "states": gr.distinct, "transitions": gr.generated,
        "traces_validated_against_impl": st["cases"],
        "samples": [cases[0], cases[ngen // 2], {"lens": cases[ngen]["lens"][:20], "n": len(cases[ngen]["lens"])}],
        "evaluations": len(cases),
        "distinct_nontrivial": len({H.nontrivial_hash(c["lens"]) for c in cases if len(c["lens"]) >= 2}),
        "rule": "cases = every element-length list of <= Depth elements over 16 length classes (0,1,7,8,9, around the 4 KiB collection: "
                "4040..4065, larger than a collection, > 64 KiB) generated by TLC from GlobalHeap (which also predicts the collection "
                "structure), written as VLenString / VLenInt32 / VLenFloat64 datasets (contiguous, some chunked) on superblock 0/2/3, plus "
                "seeded lists of up to 10^4 elements; every element is resolved through the independently decoded heap and compared byte by "
                "byte, every collection's accounting is recomputed by TLC; non-trivial = at least two elements",
        "design_model": {"module": "GlobalHeap", "distinct_states": gr.distinct, "invariants": "Accounting RefsResolve ClosedMeansFlushed RefsStable",
                         "cases_where_observed_collections_differ_from_predicted": st["drift"]},
        "trace_stats": st, "rejected_cases": len(verdict["bad"]), "known_findings_matched": known, "exhaustive": False,
        "unbounded_design_proof": {"tool": "apalache", "module": "spec/proofs/GlobalHeapInd.tla",
                                   "statement": "Accounting (header + objects + free = size, free >= 0, size a positive multiple of 4096) is an inductive "
                                                "invariant of the collection for elements of every natural length",
                                   "sensitivity": "with the collection header not subtracted from the free space Apalache returns a counterexample"},
    }
    H.write_evidence(ctx, LEVEL, cov, ASSUME, nviol)
    H.log("C12 %s: cases=%d rejected=%d violations=%d known=%s wall=%.1fs" % (ctx.tier, len(cases), len(verdict["bad"]), nviol, known, time.time() - ctx.t0))
    return 1 if nviol else 0


def replay(ctx, body):
    c = body["case"]
    path = ctx.write_cases([{"cfg": {"kind": "replay"}, "lens": c["lens"], "colls": []}])
    trace, _ = ctx.drive("c12", path)
    verdict, _ = ctx.validate("C12Trace.tla", "C12_trace.cfg", trace)
    H.log("VERDICT " + json.dumps(verdict))
    return 1 if verdict["bad"] else 0

"""Object header message chains: HeaderChain.tla (design) -> shapes -> real bytes -> ReadObjectHeader -> HdrChainTrace.

Used by C07 (panic / hang on any shape is a violation of C07: its quantifier names self-referential continuation
structures).  A well-formed shape whose messages are lost, reordered or invented is a discrepancy of the reader against
the specification that no listed property quantifies over (C06 speaks about the bundled reference files): it is reported
as a NOTE line and in the evidence, never as a VIOLATION."""
import json

import h5vlib as H

# (version, creation order fields, gap bytes at the end of every version 2 chunk)
VARIANTS = [(1, False, 0), (2, False, 0), (2, True, 0), (2, False, 1), (2, False, 3), (2, True, 5)]


def run_family(ctx, thorough):
    # design level: the guarded traversal returns Expected(shape) for every tree and is bounded on every shape;
    # each deviation seen in code is a counterexample
    for cfg in ("HdrChain_code_first.cfg", "HdrChain_code_linear.cfg", "HdrChain_code_noguard.cfg"):
        r = ctx.tlc("HdrChainModel.tla", cfg, workers=4, timeout=300)
        if r.ok or not r.violated:
            raise H.Infra("HeaderChain with %s no longer yields a counterexample" % cfg)
    design = None
    if thorough:
        design = ctx.model_check("HdrChainModel.tla", "HdrChain_design4.cfg", workers=min(8, ctx.workers), timeout=3000, extra=["-maxSetSize", "5000000"])
    lines, gr = ctx.generate("HdrChainModel.tla", "HdrChain_quick.cfg", timeout=1500)
    shapes = [json.loads(x) for x in lines]
    cases = []
    for n, c in enumerate(shapes):
        for ver, crt, gap in VARIANTS:
            for rev in (False, True):
                if c["wf"] or thorough or n % 12 == 0:
                    d = dict(c)
                    d["cfg"] = {"ver": ver, "crt": crt, "rev": rev, "gap": gap}
                    cases.append(d)
    path = ctx.write_cases(cases, "hdrchain_cases.ndjson")
    trace, out = ctx.drive("hdrchain", path, trace_name="hdrchain_trace.ndjson")
    H.log(out.strip())
    # the GroupWalk counterexample on real files (a group loaded once per path): appended as two more cases
    dtrace, dout = ctx.drive("dagopen", None, trace_name="dagopen_trace.ndjson")
    H.log(dout.strip())
    dag_cases = {}
    with open(trace, "a") as f, open(dtrace) as g:
        for line in g:
            e = json.loads(line)
            if e.get("op") == "dag":
                dag_cases[e["case"]] = {"family": e.get("family", "group-dag"), "sb": e.get("sb")}
            e["case"] = len(cases) + e["case"]
            f.write(json.dumps(e) + "\n")
    # the GroupWalk counterexample on real files (hard-linked groups; chunk index nodes shared between parents)
    cases = cases + [dag_cases.get(i, {"family": "dag", "sb": None}) for i in range(max(dag_cases) + 1 if dag_cases else 0)]
    verdict, _ = ctx.validate("HdrChainTrace.tla", "HdrChain_trace.cfg", trace)
    st = verdict["stats"]
    if st["wellformed"] + len(verdict["bad"]) == 0 or st["multicont"] == 0 and not verdict["bad"]:
        raise H.Infra("header chain family: no well-formed shape with several continuations was exercised")

    # binding self-test: a message dropped from / swapped in a recorded answer must be objected to
    def _drop(evs):
        for e in evs:
            if e.get("op") == "hdr" and e.get("res") == "ok" and len(e.get("msgs", [])) >= 2 and evs[0]["cfg"]["wf"]:
                e["msgs"] = e["msgs"][:-1]
                return evs
        return None

    def _swap(evs):
        for e in evs:
            if e.get("op") == "hdr" and e.get("res") == "ok" and len(e.get("msgs", [])) >= 2 and evs[0]["cfg"]["wf"]:
                e["msgs"][0], e["msgs"][1] = e["msgs"][1], e["msgs"][0]
                return evs
        return None

    def _panic(evs):
        for e in evs:
            if e.get("op") == "hdr" and e.get("res") == "err":
                e["res"] = "panic"
                return evs
        return None
    selftest = H.binding_selftest(ctx, "HdrChainTrace.tla", "HdrChain_trace.cfg", trace,
                                  [("message-dropped", _drop), ("messages-swapped", _swap), ("refusal-recorded-as-panic", _panic)], max_cases=4000)
    fatal = [b for b in verdict["bad"] if any(it.get("diag") in ("panic", "hang") for it in b.get("items", []))]
    notes = [b for b in verdict["bad"] if b not in fatal]
    for b in notes[:5]:
        it = b["items"][0]
        H.log("NOTE extended-coverage header-chain: %s version=%s shape=%s expected=%s got=%s" % (
            it.get("diag"), it.get("ver"), json.dumps(cases[b["case"]]["blocks"]), it.get("exp"), it.get("got")))
    if notes:
        H.log("NOTE extended-coverage header-chain: %d well-formed shapes are not read as HeaderShapes!Expected (no listed property quantifies over them)" % len(notes))
    cov = {"module": "spec/design/HeaderChain.tla + HeaderShapes.tla, spec/trace/HdrChainTrace.tla",
           "shapes": len(shapes), "well_formed_shapes": sum(1 for c in shapes if c["wf"]), "cases": len(cases),
           "rule": "every header shape of <= 3 blocks with <= 2 entries (payload / null / continuation message to any block) generated by TLC, "
                   "laid out as version 1, version 2 and version 2 with creation-order fields, with and without a gap (1, 3, 5 zero bytes, fewer than a "
                   "message header) at the end of every version 2 chunk, blocks ascending and descending in the file "
                   "(all well-formed shapes; every 12th of the others in quick, all in thorough), read with ReadObjectHeader",
           "states": gr.distinct, "transitions": gr.generated, "design4": None if design is None else design.distinct,
           "trace_stats": st, "binding_selftest": selftest,
           "discrepancies_on_well_formed_shapes": len(notes),
           "discrepancy_samples": [{"diag": b["items"][0].get("diag"), "ver": b["items"][0].get("ver"), "blocks": cases[b["case"]]["blocks"]} for b in notes[:3]]}
    return fatal, cases, trace, cov

"""C06 - reader output on reference-library files equals the reference library's report."""
import collections
import glob
import hashlib
import json
import os
import re
import time

import ddl
import h5vlib as H

LEVEL = "exploration"
ASSUME = ["the h5dump reports shipped in testdata/hdf5_official/ddl are the reference implementation's statement about the files; reports that are "
          "subsets, carry error text or do not name an existing non-empty file are skipped and counted",
          "values are compared in h5dump's own formatting (integers exact, floating point as %g of the value, strings byte-exact); the canonicaliser "
          "(tools/ddl.py, tools/props/c06.py) is part of the trusted base",
          "files of testdata/reference, testdata/c-library-corpus and testdata/*.h5 have no shipped report and cannot be compared",
          "TLC/SANY, Go toolchain"]
INLINE = 48
INT = re.compile(r'^[-+]?\d+$')


def norm_float_tok(t):
    s = t.lower()
    if "nan" in s:
        return "nan"
    return s


PREC = 6


def fmt_g(x):
    if x != x:
        return "nan"
    if x in (float("inf"), float("-inf")):
        return "inf" if x > 0 else "-inf"
    return ("%%.%dg" % PREC) % x


def canon_pair(e, g):
    """Canonical strings of one expected report token and one reader token."""
    if isinstance(e, (tuple, list)):  # string
        ce = "s" + bytes(e[1]).hex() if isinstance(e[1], (bytes, bytearray)) else "s" + e[1]
        return ce, g
    if g is None:
        return e, "<none>"
    k, body = g[0], g[1:]
    if k == "s":
        return e, g
    if INT.match(e):
        ce = str(int(e))
        if k == "i":
            return ce, str(int(body))
        if k in "fg":
            try:
                x = float(body)
            except ValueError:
                return ce, body
            if x == x and abs(x) <= 2 ** 64 and x == int(x):
                return ce, str(int(x))
            return ce, repr(x)
        return ce, g
    ce = norm_float_tok(e)
    if PREC == 0 and k in "fgi":
        return "~", "~"      # the report was printed with an unknown floating point format
    if k == "i":
        return ce, fmt_g(float(int(body)))
    if k in "fg":
        try:
            return ce, fmt_g(float(body))
        except ValueError:
            return ce, body
    return ce, g


def compare(exp, got_toks, ngot_elems, prec=6):
    """exp: report tokens; got: reader tokens. -> dict for the trace."""
    global PREC
    PREC = prec
    n = min(len(exp), len(got_toks))
    ce, cg = [], []
    first = 0
    for i in range(n):
        a, b = canon_pair(exp[i], got_toks[i])
        ce.append(a)
        cg.append(b)
        if a != b and not first:
            first = i + 1
    mkind = ""
    if first:
        e0, g0 = exp[first - 1], got_toks[first - 1]
        if isinstance(e0, str) and INT.match(e0) and g0[:1] in "fg":
            try:
                if float(int(e0)) == float(g0[1:]):
                    mkind = "nearest-float64"
            except ValueError:
                pass
    r = {"mkind": mkind, "nexp": len(exp), "ngot": len(got_toks) if len(got_toks) < 70000 or len(exp) <= len(got_toks) else len(got_toks)}
    if len(got_toks) >= 70000 and len(exp) > len(got_toks):  # the driver caps what it prints: compare the prefix
        r["nexp"] = r["ngot"] = len(got_toks)
        ce = ce[:len(got_toks)]
    if len(ce) <= INLINE and len(cg) <= INLINE and len(exp) == len(got_toks):
        r.update({"vexp": ce, "vgot": cg, "dexp": "", "dgot": "", "firstdiff": first, "wantat": "", "gotat": ""})
    else:
        r.update({"vexp": [], "vgot": [], "dexp": hashlib.sha256("\x00".join(ce).encode()).hexdigest()[:16],
                  "dgot": hashlib.sha256("\x00".join(cg).encode()).hexdigest()[:16], "firstdiff": first,
                  "wantat": ce[first - 1] if first else "", "gotat": cg[first - 1] if first else ""})
    return r


CLS = {0: "int", 1: "float", 3: "string", 4: "bitfield", 5: "opaque", 6: "compound", 7: "reference", 8: "enum", 9: "vlen", 10: "array"}


def type_exp(dt):
    if not dt:
        return {"cls": "?", "size": "?", "sign": "?", "order": "?"}
    t = {"cls": dt["cls"], "size": "?", "sign": "?", "order": "?"}
    if dt["cls"] in ("int", "float"):
        t["size"] = str(dt["size"])
        t["order"] = dt["order"] if dt["order"] in ("LE", "BE") else "?"
        if dt["cls"] == "int":
            t["sign"] = "signed" if dt["signed"] else "unsigned"
    if dt["cls"] == "string":
        if dt.get("vlen"):
            t["cls"] = "vlen-string"
        elif dt.get("size") is not None:
            t["size"] = str(dt["size"])
    if dt["cls"] in ("named", "other"):
        t["cls"] = "?"
    return t


def type_got(cls, size, bits):
    c = CLS.get(cls, "?")
    t = {"cls": c, "size": "?", "sign": "?", "order": "?"}
    if c in ("int", "float"):
        t["size"] = str(size)
        t["order"] = "BE" if bits & 1 else "LE"
        if c == "int":
            t["sign"] = "signed" if bits & 8 else "unsigned"
    if c == "string":
        t["size"] = str(size)
    if c == "vlen" and (bits & 0xf) == 1:
        t["cls"] = "vlen-string"
    return t


def flat_kinds(dt):
    """Is the data of this type comparable token by token with what the reader returns?"""
    c = dt["cls"] if dt else "?"
    if c in ("int", "float"):
        return True
    if c == "string":
        return True
    if c == "compound":
        return all(flat_kinds(m["dtype"]) for m in dt["members"])
    if c == "array":
        return flat_kinds(dt["base"])
    return False


def load_expectations(ctx):
    root = os.path.join(ctx.repo, "testdata", "hdf5_official")
    per = collections.defaultdict(list)
    stats = collections.Counter()
    for f in sorted(glob.glob(os.path.join(root, "ddl", "*.ddl"))):
        text = open(f, errors="surrogateescape").read()
        try:
            h5, objs, notes = ddl.parse(text)
        except Exception:  # noqa: BLE001
            stats["reports_without_file_header"] += 1
            continue
        h5 = os.path.basename(h5)
        if "onion" in h5 or "onion" in os.path.basename(f):
            stats["reports_of_onion_revisions_skipped"] += 1   # describe a revision kept in a separate .onion file
            continue
        p = os.path.join(root, h5)
        if not os.path.exists(p) and h5.endswith("-tmp.h5") and os.path.exists(os.path.join(root, h5[:-7] + ".h5")):
            # the h5format_convert tests dump a converted COPY "X-tmp.h5" of the shipped X.h5: the conversion rewrites storage
            # metadata (superblock, chunk indexes), not the objects - names, kinds, types and shapes are those of X.h5
            h5 = h5[:-7] + ".h5"
            p = os.path.join(root, h5)
            stats["reports_of_converted_copies_paired_with_the_original"] += 1
        if not os.path.exists(p):
            stats["reports_for_absent_files"] += 1
            continue
        if os.path.getsize(p) == 0:
            stats["reports_for_emptied_files"] += 1
            continue
        if notes or "h5dump error" in text or "unable to" in text or "usage:" in text:
            stats["reports_skipped_subset_or_error_text"] += 1
            continue
        stats["reports_used"] += 1
        per[h5].append((os.path.basename(f), objs))
    # merge the reports of one file; conflicting statements about the same thing are dropped
    merged = {}
    for h5, reps in per.items():
        objs = {}
        for name, o in reps:
            for path, d in o.items():
                m = objs.setdefault(path, {"kind": d["kind"], "attrs": {}, "members": None, "reports": []})
                m["reports"].append(name)
                if d["kind"] != "unknown" and not d.get("hardlink"):
                    if m["kind"] in ("unknown",) or m.get("only_hardlink"):
                        m["kind"] = d["kind"]
                    m["only_hardlink"] = False
                elif d.get("hardlink") and "only_hardlink" not in m:
                    m["only_hardlink"] = True
                if d.get("link"):
                    m["link"] = d["link"]
                if d.get("members") is not None and not d.get("hardlink"):
                    m["members"] = sorted(set((m["members"] or []) + d["members"]))
                for k in ("dtype", "dims", "space", "data", "prec"):
                    if d.get(k) is not None:
                        if k not in m:
                            m[k] = d[k]
                        elif m[k] != d[k]:
                            m[k] = None if k == "data" else m[k]
                            m.setdefault("conflicts", set()).add(k)
                for an, a in d["attrs"].items():
                    ma = m["attrs"].setdefault(an, dict(a))
                    if ma.get("data") != a.get("data"):
                        ma["data"] = None
        merged[h5] = objs
    return root, merged, stats


BASELINE = os.path.join(H.ROOT, "notes", "corpus_open_baseline.json")


def corpus_differential(ctx):
    """Extended coverage, no verdict: the library's reader against the independent decoder on EVERY file of the bundled
    corpus (the reports of testdata/hdf5_official/ddl describe about a fifth of them).  Recorded in the evidence: how many
    files each of them opens, the differences by category.  Printed as NOTE lines: files that opened when the baseline
    (notes/corpus_open_baseline.json) was taken and do not open now - a repair of the reader that makes a valid file
    unreadable is invisible to C06 itself, which accepts an error wherever a feature is unsupported."""
    files = []
    for pat in ("testdata/hdf5_official/*.h5", "testdata/c-library-corpus/**/*.h5", "testdata/reference/*.h5", "testdata/*.h5"):
        files += glob.glob(os.path.join(ctx.repo, pat), recursive=True)
    files = sorted(f for f in set(files) if 0 < os.path.getsize(f) < 50_000_000)
    path = ctx.write_cases([{"file": f} for f in files], "corpusdiff_files.ndjson")
    trace, out = ctx.drive("corpusdiff", path, trace_name="corpusdiff.ndjson")
    evs = [json.loads(x) for x in open(trace)]
    evs = [e for e in evs if e.get("op") == "diff"]
    rel = lambda f: os.path.relpath(f, os.path.join(ctx.repo, "testdata"))
    opened = sorted(rel(e["file"]) for e in evs if e.get("libopen") == "ok")
    cats = collections.Counter()
    for e in evs:
        for d in e["diffs"]:
            k = re.sub(r"^[^:]*: ", "", d)
            cats[re.sub(r"[\[(].*", "", re.sub(r"\d+", "N", k)).strip()[:60]] += 1
    if os.environ.get("H5V_WRITE_BASELINE"):
        with open(BASELINE, "w") as f:
            json.dump({"opened_by_library": opened}, f, indent=0)
    lost = []
    if os.path.exists(BASELINE):
        base = set(json.load(open(BASELINE))["opened_by_library"])
        lost = sorted(base - set(opened))
        for f in lost[:20]:
            why = next((e["diffs"][0] for e in evs if rel(e["file"]) == f and e["diffs"]), "")
            H.log("NOTE extended-coverage corpus: %s opened when the baseline was taken and does not open now: %s" % (f, why[:200]))
    return {"files": len(evs), "opened_by_library": len(opened), "opened_by_decoder": sum(1 for e in evs if e.get("indopen") == "ok"),
            "files_with_differences": sum(1 for e in evs if e["diffs"]), "difference_categories": dict(cats.most_common(12)),
            "opened_at_baseline_not_now": lost}


def run(ctx):
    ctx.build()
    root, merged, rstats = load_expectations(ctx)
    files = sorted(merged)
    cases = [{"Path": os.path.join(root, f), "Name": f} for f in files]
    cpath = ctx.write_cases(cases)
    outp, out = ctx.drive("c06", cpath, trace_name="reader.ndjson")
    H.log(out.strip())
    got = {}
    for line in open(outp):
        d = json.loads(line)
        got[d["file"]] = d
    events = []
    st = collections.Counter()
    for f in files:
        g = got[f]
        events.append({"op": "reset", "file": f})
        events.append({"op": "file", "file": f, "path": "", "open": g["open"], "msg": g.get("msg", "")[:120]})
        gobjs = {o["p"]: o for o in g["objs"]}
        for path in sorted(merged[f]):
            e = merged[f][path]
            if e["kind"] in ("unknown", "datatype"):
                continue
            go = gobjs.get(path)
            parent = path.rsplit("/", 1)[0] or "/"
            pobj = gobjs.get(parent)
            ev = {"op": "obj", "file": f, "path": path, "kexp": e["kind"], "kgot": go["k"] if go else "absent", "link": e.get("link", ""),
                  "parent_err": bool(path != "/" and pobj is None), "info": (go or {}).get("info", ""), "layout": (go or {}).get("layout", -1),
                  "texp": type_exp(e.get("dtype")), "tgot": {"cls": "?", "size": "?", "sign": "?", "order": "?"},
                  "dimsexp": ["?"], "dimsgot": [], "vres": "none", "api": "", "nexp": 0, "ngot": 0,
                  "vexp": [], "vgot": [], "dexp": "", "dgot": "", "firstdiff": 0, "wantat": "", "gotat": "", "mkind": ""}
            if e["kind"] == "link":
                # soft / external / user-defined links: the reader has to show a member of that name (or fail the group)
                ev["kexp"] = "link"
            if go and e["kind"] == "dataset" and go["k"] == "dataset":
                ev["tgot"] = type_got(go["cls"], go["size"], go["bits"])
                if e.get("dims") is not None and e.get("space") in ("simple", "scalar"):
                    ev["dimsexp"] = [str(x) for x in e["dims"]]
                ev["dimsgot"] = [str(x) for x in go["dims"]]
                dt = e.get("dtype")
                data = e.get("data")
                if data is not None and dt and flat_kinds(dt):
                    api = {"int": "f64", "float": "f64", "string": "str", "compound": "cmp", "array": "f64"}.get(dt["cls"])
                    r = go.get(api) if api else None
                    if r is not None:
                        ev["api"] = api
                        if r["res"] == "ok":
                            ev["vres"] = "ok"
                            ev.update(compare(data, r["toks"], r["n"], e.get("prec", 6)))
                            st["datasets_compared"] += 1
                        else:
                            ev["vres"] = "err" if r["res"] == "err" else "panic"
                            st["dataset_reads_refused"] += 1
                elif data is not None:
                    st["datasets_not_comparable_type"] += 1
            events.append(ev)
            # attributes the reports list for this object
            for an in sorted(e["attrs"]):
                a = e["attrs"][an]
                ga = None
                if go:
                    for x in go["attrs"]:
                        if x["name"] == an:
                            ga = x
                aev = {"op": "attr", "file": f, "path": path + "@" + an, "owner_absent": go is None,
                       "list_err": bool(go) and go["attrs_res"] != "ok", "absent": ga is None,
                       "storage": "", "texp": type_exp(a.get("dtype")), "tgot": {"cls": "?", "size": "?", "sign": "?", "order": "?"},
                       "dimsexp": ["?"], "dimsgot": [], "vres": "none", "api": "ReadValue", "layout": -1, "nexp": 0, "ngot": 0,
                       "vexp": [], "vgot": [], "dexp": "", "dgot": "", "firstdiff": 0, "wantat": "", "gotat": "", "mkind": ""}
                if ga is not None:
                    aev["tgot"] = type_got(ga["cls"], ga["size"], ga["bits"])
                    if a.get("dims") is not None and a.get("space") in ("simple", "scalar"):
                        aev["dimsexp"] = [str(x) for x in a["dims"]]
                    aev["dimsgot"] = [str(x) for x in ga["dims"]]
                    dt = a.get("dtype")
                    if a.get("data") is not None and dt and dt["cls"] in ("int", "float", "string") and not dt.get("vlen"):
                        if ga["rv"]["res"] == "ok":
                            aev["vres"] = "ok"
                            aev.update(compare(a["data"], ga["rv"]["toks"], ga["rv"]["n"], a.get("prec", 6)))
                            st["attributes_compared"] += 1
                        else:
                            aev["vres"] = "err" if ga["rv"]["res"] == "err" else "panic"
                            st["attribute_reads_refused"] += 1
                events.append(aev)
    trace = os.path.join(ctx.scr, "trace.ndjson")
    cid = -1
    with open(trace, "w") as fh:
        for e in events:
            if e["op"] == "reset":
                cid += 1
            e["case"] = cid
            fh.write(json.dumps(e) + "\n")
    verdict, vs = ctx.validate("C06Trace.tla", "C06_trace.cfg", trace)
    nviol, known = H.report(ctx, verdict["bad"], lambda i: {"file": files[i]}, trace)
    if os.environ.get("H5V_HIST"):
        hist, ex = collections.Counter(), {}
        for b in verdict["bad"]:
            for it in b["items"]:
                k = (it["diag"], it.get("what"), it.get("field"), it.get("cls"), it.get("size"), it.get("order"), it.get("sign"), it.get("api"), it.get("kind"), it.get("link"), it.get("layout"))
                hist[k] += 1
                ex.setdefault(k, (b["file"], b["path"], str(it.get("want"))[:40], str(it.get("got"))[:40], it.get("at")))
        for k, n in sorted(hist.items(), key=str):
            H.log("HIST %4d %s %s" % (n, k, ex[k]))
        byf = collections.defaultdict(set)
        for b in verdict["bad"]:
            for it in b["items"]:
                byf[(it["diag"], it.get("kind") or it.get("cls"))].add(b["file"])
        for k, v in sorted(byf.items(), key=str):
            H.log("FILES %s %s" % (k, sorted(v)))
        for b in verdict["bad"]:
            if b["file"] in ("thlink.h5", "tgroup.h5", "torderattr.h5", "trefer_attr.h5", "tvlstr.h5"):
                H.log("DET %s %s %s" % (b["file"], b["path"], [it["diag"] for it in b["items"]]))
    ts = verdict["stats"]
    cov = {
        "extended_coverage_corpus_differential": corpus_differential(ctx),
        "evaluations": ts["objects"] + ts["attrs"],
        "distinct_nontrivial": ts["values"],
        "rule": "inputs = every file of testdata/hdf5_official that an unambiguous shipped h5dump report describes (%d files, %d reports used); "
                "evaluations = every object and attribute those reports list, compared on kind, element type (class, size, sign, byte order), shape, "
                "values (all elements; in h5dump's formatting) and presence; non-trivial = value sequences the reader returned without error and that "
                "were compared element by element" % (len(files), rstats["reports_used"]),
        "reports": dict(rstats), "compared": dict(st),
        "samples": [files[0], files[len(files) // 2], files[-1]],
        "trace_stats": ts, "rejected": len(verdict["bad"]), "known_findings_matched": known, "exhaustive": True,
    }
    H.write_evidence(ctx, LEVEL, cov, ASSUME, nviol)
    H.log("C06 %s: files=%d opened=%d objects=%d attrs=%d value-sequences=%d elements=%d rejected=%d violations=%d known=%s wall=%.1fs" % (
        ctx.tier, ts["files"], ts["opened"], ts["objects"], ts["attrs"], ts["values"], ts["elements"], len(verdict["bad"]), nviol, known, time.time() - ctx.t0))
    return 1 if nviol else 0


def replay(ctx, body):
    H.log("C06 replays are whole-corpus runs; the failing file is " + json.dumps(body.get("case")))
    return run(ctx)

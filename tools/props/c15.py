"""C15 - the fractal heap returns exactly the bytes stored under each live id."""
import json
import random
import time

import h5vlib as H

LEVEL = "model_checking"
ASSUME = ["projection = GetObject for every inserted id + header counters of the real WritableFractalHeap",
          "heap ids are decoded by the harness per the HDF5 format (flags, offset, length)", "TLC/SANY, Go toolchain"]


def long_traces(ctx, n):
    rng = random.Random(ctx.seed * 141650939 + 15)
    cases = []
    for k in range(n):
        block = rng.choice([64, 128, 512, 65536, 65536])
        small = k % 2 == 0          # half of the traces stay inside the first direct block
        ops, nins, live = [], 0, []
        for _ in range(rng.randint(20, 120)):
            r = rng.random()
            if r < 0.55:
                ln = rng.choice([1, 2, 7, 8, 26, 45, block // 4, max(1, block - 19), block - 20 if block > 20 else 1, block, block + 1, 300, 4000])
                ln = max(1, min(ln, 70000))
                if small:
                    ln = rng.choice([1, 2, 3, 7, 8, 26]) if block <= 128 else rng.choice([1, 7, 8, 26, 45, 100, 300])
                    if block <= 128 and nins >= 3 and rng.random() < 0.7:
                        continue
                ops.append({"op": "ins", "len": ln, "i": 0})
                nins += 1
                live.append((nins, ln))
            elif r < 0.70 and live:
                i, ln = rng.choice(live)
                ops.append({"op": "ovw", "len": ln if rng.random() < 0.8 else ln + 1, "i": i})
            elif r < 0.82 and live:
                i, ln = rng.choice(live)
                ops.append({"op": "del", "len": 0, "i": i})
                if rng.random() < 0.9:
                    live.remove((i, ln))
            elif r < 0.92:
                ops.append({"op": "write", "len": 0, "i": 0})
            else:
                ops.append({"op": "load", "len": 0, "i": 0})
        cases.append({"cfg": {"block": block}, "ops": ops})
    return cases


def big_block_traces(ctx, n):
    """Heaps with the starting block the dense writers use (512 KiB): objects placed beyond 64 KiB inside ONE direct block."""
    rng = random.Random(ctx.seed * 2654435761 + 1515)
    cases = []
    for k in range(n):
        block = 524288
        ops, nins, live, vol = [], 0, [], 0
        for _ in range(rng.randint(8, 40)):
            r = rng.random()
            if r < 0.6:
                ln = rng.choice([1, 26, 300, 4000, 20000, 40000, 65535, 65536, 30000])
                if vol + ln > block - 64:       # stay inside the first direct block: the indirect root is another matter
                    continue
                vol += ln
                ops.append({"op": "ins", "len": ln, "i": 0})
                nins += 1
                live.append((nins, ln))
            elif r < 0.72 and live:
                i, ln = rng.choice(live)
                ops.append({"op": "ovw", "len": ln, "i": i})
            elif r < 0.8 and live:
                i, ln = rng.choice(live)
                ops.append({"op": "del", "len": 0, "i": i})
                live.remove((i, ln))
            elif r < 0.9:
                ops.append({"op": "write", "len": 0, "i": 0})
            else:
                ops.append({"op": "load", "len": 0, "i": 0})
        cases.append({"cfg": {"block": block}, "ops": ops})
    return cases


def run(ctx):
    thorough = ctx.tier == "thorough"
    mc = ctx.model_check("C15MC.tla", "C15_mc_thorough.cfg" if thorough else "C15_mc.cfg", workers=min(8, ctx.workers), coverage=thorough)
    code = ctx.tlc("C15MC.tla", "C15_code.cfg", workers=4, timeout=300)
    if code.ok or not code.violated:
        raise H.Infra("FractalHeap with CODE_CapacityIgnoresPrefix=TRUE no longer yields a counterexample")
    code2 = ctx.tlc("C15MC.tla", "C15_code_offwidth.cfg", workers=4, timeout=300)
    if code2.ok or not code2.violated:
        raise H.Infra("FractalHeap with an id offset field narrower than the block no longer yields a counterexample")
    lines, gr = ctx.generate("C15Gen.tla", "C15_gen_thorough.cfg" if thorough else "C15_gen_quick.cfg")
    cases = [json.loads(x) for x in lines]
    ngen = len(cases)
    cases += long_traces(ctx, 400 if thorough else 60)
    # objects larger than the largest managed object (64 KiB) are refused - at every fill level, and nothing else happens
    for block in (64, 512, 65536):
        for pre in ([], [8], [26, 26], [block // 2], [max(1, block - 30)]):
            ops = [{"op": "ins", "len": n, "i": 0} for n in pre] + [{"op": "ins", "len": 65537, "i": 0}, {"op": "ins", "len": 70000, "i": 0},
                                                                        {"op": "ins", "len": 7, "i": 0}, {"op": "write", "len": 0, "i": 0},
                                                                        {"op": "load", "len": 0, "i": 0}, {"op": "ins", "len": 3, "i": 0}]
            cases.append({"cfg": {"block": block}, "ops": ops})
    cases += big_block_traces(ctx, 40 if thorough else 10)
    path = ctx.write_cases(cases)
    trace, out = ctx.drive("c15", path)
    H.log(out.strip())
    verdict, vs = ctx.validate("C15Trace.tla", "C15_trace.cfg", trace)
    nviol, known = H.report(ctx, verdict["bad"], lambda i: cases[i], trace)

    # binding self-test: one recorded field altered must be objected to
    def _get_other_bytes(evs):
        for e in evs:
            if e.get("proj") == "ok" and e.get("res") == "ok":
                for g in e.get("get", {}).values():
                    if g.get("res") == "ok":
                        g["data"] = "0" + str(g["data"])
                        return evs
        return None

    def _count_altered(evs):
        for e in evs:
            if e.get("proj") == "ok" and e.get("res") == "ok" and e.get("nobjs", 0) >= 1:
                e["nobjs"] += 1
                return evs
        return None

    def _free_altered(evs):
        for e in evs[2:]:
            if e.get("proj") == "ok" and e.get("res") == "ok" and "free" in e:
                e["free"] += 8
                return evs
        return None
    selftest = H.binding_selftest(ctx, "C15Trace.tla", "C15_trace.cfg", trace,
                                  [("read-back-bytes-altered", _get_other_bytes), ("object-count-altered", _count_altered),
                                   ("free-space-altered", _free_altered)], max_cases=800)
    cov = {
        "binding_selftest": selftest,
        "states": mc.distinct + gr.distinct, "transitions": mc.generated + gr.generated,
        "traces_validated_against_impl": verdict["stats"]["cases"],
        "samples": [cases[0], cases[ngen // 2], {"cfg": cases[ngen]["cfg"], "ops": cases[ngen]["ops"][:12], "ops_total": len(cases[ngen]["ops"])}],
        "evaluations": len(cases),
        "distinct_nontrivial": len({H.nontrivial_hash(c) for c in cases if len(c["ops"]) >= 2}),
        "rule": "cases = every history of <= Depth calls (insert of 8 size classes around the 64-byte block / its 45-byte object room, "
                "same-size and wrong-size overwrite, delete, write-out, load-back) generated by TLC from FractalHeap, plus seeded traces "
                "of up to 120 calls on 64/128/512/65536-byte blocks (sizes at block-19, block-20, block, block+1); after every call every "
                "object is read back; non-trivial = at least two calls",
        "design_model": {"module": "FractalHeap", "distinct_states": mc.distinct, "refinement": "FractalHeap => BlobStore checked",
                         "code_switch_counterexample": code.violated,
                         "zero_coverage": mc.coverage_zero() if thorough else "not measured in quick tier"},
        "trace_stats": verdict["stats"], "trace_events": verdict["events"],
        "rejected_cases": len(verdict["bad"]), "known_findings_matched": known, "exhaustive": False,
    }
    H.write_evidence(ctx, LEVEL, cov, ASSUME, nviol)
    H.log("C15 %s: cases=%d rejected=%d violations=%d known=%s wall=%.1fs" % (
        ctx.tier, len(cases), len(verdict["bad"]), nviol, known, time.time() - ctx.t0))
    return 1 if nviol else 0


def replay(ctx, body):
    path = ctx.write_cases([body["case"]])
    trace, _ = ctx.drive("c15", path)
    verdict, _ = ctx.validate("C15Trace.tla", "C15_trace.cfg", trace)
    H.log("VERDICT " + json.dumps(verdict))
    return 1 if verdict["bad"] else 0

"""C10 - reopening a file for modification preserves everything not modified."""
import copy
import random

from props.logical import run_logical, replay_logical
import props.logical as L
import h5vlib as H

LEVEL = "model_checking"


def scenarios(ctx, thorough):
    rng = random.Random(ctx.seed * 67867967 + 10)
    cases = []
    vals = ["i32", "s40", "s150", "ad3", "u8", "f64"]
    for sb in (0, 2, 3):
        base = [{"op": "mkgroup", "p": "/g"},
                {"op": "mkds", "p": "/g/d", "dt": "i32", "dims": [4]}, {"op": "write", "p": "/g/d", "data": "seq"},
                {"op": "mkds", "p": "/e", "dt": "f64", "dims": [2, 2]}, {"op": "write", "p": "/e", "data": "ext"},
                {"op": "mkds", "p": "/c", "dt": "i64", "dims": [5], "chunk": [2]}, {"op": "write", "p": "/c", "data": "neg"},
                {"op": "attr", "p": "/e", "n": "keep", "v": "s40"}]
        # no-op sessions: byte identity
        for k in (1, 2, 3):
            ops = copy.deepcopy(base) + [{"op": "fclose"}, {"op": "sha"}]
            for _ in range(k):
                ops += [{"op": "session"}, {"op": "fclose"}, {"op": "sha"}]
            cases.append({"cfg": {"sb": sb, "rb": "", "style": 0, "tag": "C10-noop"}, "ops": ops})
        # open a dataset but do nothing with it
        ops = copy.deepcopy(base) + [{"op": "fclose"}, {"op": "sha"}, {"op": "session"}, {"op": "opends", "p": "/e"},
                                     {"op": "fclose"}, {"op": "sha"}]
        cases.append({"cfg": {"sb": sb, "rb": "", "style": 0, "tag": "C10-noop-open"}, "ops": ops})
        # datasets whose paths end alike (same leaf name at two depths, one name a suffix of the other): every
        # reopened handle must address the dataset it names
        for order in (0, 1):
            mk = [[{"op": "mkds", "p": "/sig", "dt": "i32", "dims": [3]}, {"op": "write", "p": "/sig", "data": "seq"}],
                  [{"op": "mkgroup", "p": "/run"}, {"op": "mkds", "p": "/run/sig", "dt": "i32", "dims": [3]}, {"op": "write", "p": "/run/sig", "data": "neg"},
                   {"op": "mkds", "p": "/run/xsig", "dt": "i32", "dims": [3]}, {"op": "write", "p": "/run/xsig", "data": "ext"}]]
            pre = mk[order] + mk[1 - order]
            for tgt in ("/sig", "/run/sig", "/run/xsig"):
                ops = copy.deepcopy(pre) + [{"op": "session"}, {"op": "opends", "p": tgt}, {"op": "attr", "p": tgt, "n": "mark", "v": "i32"},
                                            {"op": "write", "p": tgt, "data": "rnd"}]
                cases.append({"cfg": {"sb": sb, "rb": "", "style": 0, "tag": "C10-alike-paths"}, "ops": ops})
            ops = copy.deepcopy(pre) + [{"op": "session"}, {"op": "opends", "p": "/sig"}, {"op": "opends", "p": "/run/sig"},
                                        {"op": "attr", "p": "/sig", "n": "one", "v": "i32"}, {"op": "attr", "p": "/run/sig", "n": "two", "v": "f64"}]
            cases.append({"cfg": {"sb": sb, "rb": "", "style": 0, "tag": "C10-alike-paths"}, "ops": ops})
        # attribute histories spread over sessions, crossing compact -> dense
        for t in range(40 if thorough else 8):
            ops = copy.deepcopy(base)
            nsess = rng.randint(1, 4)
            for sidx in range(nsess):
                ops.append({"op": "session"})
                tgt = rng.choice(["/e", "/g/d", "/c"])
                ops.append({"op": "opends", "p": tgt})
                for _ in range(rng.randint(0, 6)):
                    r = rng.random()
                    if r < 0.65:
                        ops.append({"op": "attr", "p": tgt, "n": "n%d" % rng.randint(0, 5), "v": rng.choice(vals)})
                    elif r < 0.85:
                        ops.append({"op": "delattr", "p": tgt, "n": "n%d" % rng.randint(0, 5)})
                    else:
                        ops.append({"op": "write", "p": tgt, "data": rng.choice(["seq", "neg", "rnd"])})
                if rng.random() < 0.3:
                    ops.append({"op": "mkds", "p": "/new%d" % sidx, "dt": "u8", "dims": [2]})
                    ops.append({"op": "write", "p": "/new%d" % sidx, "data": "seq"})
                if rng.random() < 0.2:
                    ops.append({"op": "mkgroup", "p": "/ng%d" % sidx})
            cases.append({"cfg": {"sb": sb, "rb": "", "style": t % 3, "tag": "C10-sessions"}, "ops": ops})
    cases += L.neighbour_cases("C10-neighbours", True)
    return cases


def run(ctx):
    thorough = ctx.tier == "thorough"
    # TLC-generated histories: keep those that contain a session boundary (the others are C02/C03 territory)
    orig = ctx.generate

    def gen(module, cfg, **kw):
        lines, r = orig(module, cfg, **kw)
        keep = [x for x in lines if '"session"' in x]
        return keep, r
    ctx.generate = gen
    # resource side of "Close": after a run of session cases in one process (collector off) no descriptor is left open
    fdcases = [c for c in scenarios(ctx, False) if c["cfg"]["tag"] in ("C10-sessions", "C10-noop", "C10-alike-paths")][:60]
    fpath = ctx.write_cases(fdcases, name="fdcases.ndjson")
    ftrace, _ = ctx.drive("ops", fpath, trace_name="fdtrace.ndjson", env={"H5V_FDCHECK": "1"})
    fv, _ = ctx.validate("H5LogicalTrace.tla", "H5Logical_trace.cfg", ftrace, parts=1)
    leaks = [b for b in fv["bad"] if any(it.get("diag") == "file-descriptors-leaked" for it in b.get("items", []))]
    if leaks:
        H.report(ctx, leaks, lambda i: {"fdcheck": "session cases in one process"}, ftrace)
        H.write_evidence(ctx, LEVEL, {"evaluations": len(fdcases), "distinct_nontrivial": len(fdcases), "rule": "descriptor check: session cases replayed in one process with the collector off", "samples": fdcases[:1]}, L.ASSUME, len(leaks))
        return 1
    return run_logical(
        ctx, LEVEL, [("C10Model.tla", "C10_thorough.cfg" if thorough else "C10_quick.cfg")],
        extra_cases=scenarios(ctx, thorough),
        nontrivial=lambda c: sum(1 for o in c["ops"] if o["op"] == "session") >= 1 and len(c["ops"]) >= 3,
        rule="cases = every history of <= Depth calls with at least one session boundary (Close + OpenForWrite; handles are lost, "
             "datasets reopened with OpenDataset) generated by TLC from H5Logical over {mkgroup, mkds, write, attr, delattr, session, "
             "opends}, plus seeded multi-session scenarios on a file with three datasets (attribute upserts/deletes crossing into "
             "dense storage, data overwrite, new objects) and no-op sessions whose SHA must stay identical; superblock 0/2/3; "
             "non-trivial = at least one session boundary and three calls")


def replay(ctx, body):
    return replay_logical(ctx, body)

"""C11 - every metadata encoder is inverted by its decoder."""
import collections
import json
import time

import h5vlib as H

LEVEL = "exploration"
ASSUME = ["the value atoms of Codec.tla (boundary sizes, name lengths, address classes, flag combinations) stand for the whole value space of each element",
          "array and enum properties have no decoder in the library; their dimensions, base type and names are read by the harness at the positions the format gives them",
          "the symbol-table message is decoded inline by the group reader only; its round trip is exercised through files by C01/C03 under superblock version 0",
          "TLC/SANY, Go toolchain"]


def run(ctx):
    thorough = ctx.tier == "thorough"
    lines, gr = ctx.generate("C11Model.tla", "C11_thorough.cfg" if thorough else "C11_quick.cfg")
    cases = [json.loads(x) for x in lines]
    path = ctx.write_cases(cases)
    trace, out = ctx.drive("c11", path)
    H.log(out.strip())
    verdict, vs = ctx.validate("C11Trace.tla", "C11_trace.cfg", trace)
    nviol, known = H.report(ctx, verdict["bad"], lambda i: cases[i], trace)
    import os
    if os.environ.get("H5V_HIST"):
        hist = collections.Counter()
        for b in verdict["bad"]:
            for it in b["items"]:
                hist[(it.get("kind"), it["diag"], it.get("field"), it.get("decoder"), it.get("side"), str(it.get("msg"))[:60])] += 1
        for k, n in sorted(hist.items(), key=lambda x: str(x)):
            H.log("HIST %5d %s" % (n, k))
    def _alter_decoded(evs):
        for e in evs:
            if e.get("op") == "codec" and e.get("enc") == "ok" and e.get("dec") == "ok" and e.get("d"):
                k = sorted(e["d"])[0]
                v = e["d"][k]
                e["d"][k] = (v + 1) if isinstance(v, int) and not isinstance(v, bool) else ((not v) if isinstance(v, bool) else ("altered" if isinstance(v, str) else []))
                return evs
        return None

    def _alter_determinism(evs):
        for e in evs:
            if e.get("op") == "codec" and e.get("enc") == "ok" and e.get("det") is True:
                e["det"] = False
                return evs
        return None
    selftest = H.binding_selftest(ctx, "C11Trace.tla", "C11_trace.cfg", trace, [("decoded-field-altered", _alter_decoded), ("second-encoding-differs", _alter_determinism)])
    st = verdict["stats"]
    kinds = collections.Counter(c["kind"] for c in cases)
    cov = {
        "evaluations": len(cases),
        "distinct_nontrivial": len({H.nontrivial_hash(c) for c in cases if c["must"]}),
        "rule": "cases = every value of the Codec.tla value spaces (15 element kinds: basic/opaque/vlen/array/enum/compound datatypes, dataspace, layout, "
                "filter pipeline, attribute, attribute info, link, link info, superblock, object header), enumerated by TLC; each is encoded twice by the "
                "library (determinism), decoded by the library's decoder(s) and compared field by field with Exp(v) in TLC; values that cannot be "
                "represented must be refused, values the writer itself produces must be accepted; non-trivial = values that must be encodable",
        "per_kind": dict(kinds),
        "samples": [cases[0], cases[len(cases) // 2], cases[-1]],
        "states": gr.distinct, "transitions": gr.generated, "exhaustive": True,
        "trace_stats": st, "rejected_cases": len(verdict["bad"]), "known_findings_matched": known, "binding_selftest": selftest,
    }
    H.write_evidence(ctx, LEVEL, cov, ASSUME, nviol)
    H.log("C11 %s: cases=%d roundtrips=%d refused=%d rejected=%d violations=%d known=%s wall=%.1fs" % (
        ctx.tier, len(cases), st["roundtrips"], st["refused"], len(verdict["bad"]), nviol, known, time.time() - ctx.t0))
    return 1 if nviol else 0


def replay(ctx, body):
    path = ctx.write_cases([body["case"]])
    trace, _ = ctx.drive("c11", path)
    verdict, _ = ctx.validate("C11Trace.tla", "C11_trace.cfg", trace)
    H.log("VERDICT " + json.dumps(verdict))
    return 1 if verdict["bad"] else 0

"""C04 - operations on one object never change another object."""
import random

from props.logical import run_logical, replay_logical, neighbour_cases

LEVEL = "model_checking"


def programs(rng, names):
    progs = {}
    for k, nme in enumerate(names):
        kind = rng.choice(["chunk", "contig", "group", "contig", "chunk", "vlen"])
        p = []
        if kind == "vlen":       # variable-length strings: element data in global heap collections next to the other objects
            n = rng.randint(1, 4)
            p.append({"op": "mkds", "p": "/" + nme, "dt": "vls", "dims": [n]})
            p.append({"op": "write", "p": "/" + nme, "data": rng.choice(["seq", "ext", "rnd"])})
            if rng.random() < 0.5:
                p.append({"op": "attr", "p": "/" + nme, "n": "a0", "v": "i32"})
            if rng.random() < 0.5:
                p.append({"op": "write", "p": "/" + nme, "data": rng.choice(["seq", "ext", "rnd"])})
        elif kind == "group":
            p.append({"op": "mkgroup", "p": "/" + nme})
            for a in range(rng.randint(1, 5)):
                p.append({"op": "attr", "p": "/" + nme, "n": "a%d" % a, "v": rng.choice(["i32", "s40", "s150", "ad3"])})
            p.append({"op": "mkds", "p": "/%s/m" % nme, "dt": "i16", "dims": [2]})
            p.append({"op": "write", "p": "/%s/m" % nme, "data": "neg"})
        else:
            dims = [rng.randint(1, 6)]
            o = {"op": "mkds", "p": "/" + nme, "dt": rng.choice(["i32", "f64", "u32", "i64", "f32"]), "dims": dims}
            if kind == "chunk":
                o["chunk"] = [rng.randint(1, dims[0])]
                o["max"] = [-1]
            p.append(o)
            p.append({"op": "write", "p": "/" + nme, "data": rng.choice(["seq", "ext", "rnd"])})
            for a in range(rng.randint(0, 6)):
                p.append({"op": "attr", "p": "/" + nme, "n": "a%d" % (a % 4), "v": rng.choice(["i32", "s40", "s150", "ad3", "u8"])})
                if rng.random() < 0.2:
                    p.append({"op": "delattr", "p": "/" + nme, "n": "a%d" % rng.randint(0, 3)})
            if kind == "chunk" and rng.random() < 0.7:
                p.append({"op": "resize", "p": "/" + nme, "dims": [rng.randint(1, 9)]})
                if rng.random() < 0.5:
                    p.append({"op": "write", "p": "/" + nme, "data": "seq"})
            if rng.random() < 0.5:
                p.append({"op": "hlink", "p": "/l_" + nme, "t": "/" + nme})
        progs[nme] = p
    return progs


def random_interleavings(ctx, n):
    rng = random.Random(ctx.seed * 15485863 + 4)
    cases = []
    for k in range(n):
        names = ["o%d" % i for i in range(rng.randint(4, 6))]
        progs = programs(rng, names)
        idx = {nm: 0 for nm in names}
        ops = []
        live = [nm for nm in names if progs[nm]]
        while live:
            nm = rng.choice(live)
            ops.append(progs[nm][idx[nm]])
            idx[nm] += 1
            if idx[nm] == len(progs[nm]):
                live.remove(nm)
        cases.append({"cfg": {"sb": rng.choice([0, 2, 3]), "rb": "", "style": 0, "tag": "C04-random"}, "ops": ops})
    return cases


def run(ctx):
    thorough = ctx.tier == "thorough"
    models = [("C04Model.tla", "C04_PXY.cfg"), ("C04Model.tla", "C04_PXG.cfg"), ("C04Model.tla", "C04_PXYG.cfg"),
              ("C04Model.tla", "C04_PVY.cfg"), ("C04Model.tla", "C04_PVX.cfg")]
    if thorough:
        models.append(("C04Model.tla", "C04_PXYGlong.cfg"))
    # design level: the Frame property of the behaviour specification
    ctx.model_check("C04Frame.tla", "C04_frame.cfg", workers=min(8, ctx.workers))
    return run_logical(
        ctx, LEVEL, models,
        extra_cases=random_interleavings(ctx, 1500 if thorough else 150) + neighbour_cases("C04-neighbours", False),
        nontrivial=lambda c: len({tuple(o.get("pc") or [o.get("p")])[0] for o in c["ops"]}) >= 2,
        rule="cases = ALL interleavings (TLC, Interleave.tla) of per-object programs over 2-3 live objects "
             "(chunked resizable dataset with attributes crossing into dense storage + resize + hard link; contiguous dataset "
             "with growing attributes + new sibling; group with attributes + member; variable-length string dataset whose elements "
             "include one larger than a global heap collection), superblock 0/2/3, every dataset kind of the write API (compound, string, "
             "opaque, array, enumeration, variable-length, reference, numeric; contiguous and chunked) followed by a neighbour and then "
             "given attributes that outgrow a header allocated at its exact size, plus seeded random "
             "interleavings over 4-6 objects; every object is dumped after reopen and compared with the model; "
             "non-trivial = calls on at least two different objects; distinct by hash of the case")


def replay(ctx, body):
    return replay_logical(ctx, body)

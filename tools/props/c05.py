"""C05 - written files are well-formed: in bounds, disjoint, consistent, decodable by an independent decoder."""
import collections
import glob
import json
import os
import time

import h5vlib as H
from props.c01 import random_big, many_chunks
from props.logical import neighbour_cases

LEVEL = "exploration"
ASSUME = ["harness/indep is an independent decoder written from the HDF5 File Format Specification 3.0; before it judges library files it is run over "
          "the reference corpus on every run (515 files of the HDF5 C library, about 66 000 rule evaluations, see decoder_qualification: no rule of a supported structure "
          "fails and no two extents overlap on a well-formed reference file, else the check refuses to judge)",
          "structures the decoder does not implement (layout message versions other than 3, filtered chunks, nested indirect heap blocks, shared messages) "
          "are reported as unsupported and not judged; the library's writer produces none of them except filtered chunks, whose extents are still recorded",
          "where the library deviates from the format in a way that would stop the walk (attribute info under message type 0x0F, attribute name index of "
          "B-tree type 5, heap offsets not counting the block header) the deviation is flagged as a broken rule and the library's convention is followed, "
          "so that everything behind it is still checked",
          "TLC/SANY, Go toolchain"]


def corpus_selfcheck(ctx):
    """The decoder must hold its own rules on reference files before it may judge the library: files written by the
    HDF5 C library (the official test files and the C-library corpus shipped with the repository, minus those that are
    corrupt on purpose) are walked; a failing rule or two overlapping extents there are a defect of the decoder."""
    files = []
    for pat in ("testdata/hdf5_official/*.h5", "testdata/c-library-corpus/**/*.h5", "testdata/reference/*.h5"):
        files += glob.glob(os.path.join(ctx.repo, pat), recursive=True)
    files = sorted(f for f in set(files) if os.path.getsize(f) > 0)
    path = ctx.write_cases([{"file": f} for f in files], "corpus_files.ndjson")
    trace, out = ctx.drive("c05corpus", path, trace_name="corpus_trace.ndjson")
    evs = [json.loads(x) for x in open(trace)]
    evs = [e for e in evs if e.get("op") == "corpus"]
    bad = [e for e in evs if (e["broken"] or e["overlaps"] or e["res"] != "ok") and os.path.basename(e["file"]) not in CORRUPT_ON_PURPOSE]
    if os.environ.get("H5V_HIST"):
        for e in evs:
            if e["broken"] or e["overlaps"] or e["res"] != "ok":
                H.log("CORPUS %s res=%s broken=%s overlaps=%s errs=%s" % (os.path.relpath(e["file"], ctx.repo), e["res"], e["broken"][:4], e["overlaps"][:2], e["errs"][:3]))
    if bad:
        raise H.Infra("the independent decoder fails its own rules on %d well-formed reference files, e.g. %s: %s %s" % (
            len(bad), os.path.relpath(bad[0]["file"], ctx.repo), bad[0]["broken"][:3], bad[0]["overlaps"][:1]))
    return {"files": len(evs), "rules_evaluated": sum(e["rules"] for e in evs), "objects": sum(e["objects"] for e in evs),
            "extents": sum(e["extents"] for e in evs), "files_with_objects": sum(1 for e in evs if e["objects"] > 0),
            "corrupt_on_purpose_skipped": sorted(os.path.basename(e["file"]) for e in evs if os.path.basename(e["file"]) in CORRUPT_ON_PURPOSE)}


# reference files that are malformed by design (regression inputs of the C library's own tests) or are one half of a pair
CORRUPT_ON_PURPOSE = {
    "3790_infinite_loop.h5": "fuzzed: header block size beyond the file",
    "bad_offset.h5": "symbol table entry with a name offset outside the local heap",
    "h5repack_CVE-2018-14460.h5": "CVE reproducer: dataspace message cut short",
    "h5repack_CVE-2018-17432.h5": "CVE reproducer: storage size disagrees with the dataspace",
    "memleak_H5O_dtype_decode_helper_H5Odtype.h5": "fuzzed attribute message",
    "tCVE-2021-37501_attr_decode.h5": "CVE reproducer: maximum dimension below the current one",
    "th5s.h5": "dataspace with a rank above the format's limit (the C library's refusal test)",
    "tmisc38a.h5": "datatype size field altered (65525-byte float)",
    "tsplit_file-m.h5": "metadata half of a split-file pair: raw data addresses point into the other file",
}


def run(ctx):
    thorough = ctx.tier == "thorough"
    ctx.build()
    qual = corpus_selfcheck(ctx)
    models = [("C01Model.tla", "C01_thorough.cfg" if thorough else "C01_quick.cfg"),
              ("C03Model.tla", "C03_thorough.cfg" if thorough else "C03_quick.cfg"), ("C03Model.tla", "C03_sb.cfg"), ("C03Model.tla", "C03_links.cfg"),
              ("C04Model.tla", "C04_PXY.cfg"), ("C04Model.tla", "C04_PXYG.cfg"),
              ("C13Model.tla", "C13_r1.cfg" if thorough else "C13_r1q.cfg"), ("C13Model.tla", "C13_r2.cfg"),
              ("C10Model.tla", "C10_thorough.cfg" if thorough else "C10_quick.cfg")]
    cases, per_model, states, trans = [], [], 0, 0
    stride = 1 if thorough else 5
    for module, cfg in models:
        lines, r = ctx.generate(module, cfg, timeout=1500)
        cs = [json.loads(x) for x in lines]
        keep = cs[::stride] if len(cs) > 400 else cs
        per_model.append({"module": module, "cfg": cfg, "behaviours": len(cs), "used": len(keep), "distinct_states": r.distinct})
        cases += keep
        states += r.distinct
        trans += r.generated
    # many attributes on one object: compact -> dense storage and back below the threshold
    for sb in (0, 2, 3):
        for n in (7, 8, 9, 12, 20):
            ops = [{"op": "mkds", "p": "/d", "dt": "i32", "dims": [4]}, {"op": "write", "p": "/d", "data": "seq"}]
            ops += [{"op": "attr", "p": "/d", "n": "a%02d" % i, "v": ["i32:a", "f64:b", "s5:c", "ai3:d"][i % 4]} for i in range(n)]
            if n > 8:
                ops += [{"op": "delattr", "p": "/d", "n": "a%02d" % i} for i in range(0, n, 3)]
            cases.append({"cfg": {"sb": sb, "rb": "", "style": 0, "tag": "C05-dense"}, "ops": ops})
    # datatypes whose message has inner structure: enumerations (member names at the padding boundaries), arrays, references
    for sb in (0, 2, 3):
        for dt in ("enum", "enumn", "enumw", "arr3", "ref", "opq7", "str1", "vls"):
            for chunk in ([], [2]):
                ops = [{"op": "mkds", "p": "/d", "dt": dt, "dims": [4], "chunk": chunk}, {"op": "write", "p": "/d", "data": "ext" if dt == "vls" else "seq"},
                       {"op": "mkds", "p": "/e", "dt": "i32", "dims": [2]}, {"op": "write", "p": "/e", "data": "seq"}]
                cases.append({"cfg": {"sb": sb, "rb": "", "style": 0, "tag": "C05-types"}, "ops": ops})
    # filtered chunked datasets: a filter may GROW a chunk (a checksum without a compressor, deflate on data that does not
    # compress); the stored chunks (sizes from the index) must still be disjoint from each other and from the index
    for sb in (0, 2, 3):
        for flt in ("fletcher", "gzip", "shuffle+gzip", "shuffle+fletcher", "gzip+fletcher"):
            for dt, dims, chunk in (("i32", [64], [16]), ("f64", [6, 8], [3, 4]), ("u8", [40], [8])):
                ops = [{"op": "mkds", "p": "/f", "dt": dt, "dims": dims, "chunk": chunk, "flt": flt}, {"op": "write", "p": "/f", "data": "rnd"},
                       {"op": "mkds", "p": "/e", "dt": "i32", "dims": [2]}, {"op": "write", "p": "/e", "data": "seq"},
                       {"op": "attr", "p": "/f", "n": "a", "v": "s40"}]
                cases.append({"cfg": {"sb": sb, "rb": "", "style": 0, "tag": "C05-filtered"}, "ops": ops})
    cases += many_chunks() + random_big(ctx, 3000 if thorough else 400)
    cases += neighbour_cases("C05-neighbours", False) + neighbour_cases("C05-neighbours-sessions", True)
    path = ctx.write_cases(cases)
    trace, dout = ctx.drive("ops", path, env={"H5V_VIEW": "indep", "H5V_IOLOG": "1"})
    H.log(dout.strip())
    # 0. extended coverage, no verdict: the I/O log of every history (each allocation and write of the low-level file
    #    writer, recorded by the tag-guarded hook) against the allocation discipline of Layout.tla
    ctx.model_check("Layout.tla", "Layout_design_thorough.cfg" if thorough else "Layout_design.cfg", workers=min(8, ctx.workers), timeout=1500)
    rc = ctx.tlc("Layout.tla", "Layout_code_roundup.cfg", workers=2, timeout=300)
    if rc.ok or not rc.violated:
        raise H.Infra("Layout with CODE_WriteRoundedUp no longer yields a counterexample")
    v0, _ = ctx.validate("LayoutTrace.tla", "Layout_trace.cfg", trace)
    io_notes = collections.Counter()
    for b in v0["bad"]:
        for it in b.get("items", []):
            io_notes[it.get("diag")] += 1
    for b in v0["bad"][:5]:
        it = b["items"][0]
        H.log("NOTE extended-coverage io-log: %s in case %s: %s" % (it.get("diag"), json.dumps(cases[b["case"]]["cfg"]), json.dumps(it)[:300]))
    if v0["bad"]:
        H.log("NOTE extended-coverage io-log: %d histories leave the allocation discipline of Layout.tla (%s)" % (len(v0["bad"]), dict(io_notes)))
    if v0["stats"]["logs"] + len(v0["bad"]) == 0:
        raise H.Infra("no I/O log was recorded: the hook in internal/writer is not reached")
    # 1. layout: bounds, disjointness, decodability, format rules
    v1, s1 = ctx.validate("C05Trace.tla", "C05_trace.cfg", trace)
    # 2. content: the tree and values the independent decoder recovers against the model of the history
    v2, s2 = ctx.validate("H5LogicalTrace.tla", "H5Logical_trace.cfg", trace)
    bad = v1["bad"] + v2["bad"]
    nviol, known = H.report(ctx, bad, lambda i: cases[i], trace)
    if os.environ.get("H5V_HIST"):
        hist = collections.Counter()
        for b in bad:
            for it in b.get("items", []):
                k = (it.get("diag"), it.get("rule"), it.get("kind"), it.get("a"), it.get("b"), str(it.get("msg"))[:50] if it.get("diag") == "structure-not-decodable" else None)
                hist[k] += 1
                if it.get("diag") in ("overlap", "value-mismatch", "wrong-kind", "extra-path") and hist[k] <= 2:
                    H.log("EX %s case=%s %s" % (k[0], json.dumps(cases[b["case"]])[:500], json.dumps(it)[:400]))
        for k, n in sorted(hist.items(), key=str):
            H.log("HIST %5d %s" % (n, k))
    st = v1["stats"]
    cov = {
        "evaluations": len(cases),
        "distinct_nontrivial": len({H.nontrivial_hash(c) for c in cases if len(c["ops"]) >= 2}),
        "rule": "files = the files produced by the write-API histories that TLC generates for C01 (dataset shapes, types, chunk geometry), C03 (groups, "
                "hard/soft/external links), C04 (attributes and several objects), C13 (resize) and C10 (reopen for modification) under superblock "
                "0/2/3 (a stratified fifth in quick, all in thorough), dense-attribute histories crossing the threshold both ways, and seeded larger "
                "datasets. Every file is walked from the superblock by the independent decoder; TLC checks every extent for bounds (file size, recorded "
                "end-of-file address) and pairwise disjointness, every format rule the decoder evaluated (signatures, versions, size fields, "
                "checksums, ordering, capacity of fixed-size nodes), and - with the H5LogicalTrace judge - that the tree, types, shapes, values and "
                "attributes the decoder recovers are the model state of the history; non-trivial = histories of at least two calls",
        "decoder_qualification": qual, "generators": per_model,
        "extended_coverage_io_log": {"module": "spec/design/Layout.tla, spec/trace/LayoutTrace.tla", "stats": v0["stats"],
                                     "histories_outside_the_discipline": len(v0["bad"]), "by_diagnosis": dict(io_notes)}, "states": states, "transitions": trans,
        "traces_validated_against_impl": st["files"],
        "samples": [cases[0], cases[len(cases) // 2]],
        "layout_stats": st, "content_stats": v2["stats"], "rejected_layout": len(v1["bad"]), "rejected_content": len(v2["bad"]),
        "known_findings_matched": known, "exhaustive": False,
    }
    H.write_evidence(ctx, LEVEL, cov, ASSUME, nviol)
    H.log("C05 %s: files=%d extents=%d rules=%d rejected(layout)=%d rejected(content)=%d violations=%d known=%s wall=%.1fs" % (
        ctx.tier, st["files"], st["extents"], st["rules"], len(v1["bad"]), len(v2["bad"]), nviol, known, time.time() - ctx.t0))
    return 1 if nviol else 0


def replay(ctx, body):
    path = ctx.write_cases([body["case"]])
    trace, _ = ctx.drive("ops", path, env={"H5V_VIEW": "indep"})
    v1, _ = ctx.validate("C05Trace.tla", "C05_trace.cfg", trace)
    v2, _ = ctx.validate("H5LogicalTrace.tla", "H5Logical_trace.cfg", trace)
    H.log("VERDICT " + json.dumps({"layout": v1, "content": v2})[:4000])
    return 1 if v1["bad"] or v2["bad"] else 0

"""Shared runner for the properties judged by H5LogicalTrace (C01 C03 C04 C10 C13 C16 C19a)."""
import json
import time

import h5vlib as H

ASSUME = [
    "the library's own reader (Open/Walk/Read*/Attributes) is the projection of file content",
    "expected values (float64 widening, strings, attribute bytes) are computed by the harness, not by the library",
    "TLC/SANY, Go toolchain",
]


def _drop_object(evs):
    """the observation loses one object the history created"""
    for e in evs:
        if e.get("op") == "observe" and e.get("open") == "ok" and len(e.get("tree", [])) >= 2:
            victim = e["tree"][-1]
            e["tree"] = e["tree"][:-1]
            e.get("ds", {}).pop(victim["p"], None)
            e.get("gattrs", {}).pop(victim["p"], None)
            return evs
    return None


def _alter_value(evs):
    """one element value digest of a written dataset is altered"""
    for e in evs:
        if e.get("op") == "observe" and e.get("open") == "ok":
            for p, d in e.get("ds", {}).items():
                for r in ("f64", "str", "cmp"):
                    if d[r]["res"] == "ok" and d[r]["data"]["n"] > 0:
                        d[r]["data"]["dig"] = "x00" + d[r]["data"]["dig"][3:] if not d[r]["data"]["dig"].startswith("x00") else "x11" + d[r]["data"]["dig"][3:]
                        d[r]["data"]["vals"] = [v + 1 for v in d[r]["data"]["vals"]]
                        return evs if any(o.get("op") == "write" and o.get("res") == "ok" for o in evs) else None
    return None


def _flip_result(evs):
    """a create call that succeeded is recorded as refused"""
    for e in evs:
        if e.get("op") in ("mkds", "mkgroup") and e.get("res") == "ok":
            e["res"], e["msg"] = "err", "altered"
            return evs
    return None


CORRUPTORS = [("observation-loses-an-object", _drop_object), ("create-result-flipped", _flip_result)]


def run_logical(ctx, level, models, extra_cases=None, nontrivial=None, rule="", sim=None, sample_filter=None, extra_cov=None, stored_bytes_of=None):
    """models: list of (module, cfg) generator configurations (each also model-checks its invariants).
    extra_cases: list of additional case dicts (seeded random drivers).
    sim: optional (module, cfg, num, depth) for tlc -simulate behaviours beyond the bound."""
    cases, states, trans = [], 0, 0
    per_model = []
    for module, cfg in models:
        lines, r = ctx.generate(module, cfg, timeout=1500)
        cs = [json.loads(x) for x in lines]
        per_model.append({"module": module, "cfg": cfg, "behaviours": len(cs), "distinct_states": r.distinct,
                          "generated": r.generated, "wall_s": round(r.wall, 1)})
        cases += cs
        states += r.distinct
        trans += r.generated
    ngen = len(cases)
    if sim:
        lines, r = ctx.simulate(*sim)
        seen = set()
        for x in lines:
            if x not in seen:
                seen.add(x)
                cases.append(json.loads(x))
        per_model.append({"module": sim[0], "cfg": sim[1], "simulated": len(seen)})
    nsim = len(cases) - ngen
    if extra_cases:
        cases += extra_cases
    path = ctx.write_cases(cases)
    trace, dout = ctx.drive("ops", path)
    H.log(dout.strip())
    verdict, vs = ctx.validate("H5LogicalTrace.tla", "H5Logical_trace.cfg", trace)
    bad = verdict["bad"]
    nviol, known = H.report(ctx, bad, lambda i: cases[i], trace)
    selftest = H.binding_selftest(ctx, "H5LogicalTrace.tla", "H5Logical_trace.cfg", trace, CORRUPTORS)
    nraw = 0
    if stored_bytes_of:
        # element kinds for which the library offers no typed read (arrays, enumerations, opaque, compound): a second pass
        # in which the file is observed through the independent decoder, so that the STORED BYTES are compared (RawItem)
        sub = [c for c in cases if stored_bytes_of(c)]
        if sub:
            path2 = ctx.write_cases(sub, "cases_stored.ndjson")
            trace2, dout2 = ctx.drive("ops", path2, trace_name="trace_stored.ndjson", env={"H5V_VIEW": "indep"})
            verdict2, _ = ctx.validate("H5LogicalTrace.tla", "H5Logical_trace.cfg", trace2)
            nv2, known2 = H.report(ctx, verdict2["bad"], lambda i: sub[i], trace2)
            nviol += nv2
            known = sorted(set(known) | set(known2))
            bad = bad + verdict2["bad"]
            nraw = len(sub)
    nt = nontrivial or (lambda c: len(c["ops"]) >= 2)
    distinct = len({H.nontrivial_hash(c) for c in cases if nt(c)})
    samples = [cases[0], cases[min(len(cases) - 1, ngen // 2)]]
    if extra_cases:
        c = extra_cases[0]
        samples.append({"cfg": c["cfg"], "ops": c["ops"][:10], "ops_total": len(c["ops"])})
    cov = {
        "states": states,
        "transitions": trans,
        "traces_validated_against_impl": verdict["stats"].get("cases", 0),
        "samples": samples,
        "evaluations": len(cases),
        "distinct_nontrivial": distinct,
        "rule": rule,
        "generators": per_model,
        "tlc_generated_cases": ngen,
        "tlc_simulated_cases": nsim,
        "random_driver_cases": len(extra_cases or []),
        "trace_stats": verdict["stats"],
        "trace_events": verdict["events"],
        "trace_validation": vs,
        "rejected_cases": len(bad),
        "known_findings_matched": known,
        "exhaustive": False,
        "binding_selftest": selftest,
        "cases_observed_through_independent_decoder": nraw,
    }
    if extra_cov:
        cov.update(extra_cov)
    H.write_evidence(ctx, level, cov, ASSUME, nviol)
    H.log("%s %s: cases=%d rejected=%d violations=%d known=%s wall=%.1fs" % (
        ctx.prop, ctx.tier, len(cases), len(bad), nviol, known, time.time() - ctx.t0))
    return 1 if nviol else 0


def replay_logical(ctx, body):
    case = body["case"]
    path = ctx.write_cases([case])
    trace, _ = ctx.drive("ops", path)
    verdict, _ = ctx.validate("H5LogicalTrace.tla", "H5Logical_trace.cfg", trace)
    with open(trace) as f:
        H.log(f.read())
    H.log("VERDICT " + json.dumps(verdict))
    return 1 if verdict["bad"] else 0


NEIGHBOUR_TYPES = ["cmp", "str8", "opq4", "arr3", "enum", "enumn", "vls", "ref", "i32", "f64"]


def neighbour_cases(tag, sessions):
    """Every kind of dataset the write API can create (its creation path reserves header space in its own way) followed by a
    plain dataset, then attributes - small ones and one of 150 bytes, enough to outgrow an object header that was allocated
    at its exact size - on the FIRST one; with `sessions` the attributes come after a reopen for modification."""
    cases = []
    for sb in (0, 2, 3):
        for dt in NEIGHBOUR_TYPES:
            for chunk in ([], [2]):
                if chunk and dt in ("cmp",):
                    continue
                mk = {"op": "mkds", "p": "/c", "dt": dt, "dims": [4]}
                if chunk:
                    mk["chunk"] = chunk
                ops = [mk, {"op": "write", "p": "/c", "data": "ext" if dt == "vls" else "seq"},
                       {"op": "mkds", "p": "/d", "dt": "i32", "dims": [6]}, {"op": "write", "p": "/d", "data": "neg"}]
                if sessions:
                    ops += [{"op": "session"}, {"op": "opends", "p": "/c"}]
                ops += [{"op": "attr", "p": "/c", "n": "a1", "v": "i32"}, {"op": "attr", "p": "/c", "n": "a2", "v": "s150"},
                        {"op": "attr", "p": "/c", "n": "a3", "v": "ad3"}, {"op": "attr", "p": "/c", "n": "a4", "v": "s150"}]
                if sessions:
                    ops += [{"op": "session"}, {"op": "mkgroup", "p": "/g"}]
                cases.append({"cfg": {"sb": sb, "rb": "", "style": 0, "tag": tag}, "ops": ops})
    # an object header filled to every size up to and beyond its capacity, one byte at a time (one string attribute of
    # 1..230 bytes, for a group and for a dataset), with a neighbour allocated right behind it - created before and after
    # the attribute is written.  Exactly full is one of the sizes.
    if True:
        for L in range(1, 231):
            for first in (True, False):
                for kind in (("ds",) if sessions else ("ds", "grp")):
                    own = [{"op": "mkds", "p": "/c", "dt": "i32", "dims": [2]}, {"op": "write", "p": "/c", "data": "seq"}] if kind == "ds" \
                        else [{"op": "mkgroup", "p": "/c"}]
                    nb = [{"op": "mkds", "p": "/d", "dt": "i32", "dims": [6]}, {"op": "write", "p": "/d", "data": "neg"}]
                    at = [{"op": "attr", "p": "/c", "n": "a", "v": "s%d" % L}]
                    if sessions:     # the attribute is written in a later session, on the reopened dataset
                        at = [{"op": "session"}, {"op": "opends", "p": "/c"}] + at + [{"op": "session"}, {"op": "mkgroup", "p": "/g"}]
                        if first:
                            continue
                    ops = own + (at + nb if first else nb + at)
                    cases.append({"cfg": {"sb": [2, 3, 0][L % 3] if L % 5 else 2, "rb": "", "style": 0, "tag": tag + "-fill"}, "ops": ops})
                    if not first and L % 2 == 0:
                        # the same sizes reached by REPLACING a one-byte value of the attribute (the in-place path of the header writer)
                        ops = own + [{"op": "attr", "p": "/c", "n": "a", "v": "s1"}] + nb + at
                        cases.append({"cfg": {"sb": 2, "rb": "", "style": 0, "tag": tag + "-fill-replace"}, "ops": ops})
    return cases


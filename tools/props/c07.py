"""C07 - no input file can crash, hang or exhaust the reader."""
import glob
import json
import os
import shutil
import subprocess
import time

import h5vlib as H
from props import hdrchain

LEVEL = "fault_enumeration"
ASSUME = ["all byte strings are represented by: every candidate field (every offset of the metadata of a base file x widths 1,2,4,8) set to boundary values, "
          "every pointer-holding window redirected to every structure of the file (itself included), and seeded random multi-byte mutations, of "
          "library-written and reference files",
          "memory is the growth of the reader process' heap (live objects plus uncollected garbage, sampled every 200 microseconds from runtime/metrics) while it handles one input; bound 64 MiB + 64 x file size; allocations that do not fit under RLIMIT_AS kill the worker and are seen as such; "
          "time bound 5 s per input, no answer within 10 s = hang; the worker runs under RLIMIT_AS 3 GiB and a 48 MiB stack limit",
          "Go memory safety is observed, not modelled", "TLC/SANY, Go toolchain"]

QUICK_REF = ["v0.h5", "v2.h5", "v3.h5", "with_groups.h5", "test_attributes.h5", "compound_test.h5", "string_test.h5", "test_3d_chunked.h5",
             "vlen_strings.h5", "gzip_test.h5", "various_types.h5", "with_attributes.h5"]


def corpus(ctx):
    out = []
    for pat in ("testdata/*.h5", "testdata/*.hdf5", "testdata/reference/*.h5", "testdata/c-library-corpus/**/*.h5", "testdata/hdf5_official/*.h5"):
        out += glob.glob(os.path.join(ctx.repo, pat), recursive=True)
    return sorted(p for p in set(out) if os.path.getsize(p) > 0)


def run(ctx):
    thorough = ctx.tier == "thorough"
    ctx.build()
    # 0. the walk model: the guarded design terminates on every pointer graph; the guards the code has do not
    d1 = ctx.model_check("ReaderWalk.tla", "C07_design.cfg", workers=4)
    d2 = ctx.model_check("ReaderWalk.tla", "C07_design3.cfg", workers=8)
    for cfg in ("C07_code_ptr.cfg", "C07_code_size.cfg"):
        r = ctx.tlc("ReaderWalk.tla", cfg, workers=2, timeout=120)
        if r.ok or not r.violated:
            raise H.Infra("ReaderWalk with the code's guards (%s) no longer violates its invariant" % cfg)
    # 1. base files
    p = subprocess.run([ctx.h5v, "c07", "-mode", "mkfiles", "-dir", ctx.files, "-out", "-"], stdout=subprocess.PIPE, stderr=subprocess.STDOUT, text=True)
    if p.returncode != 0:
        raise H.Infra("could not write the base files: " + p.stdout[-500:])
    libfiles = json.loads(p.stdout.strip().splitlines()[-1])
    cases = []
    for f in libfiles:
        cases.append({"file": f, "name": os.path.basename(f), "classes": ["field", "pointer", "random"],
                      "full": 16384 if thorough else 1024, "stride": 211 if thorough else 4099, "win": 384 if thorough else 72,
                      "nrand": 20000 if thorough else 1500})
    refs = corpus(ctx)
    small = [r for r in refs if os.path.getsize(r) <= 65536]
    if thorough:
        sweep = set(small[::12]) | {r for r in refs if os.path.basename(r) in QUICK_REF}
        for r in refs:
            big = os.path.getsize(r) > 1 << 20
            cases.append({"file": r, "name": os.path.relpath(r, os.path.join(ctx.repo, "testdata")),
                          "classes": (["field"] if r in sweep else []) + ["pointer", "random"],
                          "full": 8192, "stride": 997, "win": 128, "nrand": 200 if big else 1500})
    else:
        for r in refs:
            if os.path.basename(r) in QUICK_REF and os.path.dirname(r).endswith("testdata"):
                cases.append({"file": r, "name": os.path.basename(r), "classes": ["field", "pointer", "random"],
                              "full": 1024, "stride": 4099, "win": 48, "nrand": 400})
    # inputs that once broke a reader (found by the thorough tier): replayed on every run
    with open(os.path.join(H.ROOT, "notes", "c07_regression_inputs.json")) as f:
        for r in json.load(f)["inputs"]:
            fp = os.path.join(ctx.repo, r["file"])
            if os.path.exists(fp):
                cases.append({"file": fp, "name": os.path.relpath(fp, os.path.join(ctx.repo, "testdata")), "classes": [], "muts": r["muts"],
                              "full": 0, "stride": 4099, "win": 48, "nrand": 0})
    path = ctx.write_cases(cases)
    trace = os.path.join(ctx.scr, "trace.ndjson")
    argv = [ctx.h5v, "c07", "-mode", "run", "-in", path, "-out", trace, "-dir", ctx.files, "-seed", str(ctx.seed), "-workers", str(ctx.workers)]
    p = subprocess.run(argv, stdout=subprocess.PIPE, stderr=subprocess.STDOUT, text=True, timeout=6 * 3600)
    if p.returncode != 0:
        raise H.Infra("robustness driver failed: " + p.stdout[-800:])
    H.log(p.stdout.strip().splitlines()[-1])
    verdict, vs = ctx.validate("C07Trace.tla", "C07_trace.cfg", trace)
    nviol, known = H.report(ctx, verdict["bad"], lambda i: cases[i], trace)
    if os.environ.get("H5V_HIST"):
        import collections
        hist = collections.Counter()
        for b in verdict["bad"]:
            for it in b.get("items", []):
                hist[(it.get("diag"), it.get("site"), str(it.get("why"))[:70])] += 1
        for k, n in hist.most_common(40):
            H.log("HIST %4d %s" % (n, k))
    st = verdict["stats"]
    # object header chains: every small shape TLC derives from HeaderChain.tla as real bytes (panic / hang = violation)
    hfatal, hcases, htrace, hcov = hdrchain.run_family(ctx, thorough)
    hviol, hknown = H.report(ctx, hfatal, lambda i: {"hdrchain": hcases[i]}, htrace)
    nviol, known = nviol + hviol, known + hknown
    cov = {
        "header_chain_family": hcov,
        "evaluations": st["inputs"],
        "distinct_nontrivial": st["inputs"] - len(cases),
        "rule": "inputs = mutants of %d base files (%d library-written covering symbol-table and link-message groups, compact and dense attributes, "
                "contiguous/chunked/string/variable-length datasets, hard and soft links; the rest from the bundled reference corpus): field class = "
                "every candidate offset x width {1,2,4,8} x boundary values {0,1,max,max-1,sign boundaries,value+-1,file size+-1,own offset,2^31,2^32-1,...}; "
                "pointer class = every window holding a structure address redirected to every structure found by signature scan, itself included "
                "(the self-referential and shared-child shapes ReaderWalk.tla derives); random class = seeded 1..8 byte mutations. Each input is opened "
                "and fully read (Open, Walk, Info, Read, ReadStrings, ReadCompound, Attributes, ReadValue) by an isolated worker process; "
                "non-trivial = all but the intact files" % (len(cases), len(libfiles)),
        "fault_sites": st["inputs"],
        "samples": [cases[0], cases[-1]],
        "states": d1.distinct + d2.distinct, "transitions": d1.generated + d2.generated, "exhaustive": False,
        "trace_stats": st, "rejected_buckets": len(verdict["bad"]), "known_findings_matched": known,
    }
    H.write_evidence(ctx, LEVEL, cov, ASSUME, nviol)
    H.log("C07 %s: bases=%d inputs=%d answered=%d rejected-buckets=%d violations=%d known=%s wall=%.1fs" % (
        ctx.tier, len(cases), st["inputs"], st["answered"], len(verdict["bad"]), nviol, known, time.time() - ctx.t0))
    return 1 if nviol else 0


def replay(ctx, body):
    """Replays the exemplar mutations of a rejected bucket on their base file."""
    ctx.build()
    if "hdrchain" in body["case"]:
        if "family" in body["case"]["hdrchain"]:
            trace, _ = ctx.drive("dagopen", None)
        else:
            path = ctx.write_cases([body["case"]["hdrchain"]])
            trace, _ = ctx.drive("hdrchain", path)
        verdict, _ = ctx.validate("HdrChainTrace.tla", "HdrChain_trace.cfg", trace)
        H.log("VERDICT " + json.dumps(verdict))
        return 1 if verdict["bad"] else 0
    case = dict(body["case"])
    diag = body.get("diag", {})
    case["classes"] = []
    case["muts"] = diag.get("ex", [])
    if not os.path.exists(case["file"]):
        p = subprocess.run([ctx.h5v, "c07", "-mode", "mkfiles", "-dir", ctx.files, "-out", "-"], stdout=subprocess.PIPE, stderr=subprocess.STDOUT, text=True)
        case["file"] = os.path.join(ctx.files, os.path.basename(case["file"]))
    path = ctx.write_cases([case])
    trace = os.path.join(ctx.scr, "trace.ndjson")
    subprocess.run([ctx.h5v, "c07", "-mode", "run", "-in", path, "-out", trace, "-dir", ctx.files, "-workers", "2"], check=True)
    verdict, _ = ctx.validate("C07Trace.tla", "C07_trace.cfg", trace)
    H.log("VERDICT " + json.dumps(verdict))
    return 1 if verdict["bad"] else 0

"""C13 - Resize keeps retained data, zero-fills new space, respects the declared maximum."""
import random

from props.logical import run_logical, replay_logical

LEVEL = "model_checking"


def random_resizes(ctx, n):
    rng = random.Random(ctx.seed * 32452843 + 13)
    cases = []
    for k in range(n):
        rank = rng.choice([1, 1, 2, 2, 3])
        dims = [rng.randint(1, 7 if rank == 1 else 4) for _ in range(rank)]
        chunk = [rng.randint(1, max(1, d)) for d in dims]
        mx = [rng.choice([-1, -1, d + rng.randint(0, 4)]) for d in dims]
        ops = [{"op": "mkds", "p": "/d", "dt": rng.choice(["i32", "f64", "i64", "u32"]), "dims": dims, "chunk": chunk, "max": mx}]
        if rng.random() < 0.9:
            ops.append({"op": "write", "p": "/d", "data": "seq"})
        for _ in range(rng.randint(1, 8)):
            if rng.random() < 0.7:
                nd = [max(1, d + rng.randint(-3, 4)) for d in dims]
                if rng.random() < 0.1:
                    nd = nd[:-1] if len(nd) > 1 else nd + [1]   # wrong rank
                ops.append({"op": "resize", "p": "/d", "dims": nd})
            else:
                ops.append({"op": "write", "p": "/d", "data": rng.choice(["seq", "neg"])})
        cases.append({"cfg": {"sb": rng.choice([0, 2, 3]), "rb": "", "style": 0, "tag": "C13-random"}, "ops": ops})
    return cases


def boundaries():
    """Extents and chunk counts across 255/256 and 65535/65536, element types of 1, 2 and 8 bytes, a dimension of extent 1, a Resize
    to the current shape, exactly to the maximum, and two resizable datasets resized and rewritten in turn in one session."""
    cases = []

    def add(ops, sb):
        cases.append({"cfg": {"sb": sb, "rb": "", "style": 0, "tag": "C13-boundaries"}, "ops": ops})
    for dt in ("u8", "i16", "i32", "f64"):
        for sb in (2, 0, 3):
            mk = {"op": "mkds", "p": "/d", "dt": dt, "dims": [250], "chunk": [1], "max": [-1]}
            add([mk, {"op": "write", "p": "/d", "data": "seq"}, {"op": "resize", "p": "/d", "dims": [257]}, {"op": "resize", "p": "/d", "dims": [255]},
                 {"op": "resize", "p": "/d", "dims": [256]}, {"op": "write", "p": "/d", "data": "neg"}, {"op": "resize", "p": "/d", "dims": [256]},
                 {"op": "resize", "p": "/d", "dims": [1]}], sb)
        mk = {"op": "mkds", "p": "/d", "dt": dt, "dims": [65535], "chunk": [4096], "max": [65537]}
        add([mk, {"op": "write", "p": "/d", "data": "rnd"}, {"op": "resize", "p": "/d", "dims": [65537]}, {"op": "resize", "p": "/d", "dims": [65538]},
             {"op": "resize", "p": "/d", "dims": [65536]}, {"op": "write", "p": "/d", "data": "rnd"}, {"op": "resize", "p": "/d", "dims": [4096]},
             {"op": "resize", "p": "/d", "dims": [4097]}], 2)
        mk = {"op": "mkds", "p": "/d", "dt": dt, "dims": [1, 5, 1], "chunk": [1, 2, 1], "max": [3, -1, 1]}
        add([mk, {"op": "write", "p": "/d", "data": "seq"}, {"op": "resize", "p": "/d", "dims": [1, 7, 1]}, {"op": "resize", "p": "/d", "dims": [3, 7, 1]},
             {"op": "write", "p": "/d", "data": "neg"}, {"op": "resize", "p": "/d", "dims": [3, 7, 2]}, {"op": "resize", "p": "/d", "dims": [2, 3, 1]}], 3)
        a = {"op": "mkds", "p": "/a", "dt": dt, "dims": [4], "chunk": [2], "max": [-1]}
        b = {"op": "mkds", "p": "/b", "dt": "i32", "dims": [3, 3], "chunk": [2, 2], "max": [6, 6]}
        add([a, b, {"op": "write", "p": "/a", "data": "seq"}, {"op": "write", "p": "/b", "data": "seq"}, {"op": "resize", "p": "/a", "dims": [7]},
             {"op": "resize", "p": "/b", "dims": [5, 2]}, {"op": "write", "p": "/a", "data": "neg"}, {"op": "resize", "p": "/b", "dims": [6, 6]},
             {"op": "resize", "p": "/a", "dims": [3]}, {"op": "write", "p": "/b", "data": "neg"}, {"op": "resize", "p": "/b", "dims": [7, 6]}], 2)
    # maxima and extents beyond the signed 64-bit range, element counts of exactly 2^64 (header-only resizes: nothing is written there)
    for sb in (2, 0, 3):
        mk = {"op": "mkds", "p": "/d", "dt": "i32", "dims": [4], "chunk": [2], "max": [5], "top": [1]}          # maximum 2^63+5
        add([mk, {"op": "write", "p": "/d", "data": "seq"}, {"op": "resize", "p": "/d", "dims": [6]}, {"op": "resize", "p": "/d", "dims": [3]},
             {"op": "write", "p": "/d", "data": "neg"}], sb)
        mk = {"op": "mkds", "p": "/d", "dt": "i32", "dims": [4], "chunk": [2], "max": [50]}
        add([mk, {"op": "write", "p": "/d", "data": "seq"}, {"op": "resize", "p": "/d", "dims": [51], "top": [1]},          # 2^63+51: beyond the maximum
             {"op": "resize", "p": "/d", "dims": [50]}, {"op": "resize", "p": "/d", "dims": [0], "top": [1]}, {"op": "resize", "p": "/d", "dims": [5]},
             {"op": "write", "p": "/d", "data": "neg"}], sb)
        mk = {"op": "mkds", "p": "/d", "dt": "i32", "dims": [3, 3], "chunk": [2, 2], "max": [-1, -1]}
        add([mk, {"op": "write", "p": "/d", "data": "seq"}, {"op": "resize", "p": "/d", "dims": [1 << 32, 1 << 32]}, {"op": "resize", "p": "/d", "dims": [2, 4]},
             {"op": "write", "p": "/d", "data": "neg"}, {"op": "resize", "p": "/d", "dims": [1 << 31, 1 << 33]}, {"op": "resize", "p": "/d", "dims": [3, 3]},
             {"op": "write", "p": "/d", "data": "seq"}], sb)
    return cases


def run(ctx):
    thorough = ctx.tier == "thorough"
    models = [("C13Model.tla", "C13_r1.cfg" if thorough else "C13_r1q.cfg"), ("C13Model.tla", "C13_r2.cfg"),
              ("C13Model.tla", "C13_r3.cfg")]
    # design level (ChunkResize): at the chunk index, shrinking has to prune - chunks beyond the new extent leave the index, the
    # tail of the edge chunk is zeroed; with only the dataspace rewritten (the pinned code, the recorded finding) TLC finds
    # shrink-then-grow showing old values
    import h5vlib as H
    ctx.model_check("ChunkResize.tla", "ChunkResize_design.cfg", workers=min(4, ctx.workers), timeout=600)
    r = ctx.tlc("ChunkResize.tla", "ChunkResize_code_noprune.cfg", workers=2, timeout=300)
    if r.ok or not r.violated:
        raise H.Infra("ChunkResize with CODE_NoPrune no longer yields a counterexample")
    return run_logical(
        ctx, LEVEL, models,
        extra_cases=random_resizes(ctx, 2000 if thorough else 300) + boundaries(),
        nontrivial=lambda c: sum(1 for o in c["ops"] if o["op"] == "resize") >= 1 and any(o["op"] == "write" for o in c["ops"]),
        rule="cases = every sequence of <= Depth Resize/Write calls on one resizable dataset generated by TLC from H5Logical "
             "(rank 1 extents 1..7 chunk 1..3 fixed/unlimited max, rank 2, rank 3; beyond-max and wrong-rank requests included) "
             "plus seeded random sequences; the trace spec recomputes the expected element values after each resize "
             "(ResizeVals: retained inside both extents, zero elsewhere); non-trivial = at least one resize and one write")


def replay(ctx, body):
    return replay_logical(ctx, body)

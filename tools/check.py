#!/usr/bin/env python3
"""Entry point: check.py <Cxx> <quick|thorough> [--replay <path>]"""
import importlib
import json
import os
import sys
import traceback

sys.path.insert(0, os.path.dirname(os.path.abspath(__file__)))
import h5vlib  # noqa: E402


def main():
    if len(sys.argv) < 3:
        print("usage: check.py <Cxx> <quick|thorough> [--replay path]")
        return 2
    prop, tier = sys.argv[1], sys.argv[2]
    replay = None
    if "--replay" in sys.argv:
        replay = sys.argv[sys.argv.index("--replay") + 1]
    if tier not in ("quick", "thorough"):
        tier = os.environ.get("VERIF_TIER", "quick")
    mod = importlib.import_module("props." + prop.lower())
    ctx = h5vlib.Ctx(prop, tier)
    try:
        if replay:
            with open(replay) as f:
                body = json.load(f)
            ctx.seed = int(body.get("seed", ctx.seed))
            return mod.replay(ctx, body)
        return mod.run(ctx)
    except h5vlib.Infra as e:
        if h5vlib.VIOLATIONS_REPORTED > 0 and not replay:
            # violations of the real code were already reported (with replay files); a step that comes after the verdict
            # (a self-test that needs an accepted case, a coverage statistic) could not run - the verdict stands
            print("NOTE after the verdict: %s" % e, flush=True)
            h5vlib.write_evidence(ctx, getattr(mod, "LEVEL", "exploration"),
                                  {"evaluations": 0, "distinct_nontrivial": 0, "rule": "the run ended after reporting violations: " + str(e)[:300],
                                   "samples": [], "exhaustive": False}, getattr(mod, "ASSUME", []), h5vlib.VIOLATIONS_REPORTED)
            return 1
        print("INFRA property=%s could not decide: %s" % (prop, e), flush=True)
        return 2
    except Exception:
        traceback.print_exc()
        print("INFRA property=%s internal error" % prop, flush=True)
        return 2
    finally:
        if not os.environ.get("H5V_KEEP"):
            ctx.cleanup()
        else:
            print("kept scratch:", ctx.scr)


if __name__ == "__main__":
    sys.exit(main())

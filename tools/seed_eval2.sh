#!/bin/bash
# seed_eval2.sh <patch.diff> <Cxx> [Cyy ...] : evaluates a seeded change WITHOUT touching /repo or /verif/evidence:
# the patch is applied in a scratch worktree of /repo's HEAD, the checks run with H5V_REPO pointing at it and H5V_OUT at
# a scratch directory; NOTE lines are shown too.  (seed_eval.sh does the same on /repo itself.)
PATCH=$1; shift
W=$(mktemp -d /tmp/seedeval.XXXX)
git -C /repo worktree add -q --detach "$W/wt" HEAD || exit 2
git -C "$W/wt" apply "$PATCH" || { echo "patch does not apply"; git -C /repo worktree remove --force "$W/wt"; rm -rf "$W"; exit 2; }
mkdir -p "$W/out"
for p in "$@"; do
  out=$(cd /verif && H5V_REPO="$W/wt" H5V_OUT="$W/out" ./run.sh $p ${TIER:-quick} 2>&1); rc=$?
  echo "== $p rc=$rc :: $(echo "$out" | grep -E "^$p (quick|thorough)" | tail -1 | cut -c1-200)"
  echo "$out" | grep -E "rejected x|NOTE extended-coverage [a-z-]*: [0-9]|INFRA" | head -5 | cut -c1-300
done
git -C /repo worktree remove --force "$W/wt"; rm -rf "$W"
